#![no_main]
//! libFuzzer target `spell`: the oracle lives inside the target (see harness/src/fuzzdec.rs).
use libfuzzer_sys::fuzz_target;

fuzz_target!(|data: &[u8]| {
    if let Some(ffv::util::Verdict::Fail(msg)) = ffv::fuzzdec::judge("spell", data) {
        // libfuzzer-sys aborts on panic: the input is saved as a crash artifact
        eprintln!("FFV-ORACLE-FAILURE target=spell: {msg}");
        std::process::abort();
    }
});
