/* LD_PRELOAD shim used by the environment runs of the harness: moves the wall clock.
 *
 *   FFV_CLOCK_BASE     absolute second the process starts at (0 or unset: the real time)
 *   FFV_CLOCK_STEP_NS  every reading of the wall clock advances it by this many nanoseconds
 *
 * reading k of the wall clock returns  base + (real time elapsed since the first reading) + k*step,
 * so the clock is monotone, crosses minute/hour/day boundaries quickly and never stands still.
 * Only CLOCK_REALTIME (clock_gettime, gettimeofday, time) is moved; monotonic clocks are left alone. */
#define _GNU_SOURCE
#include <dlfcn.h>
#include <stdlib.h>
#include <stdatomic.h>
#include <sys/time.h>
#include <time.h>

static int (*real_clock_gettime)(clockid_t, struct timespec *);
static atomic_llong readings;
static long long base_ns = -1, step_ns, start_ns;
static atomic_int ready;

static void init(void) {
    if (atomic_load(&ready)) return;
    real_clock_gettime = (int (*)(clockid_t, struct timespec *))dlsym(RTLD_NEXT, "clock_gettime");
    struct timespec ts;
    real_clock_gettime(CLOCK_REALTIME, &ts);
    start_ns = (long long)ts.tv_sec * 1000000000LL + ts.tv_nsec;
    const char *b = getenv("FFV_CLOCK_BASE");
    const char *s = getenv("FFV_CLOCK_STEP_NS");
    long long bs = b ? atoll(b) : 0;
    base_ns = bs > 0 ? bs * 1000000000LL : start_ns;
    step_ns = s ? atoll(s) : 0;
    atomic_store(&ready, 1);
}

static void moved(struct timespec *ts) {
    long long real = (long long)ts->tv_sec * 1000000000LL + ts->tv_nsec;
    long long k = atomic_fetch_add(&readings, 1) + 1;
    long long t = base_ns + (real - start_ns) + k * step_ns;
    ts->tv_sec = t / 1000000000LL;
    ts->tv_nsec = t % 1000000000LL;
}

int clock_gettime(clockid_t id, struct timespec *ts) {
    init();
    int r = real_clock_gettime(id, ts);
    if (r == 0 && id == CLOCK_REALTIME) moved(ts);
    return r;
}

int gettimeofday(struct timeval *tv, void *tz) {
    (void)tz;
    struct timespec ts;
    int r = clock_gettime(CLOCK_REALTIME, &ts);
    if (r == 0 && tv) { tv->tv_sec = ts.tv_sec; tv->tv_usec = ts.tv_nsec / 1000; }
    return r;
}

time_t time(time_t *out) {
    struct timespec ts;
    clock_gettime(CLOCK_REALTIME, &ts);
    if (out) *out = ts.tv_sec;
    return ts.tv_sec;
}
