//! C01 — operator grammar: exact acceptance, precedence, associativity, grouping.

use crate::grammar::{self, W};
use crate::render;
use crate::tree::*;
use crate::util::*;
use lipe_find_parser::parse;
use proptest::prelude::*;
use serde_json::{json, Value};

fn alphabet() -> Vec<W> {
    vec![
        W::LP,
        W::RP,
        W::Not,
        W::Comma,
        W::And(false),
        W::And(true),
        W::Or(false),
        W::Or(true),
        W::Prim(E::T(Tst::True)),
        W::Prim(E::T(Tst::Name("x".into()))),
        W::Prim(E::A(Act::Print)),
    ]
}

pub fn word_text(w: &W) -> String {
    match w {
        W::LP => "(".into(),
        W::RP => ")".into(),
        W::Not => "!".into(),
        W::Comma => ",".into(),
        W::And(false) => "-a".into(),
        W::And(true) => "-and".into(),
        W::Or(false) => "-o".into(),
        W::Or(true) => "-or".into(),
        W::Prim(e) => render::canonical(e).expect("C01 primaries are renderable"),
    }
}

pub fn words_text(ws: &[W]) -> String {
    ws.iter().map(word_text).collect::<Vec<_>>().join(" ")
}

fn levels_used(e: &E, acc: &mut [bool; 5]) {
    match e {
        E::List(a, b) => {
            acc[0] = true;
            levels_used(a, acc);
            levels_used(b, acc);
        }
        E::Or(a, b) => {
            acc[1] = true;
            levels_used(a, acc);
            levels_used(b, acc);
        }
        E::And(a, b) => {
            acc[2] = true;
            levels_used(a, acc);
            levels_used(b, acc);
        }
        E::Not(a) => {
            acc[3] = true;
            levels_used(a, acc);
        }
        _ => {}
    }
}

fn contains_forbidden_node(e: &E) -> bool {
    match e {
        E::Prec(_) | E::G(_) => true,
        E::Not(a) => contains_forbidden_node(a),
        E::And(a, b) | E::Or(a, b) | E::List(a, b) => contains_forbidden_node(a) || contains_forbidden_node(b),
        _ => false,
    }
}

/// The oracle: reference grammar versus the public parse entry point.
/// Round trip over the whole vocabulary: the canonical text of a tree parses to exactly that tree.
pub fn judge_full(t: &E) -> Verdict {
    let Some(text) = crate::render::canonical(t) else { return Verdict::Skip("tree has no text form") };
    if matches!(t.leaves().first(), Some(E::G(_))) {
        return Verdict::Skip("starts with an option word");
    }
    match catch(|| parse(&text)) {
        Err(p) => Verdict::Fail(format!("parse panicked on {text:?}: {p}")),
        Ok(Err(e)) => Verdict::Fail(format!("printed tree {t:?} as {text:?}; parse returned Err({e})")),
        Ok(Ok((_, x))) => {
            let got = from_ast(&x);
            // option words inside the expression come back as -true (C13 decides the options)
            let want = options_as_true(t);
            if got != want {
                Verdict::Fail(format!("round trip of {text:?}: expected {want:?}, got {got:?}"))
            } else {
                Verdict::Pass { nt: t.n_operators() >= 2, class: "round trip over the whole vocabulary" }
            }
        }
    }
}

fn options_as_true(e: &E) -> E {
    match e {
        E::G(_) => E::T(Tst::True),
        E::Not(a) => E::not(options_as_true(a)),
        E::Prec(a) => options_as_true(a),
        E::And(a, b) => E::and(options_as_true(a), options_as_true(b)),
        E::Or(a, b) => E::or(options_as_true(a), options_as_true(b)),
        E::List(a, b) => E::list(options_as_true(a), options_as_true(b)),
        o => o.clone(),
    }
}

pub fn judge_words(ws: &[W]) -> Verdict {
    if ws.is_empty() {
        return Verdict::Skip("empty sequence (C06 covers blank input)");
    }
    let text = words_text(ws);
    let reference = grammar::parse(ws);
    let got = match catch(|| parse(&text)) {
        Ok(r) => r,
        Err(p) => return Verdict::Fail(format!("parse panicked on {text:?}: {p}")),
    };
    match (reference, got) {
        (None, Err(_)) => {
            let pre = grammar::longest_sentence_prefix(ws);
            let class = if pre > 0 {
                "rejected: sentence prefix + leftover/dangling"
            } else {
                "rejected: no sentence prefix"
            };
            Verdict::Pass { nt: pre > 0, class }
        }
        (None, Ok((_, tree))) => Verdict::Fail(format!(
            "input {text:?} is not a sentence of the grammar but parse returned Ok({:?})",
            from_ast(&tree)
        )),
        (Some(t), Err(e)) => Verdict::Fail(format!("input {text:?} is a sentence (tree {t:?}) but parse returned Err({e})")),
        (Some(t), Ok((opts, tree))) => {
            let got = from_ast(&tree);
            if contains_forbidden_node(&got) {
                return Verdict::Fail(format!("input {text:?}: returned tree contains a precedence/option node: {got:?}"));
            }
            if got != t {
                return Verdict::Fail(format!("input {text:?}: expected tree {t:?}, got {got:?}"));
            }
            if opts.depth || opts.threads.is_some() {
                return Verdict::Fail(format!("input {text:?}: options changed without an option word: {opts:?}"));
            }
            let mut lv = [false; 5];
            levels_used(&t, &mut lv);
            let has_paren = ws.iter().any(|w| matches!(w, W::LP));
            let nlev = lv[0] as u8 + lv[1] as u8 + lv[2] as u8;
            let nt = nlev >= 2 || lv[3] || has_paren;
            Verdict::Pass { nt, class: "accepted" }
        }
    }
}

fn words_json(ws: &[W]) -> Value {
    json!({"kind": "words", "text": words_text(ws), "words": ws.iter().map(word_text).collect::<Vec<_>>()})
}

fn word_from_text(s: &str) -> Option<W> {
    alphabet().into_iter().find(|w| word_text(w) == s)
}

pub fn replay(case: &Value) -> Result<Verdict, String> {
    if case["kind"] == "full-vocabulary" || case["kind"] == "tree" {
        return Ok(judge_full(&crate::term::decode_expr(case["tree"].as_str().ok_or("no tree")?)?));
    }
    if case["kind"] == "fuzz-input" {
        return crate::fuzzrun::replay(case);
    }
    if case["kind"] == "text" {
        let text = case["text"].as_str().ok_or("text")?;
        return Ok(match catch(|| parse(text)) {
            Ok(Err(_)) => Verdict::Pass { nt: true, class: "rejected" },
            Ok(Ok((_, t))) => Verdict::Fail(format!("{text:?} accepted as {:?}", from_ast(&t))),
            Err(p) => Verdict::Fail(format!("panic: {p}")),
        });
    }
    let words = case["words"].as_array().ok_or("no words")?;
    let ws: Vec<W> = words
        .iter()
        .map(|w| w.as_str().and_then(word_from_text).ok_or_else(|| format!("bad word {w}")))
        .collect::<Result<_, _>>()?;
    Ok(judge_words(&ws))
}

/// Words of a tree with minimal parentheses plus random redundant ones.
fn tree_words(e: &E, min: u8, extra: &mut dyn FnMut() -> bool, long_ops: &mut dyn FnMut() -> bool, implicit: &mut dyn FnMut() -> bool, out: &mut Vec<W>) {
    let lvl = match e {
        E::List(..) => 0,
        E::Or(..) => 1,
        E::And(..) => 2,
        _ => 3,
    };
    let paren = lvl < min || extra();
    if paren {
        out.push(W::LP);
    }
    match e {
        E::List(a, b) => {
            tree_words(a, 0, extra, long_ops, implicit, out);
            out.push(W::Comma);
            tree_words(b, 1, extra, long_ops, implicit, out);
        }
        E::Or(a, b) => {
            tree_words(a, 1, extra, long_ops, implicit, out);
            out.push(W::Or(long_ops()));
            tree_words(b, 2, extra, long_ops, implicit, out);
        }
        E::And(a, b) => {
            tree_words(a, 2, extra, long_ops, implicit, out);
            if !implicit() {
                out.push(W::And(long_ops()));
            }
            tree_words(b, 3, extra, long_ops, implicit, out);
        }
        E::Not(a) => {
            out.push(W::Not);
            tree_words(a, 3, extra, long_ops, implicit, out);
        }
        leaf => out.push(W::Prim(leaf.clone())),
    }
    if paren {
        out.push(W::RP);
    }
}

fn tree_to_words(e: &E, choices: &[u16]) -> Vec<W> {
    let i = std::cell::Cell::new(0usize);
    let next = || {
        let v = choices.get(i.get()).copied().unwrap_or(0);
        i.set(i.get() + 1);
        v
    };
    let mut out = vec![];
    tree_words(e, 0, &mut || pick(next(), 5) == 4, &mut || pick(next(), 2) == 1, &mut || pick(next(), 3) == 2, &mut out);
    out
}

#[derive(Debug, Clone, Hash)]
struct NearCase {
    tree: E,
    choices: Vec<u16>,
    /// edits: (kind 0=insert 1=delete 2=swap, position, word index)
    edits: Vec<(u8, u16, u16)>,
}

fn near_words(c: &NearCase) -> Vec<W> {
    let mut ws = tree_to_words(&c.tree, &c.choices);
    let al = alphabet();
    for (k, p, w) in &c.edits {
        match k {
            0 => {
                let pos = pick(*p, ws.len() + 1);
                ws.insert(pos, al[pick(*w, al.len())].clone());
            }
            1 => {
                if !ws.is_empty() {
                    let pos = pick(*p, ws.len());
                    ws.remove(pos);
                }
            }
            _ => {
                if ws.len() >= 2 {
                    let pos = pick(*p, ws.len() - 1);
                    ws.swap(pos, pos + 1);
                }
            }
        }
    }
    ws
}

pub fn run(ctx: &Ctx) -> Report {
    let mut total = Stats::new();
    let al = alphabet();
    let n = al.len();

    // (1) exhaustive enumeration of all word sequences up to length L
    let max_len = ctx.tier.pick(6usize, 7usize);
    let exhaustive = run_shards(n * n + 1, |shard| {
        let mut st = Stats::new();
        let al = alphabet();
        if shard == n * n {
            // lengths 1 and 2
            for a in 0..n {
                let ws = vec![al[a].clone()];
                let v = judge_words(&ws);
                st.record(&v, stable_hash(&ws), true, || words_json(&ws));
                for b in 0..n {
                    let ws = vec![al[a].clone(), al[b].clone()];
                    let v = judge_words(&ws);
                    st.record(&v, stable_hash(&ws), true, || words_json(&ws));
                }
            }
            return st;
        }
        let (a, b) = (shard / n, shard % n);
        for len in 3..=max_len {
            let rest = len - 2;
            let mut idx = vec![0usize; rest];
            loop {
                let mut ws = Vec::with_capacity(len);
                ws.push(al[a].clone());
                ws.push(al[b].clone());
                for &k in &idx {
                    ws.push(al[k].clone());
                }
                let v = judge_words(&ws);
                st.record(&v, stable_hash(&ws), true, || words_json(&ws));
                if st.failures.len() >= MAX_FAILURES {
                    return st;
                }
                // increment mixed-radix counter
                let mut p = rest;
                loop {
                    if p == 0 {
                        break;
                    }
                    p -= 1;
                    idx[p] += 1;
                    if idx[p] < n {
                        break;
                    }
                    idx[p] = 0;
                    if p == 0 {
                        p = usize::MAX;
                        break;
                    }
                }
                if p == usize::MAX {
                    break;
                }
            }
        }
        st
    });
    total.merge(exhaustive);
    total.exhaustive_parts.push(format!("all word sequences of length 1..={max_len} over the 11-word alphabet"));

    // (2) random near-sentences of length beyond the exhaustive bound, (3) random well-formed trees
    let cases = ctx.tier.pick(160_000u32, 1_600_000u32);
    let shards = 16usize;
    let random = run_shards(shards, |shard| {
        let mut st = Stats::new();
        poison_parses(40);
        let tree = crate::gen::expr_over(crate::gen::c01_leaf(), 8, 40, true);
        let near = (tree.clone(), proptest::collection::vec(any::<u16>(), 0..60), proptest::collection::vec((0u8..3, any::<u16>(), any::<u16>()), 0..3))
            .prop_map(|(tree, choices, edits)| NearCase { tree, choices, edits });
        run_prop(
            &mut st,
            ctx.seed,
            "C01-near",
            shard as u64,
            cases / shards as u32,
            &near,
            |c| {
                let ws = near_words(c);
                if ws.len() > 120 {
                    return Verdict::Skip("longer than 120 words");
                }
                match judge_words(&ws) {
                    Verdict::Pass { nt, class: "accepted" } => Verdict::Pass { nt, class: "random: accepted" },
                    Verdict::Pass { nt, .. } => Verdict::Pass { nt, class: "random: rejected" },
                    o => o,
                }
            },
            |c| words_json(&near_words(c)),
        );
        // round trip: parse(print(t)) == t, independent of the reference parser
        let rt = (tree, proptest::collection::vec(any::<u16>(), 0..60));
        run_prop(
            &mut st,
            ctx.seed,
            "C01-roundtrip",
            shard as u64,
            cases / shards as u32,
            &rt,
            |(t, choices)| {
                let ws = tree_to_words(t, choices);
                // self-check of the reference grammar against the printer
                if grammar::parse(&ws).as_ref() != Some(t) {
                    return Verdict::OracleBug(format!("reference parser disagrees with printer on {:?}", words_text(&ws)));
                }
                let text = words_text(&ws);
                match catch(|| parse(&text)) {
                    Err(p) => Verdict::Fail(format!("parse panicked on {text:?}: {p}")),
                    Ok(Err(e)) => Verdict::Fail(format!("printed tree {t:?} as {text:?}; parse returned Err({e})")),
                    Ok(Ok((_, x))) => {
                        let got = from_ast(&x);
                        if &got != t {
                            Verdict::Fail(format!("round trip of {text:?}: expected {t:?}, got {got:?}"))
                        } else {
                            Verdict::Pass { nt: t.n_operators() >= 2, class: "round trip" }
                        }
                    }
                }
            },
            |(t, choices)| words_json(&tree_to_words(t, choices)),
        );
        st
    });
    total.merge(random);

    // the grammar is the same whatever the primaries are: (a) every ordered pair of keywords (one
    // representative primary each, 60+ kinds) in arrangements where the pair is adjacent, after a
    // group, after an OR, before a ','; (b) random trees and interaction triples over the whole
    // vocabulary - printed canonically, parse must return exactly the tree
    let full_json = |t: &E| json!({"kind": "full-vocabulary", "tree": crate::term::encode_expr(t), "text": crate::render::canonical(t)});
    let kinds: Vec<E> = crate::checks::c05::leaf_per_keyword().into_iter().filter(|l| !matches!(l, E::G(_))).collect();
    let mut reps: Vec<E> = vec![];
    let mut seen_kw = std::collections::BTreeSet::new();
    for l in &kinds {
        if let Some(w) = crate::render::primary_words(l, &mut crate::render::Canon) {
            if seen_kw.insert(w[0].text.clone()) {
                reps.push(l.clone());
            }
        }
    }
    let pairs = run_shards(reps.len(), |i| {
        let mut st = Stats::new();
        let x = || E::T(Tst::Name("x".into()));
        for b in &reps {
            let a = reps[i].clone();
            for t in [
                E::and(E::and(x(), a.clone()), b.clone()),
                E::and(E::or(x(), a.clone()), b.clone()),
                E::or(x(), E::and(a.clone(), b.clone())),
                E::list(E::and(a.clone(), b.clone()), x()),
                E::or(E::or(x(), a.clone()), b.clone()),
                E::and(E::not(a.clone()), b.clone()),
            ] {
                let v = judge_full(&t);
                st.record(&v, stable_hash(&t), true, || full_json(&t));
            }
        }
        st.samples.truncate(1);
        st
    });
    total.merge(pairs);
    total.exhaustive_parts.push(format!("every ordered pair of the {} keywords (one representative primary each) in six arrangements", reps.len()));
    let mut kinds3 = crate::combo::all_kinds();
    kinds3.retain(|l| crate::render::canonical(l).is_some());
    let tr = crate::combo::run_triples(ctx.seed, &kinds3, ctx.tier.pick(48, 3), judge_full, full_json);
    total.merge(tr);
    let fullrnd = run_shards(16, |shard| {
        let mut st = Stats::new();
        let strat = crate::gen::related(crate::gen::expr_over(crate::gen::text_leaf(), 6, 24, true), true);
        run_prop(&mut st, ctx.seed, "C01-full", shard as u64, ctx.tier.pick(100_000u32, 1_000_000u32) / 16, &strat, judge_full, |t| full_json(t));
        st
    });
    total.merge(fullrnd);

    // nesting up to the bound of 64 and long operator chains (counters, recursion limits);
    // run on a thread with a large stack: the trees are up to 2500 levels deep
    let st = std::thread::scope(|sc| std::thread::Builder::new().stack_size(1 << 30).spawn_scoped(sc, || {
    let mut st = Stats::new();
    let t = || W::Prim(E::T(Tst::True));
    for n in 1..=64usize {
        let mut ws = vec![W::LP; n];
        ws.push(t());
        ws.extend(vec![W::RP; n]);
        let v = judge_words(&ws);
        st.record(&v, stable_hash(&ws), true, || json!({"kind": "words", "text": format!("( x{n} -true ) x{n}"), "words": ws.iter().map(word_text).collect::<Vec<_>>()}));
        let mut ws = vec![W::Not; n];
        ws.push(t());
        let v = judge_words(&ws);
        st.record(&v, stable_hash(&ws), true, || words_json(&ws));
        // mixed: ( ! ( ! ... -true ) )
        let mut ws = vec![];
        for i in 0..n {
            ws.push(if i % 2 == 0 { W::LP } else { W::Not });
        }
        ws.push(t());
        ws.extend(vec![W::RP; (n + 1) / 2]);
        let v = judge_words(&ws);
        st.record(&v, stable_hash(&ws), true, || words_json(&ws));
    }
    for n in [10usize, 100, 127, 128, 129, 255, 256, 257, 400, 1000, 2047, 2048, 2049, 2500, 4096, 4097, 5000] {
        for op in [Some(W::And(false)), Some(W::And(true)), None, Some(W::Or(false)), Some(W::Or(true)), Some(W::Comma)] {
            let mut ws = vec![t()];
            for i in 0..n {
                if let Some(o) = &op {
                    ws.push(o.clone());
                }
                ws.push(if i % 3 == 0 { W::Prim(E::A(Act::Print)) } else { t() });
            }
            let v = judge_words(&ws);
            st.record(&v, stable_hash(&ws), true, || json!({"kind": "words", "text": format!("chain of {n} operands"), "words": ws.iter().map(word_text).collect::<Vec<_>>()}));
        }
    }
    // a parenthesised group after n flat terms, and n groups side by side
    for n in [10usize, 127, 128, 129, 130, 255, 256, 257, 300, 1000] {
        for op in [Some(W::Or(false)), Some(W::And(false)), None, Some(W::Comma)] {
            let mut ws = vec![t()];
            for _ in 1..n {
                if let Some(o) = &op {
                    ws.push(o.clone());
                }
                ws.push(t());
            }
            if let Some(o) = &op {
                ws.push(o.clone());
            }
            ws.extend([W::LP, W::Prim(E::A(Act::Print)), W::RP]);
            let v = judge_words(&ws);
            st.record(&v, stable_hash(&ws), true, || json!({"kind": "words", "text": format!("{n} terms then a group"), "words": ws.iter().map(word_text).collect::<Vec<_>>()}));
            let mut ws = vec![];
            for i in 0..n {
                if i > 0 {
                    if let Some(o) = &op {
                        ws.push(o.clone());
                    }
                }
                ws.extend([W::LP, t(), W::RP]);
            }
            let v = judge_words(&ws);
            st.record(&v, stable_hash(&ws), true, || json!({"kind": "words", "text": format!("{n} groups side by side"), "words": ws.iter().map(word_text).collect::<Vec<_>>()}));
        }
    }
    st
    }).unwrap().join().unwrap());
    total.merge(st);
    total.exhaustive_parts.push("parenthesis / negation nesting of every depth 1..=64; operator chains of 10..2500 operands for every operator spelling".into());
    // operator words are recognised only when a blank or the end of the input follows: glued to the
    // next word or to punctuation they form a word that is no sentence word at all -> rejected
    let mut st = Stats::new();
    for op in ["-a", "-and", "-o", "-or"] {
        for tail in ["( -true )", "(-true)", "!-true", "! -true", ", -true", "-true", ")"] {
            for head in ["-true", "-name x", "( -true )", "! -print"] {
                let text = format!("{head} {op}{tail}");
                let v = match catch(|| parse(&text)) {
                    Err(p) => Verdict::Fail(format!("parse panicked on {text:?}: {p}")),
                    Ok(Ok((_, t))) => Verdict::Fail(format!("{text:?}: the operator word is not followed by a blank, so this is not a sentence, but it was accepted as {:?}", from_ast(&t))),
                    Ok(Err(_)) => Verdict::Pass { nt: true, class: "rejected: operator word glued to what follows" },
                };
                st.record(&v, stable_hash(&text), true, || json!({"kind": "text", "text": text}));
            }
        }
    }
    total.merge(st);
    // 48 threads parsing 400-deep groups at the same moment (large stacks): the verdict on one thread
    // must not depend on what other threads are parsing (budgets or flags shared between threads)
    let mut st = Stats::new();
    {
        let nthreads = 48usize;
        let rounds = ctx.tier.pick(60usize, 600usize);
        let barrier = std::sync::Arc::new(std::sync::Barrier::new(nthreads));
        let mut handles = vec![];
        for k in 0..nthreads {
            let barrier = barrier.clone();
            let h = std::thread::Builder::new().stack_size(256 << 20).spawn(move || {
                let depth = 400 - (k % 3);
                let mut ws = vec![];
                for i in 0..depth {
                    ws.push(if k % 2 == 0 || i % 2 == 0 { W::LP } else { W::Not });
                }
                ws.push(W::Prim(E::T(Tst::Name("x".into()))));
                let opened = ws.iter().filter(|w| matches!(w, W::LP)).count();
                ws.extend(vec![W::RP; opened]);
                ws.extend([W::Or(false), W::Prim(E::A(Act::Print))]);
                barrier.wait();
                let mut bad = None;
                for r in 0..rounds {
                    if let Verdict::Fail(m) = judge_words(&ws) {
                        bad = Some(format!("thread {k} of {nthreads}, round {r} (all threads parse {depth}-deep groups at once; alone the same text parses correctly): {m}"));
                        break;
                    }
                }
                (ws, bad)
            });
            match h {
                Ok(h) => handles.push(h),
                Err(e) => st.oracle_bugs.push(format!("cannot start a parser thread: {e}")),
            }
        }
        for (k, h) in handles.into_iter().enumerate() {
            match h.join() {
                Ok((ws, bad)) => {
                    // alone, afterwards, as the control
                    let alone = judge_words(&ws);
                    let v = match (bad, alone) {
                        (_, Verdict::Fail(m)) => Verdict::Fail(m),
                        (Some(m), _) => Verdict::Fail(m),
                        (None, _) => Verdict::Pass { nt: true, class: "400-deep groups parsed by 48 threads at once" },
                    };
                    st.record(&v, stable_hash(&(k, "concurrent-nesting")), true, || json!({"kind": "words", "text": format!("thread {k}: nested groups parsed concurrently"), "words": ws.iter().map(word_text).collect::<Vec<_>>()}));
                }
                Err(_) => st.oracle_bugs.push(format!("parser thread {k} died")),
            }
        }
    }
    total.merge(st);
    // coverage-guided part: replay of the committed corpus (quick), libFuzzer campaign (thorough)
    crate::fuzzrun::replay_corpus("grammar", &mut total);
    if ctx.tier == Tier::Thorough && ctx.part.is_none() {
        crate::fuzzrun::campaign("grammar", ctx.seed, 400_000, 8, 64, &mut total);
    }
    Report {
        stats: total,
        rule: format!(
            "exhaustive: every word sequence of length 1..={max_len} over {{( ) ! , -a -and -o -or -true '-name x' -print}} rendered with single blanks; random: trees of depth<=8 printed with minimal+redundant parentheses and 0-2 word edits (insert/delete/swap), and round trips parse(print(t))==t; the same round trip over the whole vocabulary (every ordered pair of keywords in six arrangements, interaction triples, random trees with related strings). Oracle: hand-written recursive-descent reference grammar (left folds, ! > AND > OR > ','). Non-trivial: accepted sequence using >=2 binary operator levels or '!' or parentheses; or rejected sequence whose longest sentence prefix is non-empty (no prefix may be returned). Distinct: by word sequence."
        ),
        assumptions: vec![
            "the three primaries -true, '-name x', -print stand for all primaries (C05 covers the vocabulary)".into(),
            "the empty sequence is left to C06 (blank input means -true)".into(),
        ],
        exhaustive: false,
    }
}
