//! C02 — the compiled policy means what the expression means
//! (translation validation by differential execution).

use crate::files::{self, FileRec, PLACEHOLDER_NOW};
use crate::gen;
use crate::policy::{self, CompileOutcome};
use crate::render;
use crate::speceval;
use crate::term;
use crate::tree::*;
use crate::util::*;
use lipe_find_parser::parse;
use proptest::prelude::*;
use serde_json::{json, Value};

#[derive(Debug, Clone, Hash)]
pub struct Case {
    pub tree: E,
    /// random records, generated against PLACEHOLDER_NOW (ages are what matters)
    pub files: Vec<FileRec>,
    pub threads: Option<u32>,
    pub via_text: bool,
}

fn has_const_test(e: &E) -> bool {
    e.leaves().iter().any(|l| matches!(l, E::T(t) if !matches!(t, Tst::True | Tst::False)))
}

pub fn judge(c: &Case) -> Verdict {
    judge_with(c, true).0
}

/// Returns the verdict and the number of (file, policy) executions compared.
pub fn judge_with(c: &Case, directed: bool) -> (Verdict, u64) {
    let mut tree = c.tree.clone();
    let mut class = "tree built from the public constructors";
    if c.via_text {
        if let Some(text) = render::canonical(&tree) {
            if let Ok(Ok((_, x))) = catch(|| parse(&text)) {
                tree = from_ast(&x);
                class = "tree obtained by parsing its rendered text";
            }
        }
    }
    let comp = match policy::compile_tree(&tree, c.threads, "/dev/mdt0") {
        CompileOutcome::Ok(c) => c,
        CompileOutcome::Panic(p) => return (Verdict::Fail(format!("compile/render panicked: {p}")), 0),
        CompileOutcome::Err(_) => return (Verdict::Skip("does not compile (C12 decides that)"), 0),
    };
    let now = comp.now;
    let mut fileset: Vec<FileRec> = if directed { files::directed(&tree, now) } else { vec![] };
    fileset.extend(c.files.iter().map(|f| files::rebase(f, PLACEHOLDER_NOW, now)));
    let run = match policy::run_policy(&comp, fileset.clone()) {
        Ok(r) => r,
        Err(e) => return (Verdict::Fail(format!("{e}\nprogram:\n{}", comp.text)), 0),
    };
    if let Some(e) = &run.error {
        return (Verdict::Fail(format!("policy failed at run time outside the per-file callback: {e}\nprogram:\n{}", comp.text)), 0);
    }
    if run.world.runs.len() != fileset.len() {
        return (Verdict::Fail(format!("scan visited {} of {} files\nprogram:\n{}", run.world.runs.len(), fileset.len(), comp.text)), 0);
    }
    let mut truths = [false, false];
    let mut outsets = std::collections::HashSet::new();
    let mut compared = 0u64;
    for (i, f) in fileset.iter().enumerate() {
        let mut obs = policy::observe(&run, &comp, i);
        // framing of runtime-direct printers is decided by C10/C16, not here
        obs.stream_errors.retain(|s| !s.contains("outside any frame"));
        match policy::spec_eval_matching(&tree, f, now, &obs) {
            Err(_undefined) => continue,
            Ok(Ok(())) => {
                compared += 1;
                truths[obs.truthy as usize] = true;
                outsets.insert(stable_hash(&obs.outs.iter().map(|o| (&o.bytes, o.term)).collect::<Vec<_>>()));
            }
            Ok(Err(diff)) => {
                let exp = speceval::eval(&tree, f, now, speceval::Opts { h_abs: false });
                return (
                    Verdict::Fail(format!(
                        "expression {tree:?}\n on file {}\n {diff}\n expected by find's rules: {exp:?}\n observed: {obs:?}\n now={now}\nprogram:\n{}",
                        f.summary(),
                        comp.text
                    )),
                    compared,
                );
            }
        }
    }
    let nt = tree.n_operators() >= 1 && has_const_test(&tree) && ((truths[0] && truths[1]) || outsets.len() >= 2);
    (Verdict::Pass { nt, class }, compared)
}

pub fn case_json(c: &Case) -> Value {
    json!({"kind": "policy", "tree": term::encode_expr(&c.tree), "text": render::canonical(&c.tree), "threads": c.threads, "via_text": c.via_text,
           "files": c.files.iter().map(files::file_to_json).collect::<Vec<_>>()})
}

pub fn case_from_json(v: &Value) -> Result<Case, String> {
    Ok(Case {
        tree: term::decode_expr(v["tree"].as_str().ok_or("no tree")?)?,
        files: v["files"].as_array().ok_or("no files")?.iter().map(files::file_from_json).collect::<Result<_, _>>()?,
        threads: v["threads"].as_u64().map(|t| t as u32),
        via_text: v["via_text"].as_bool().unwrap_or(false),
    })
}

pub fn replay(case: &Value) -> Result<Verdict, String> {
    if case["kind"] == "fuzz-input" {
        return crate::fuzzrun::replay(case);
    }
    Ok(judge(&case_from_json(case)?))
}

/// leaves drawn from a tiny pool of names so that case twins and literal/pattern pairs meet in one tree
fn twin_leaf() -> BoxedStrategy<E> {
    let n = || prop::sample::select(vec!["a", "A", "foo", "Foo", "FOO", "foo*", "FOO*", "*.c", "*.C", "makefile", "Makefile", "x/y", "X/Y"]).prop_map(|s| s.to_string());
    prop_oneof![
        3 => n().prop_map(|p| E::T(Tst::Name(p))),
        3 => n().prop_map(|p| E::T(Tst::IName(p))),
        2 => n().prop_map(|p| E::T(Tst::Path(p))),
        2 => n().prop_map(|p| E::T(Tst::IPath(p))),
        1 => gen::supported_action().prop_map(E::A),
        1 => gen::supported_test().prop_map(E::T),
    ]
    .boxed()
}

pub fn strategy(max_depth: u32, max_size: u32) -> BoxedStrategy<Case> {
    (
        prop_oneof![
            10 => gen::related(gen::expr_over(gen::supported_leaf(), max_depth, max_size, true), false),
            2 => gen::related(gen::expr_over(twin_leaf(), max_depth, max_size, true), false),
            // values only a hand-built tree can carry, and explicit precedence nodes around sub-trees
            1 => gen::expr_over(prop_oneof![3 => gen::supported_leaf(), 1 => gen::handbuilt_only_test().prop_map(E::T)].boxed(), max_depth, max_size, true),
        ],
        proptest::collection::vec(files::random_file(PLACEHOLDER_NOW), 3..9),
        prop_oneof![3 => Just(None), 1 => gen::count_u32().prop_map(Some)],
        prop::bool::weighted(0.2),
    )
        .prop_map(|(tree, files, threads, via_text)| Case { tree, files, threads, via_text })
        .boxed()
}

pub fn run(ctx: &Ctx) -> Report {
    let cases = ctx.tier.pick(48_000u32, 600_000u32);
    let (depth, size) = ctx.tier.pick((4, 14), (6, 30));
    let shards = 32;
    let executions = std::sync::atomic::AtomicU64::new(0);
    let mut total = run_shards(shards, |shard| {
        let mut st = Stats::new();
        run_prop(
            &mut st,
            ctx.seed,
            "C02",
            shard as u64,
            cases / shards as u32,
            &strategy(depth, size),
            |c| {
                let (v, n) = judge_with(c, true);
                executions.fetch_add(n, std::sync::atomic::Ordering::Relaxed);
                v
            },
            case_json,
        );
        st
    });
    // every supported leaf alone and under each operator shape, on its directed file set
    let mut st = Stats::new();
    for leaf in crate::checks::c05::leaf_per_keyword() {
        if !matches!(leaf, E::T(Tst::U(_)) | E::A(Act::Ls) | E::A(Act::Prune) | E::A(Act::Fls(_)) | E::G(_)) {
            for shape in 0..4 {
                let tree = match shape {
                    0 => leaf.clone(),
                    1 => E::not(leaf.clone()),
                    2 => E::and(leaf.clone(), E::A(Act::Print)),
                    _ => E::or(leaf.clone(), E::A(Act::FPrint("a".into()))),
                };
                let c = Case { tree, files: vec![], threads: None, via_text: false };
                let (v, n) = judge_with(&c, true);
                executions.fetch_add(n, std::sync::atomic::Ordering::Relaxed);
                st.record(&v, stable_hash(&c), true, || case_json(&c));
            }
        }
    }
    // every kind of leaf after every kind of other leaf (and after a formatted print with each directive)
    let cp = crate::combo::run_pairs(
        ctx.seed,
        &crate::combo::context_leaves(),
        &crate::combo::supported_kinds(),
        ctx.tier.pick(2, 1),
        |t| {
            let c = Case { tree: t.clone(), files: vec![], threads: None, via_text: stable_hash(t) % 5 == 0 };
            let (v, n) = judge_with(&c, true);
            executions.fetch_add(n, std::sync::atomic::Ordering::Relaxed);
            v
        },
        |t| case_json(&Case { tree: t.clone(), files: vec![], threads: None, via_text: stable_hash(t) % 5 == 0 }),
    );
    total.merge(cp);
    // two primaries of one kind with different constants as siblings under every operator
    let sib = crate::combo::sibling_pairs();
    let sb = run_shards(16, |shard| {
        let mut st = Stats::new();
        for (i, t) in sib.iter().enumerate().filter(|(i, _)| i % 16 == shard) {
            let c = Case { tree: t.clone(), files: vec![], threads: None, via_text: i % 3 == 0 };
            let (v, n) = judge_with(&c, true);
            executions.fetch_add(n, std::sync::atomic::Ordering::Relaxed);
            st.record(&v, stable_hash(t), true, || case_json(&c));
        }
        st.samples.truncate(1);
        st
    });
    total.merge(sb);
    // ages and sizes whose count is a multiple of a larger unit (60 s, 24 h, 1440 min, 1024 k): a
    // conversion to the larger unit rounds differently
    let mut stu = Stats::new();
    for w in [Which::A, Which::C, Which::M] {
        for c in [Cmp::Gt, Cmp::Lt, Cmp::Eq] {
            for (n, u) in [(60u64, TUnit::S), (120, TUnit::S), (3600, TUnit::S), (86400, TUnit::S), (60, TUnit::M), (120, TUnit::M), (1440, TUnit::M), (2880, TUnit::M), (10080, TUnit::M), (24, TUnit::H), (48, TUnit::H), (168, TUnit::H), (7, TUnit::D), (1, TUnit::D), (1, TUnit::H), (1, TUnit::M)] {
                let t = E::T(Tst::Time(w, c, n, u));
                let cs = Case { tree: t, files: vec![], threads: None, via_text: false };
                let (v, k) = judge_with(&cs, true);
                executions.fetch_add(k, std::sync::atomic::Ordering::Relaxed);
                stu.record(&v, stable_hash(&cs), true, || case_json(&cs));
            }
        }
    }
    for c in [Cmp::Gt, Cmp::Lt, Cmp::Eq] {
        for (n, u) in [(1024u64, SUnit::C), (2048, SUnit::C), (512, SUnit::C), (2, SUnit::B), (2, SUnit::W), (1024, SUnit::K), (2048, SUnit::K), (1024, SUnit::M), (1024, SUnit::G), (2048, SUnit::B), (1048576, SUnit::C)] {
            let t = E::T(Tst::Size(c, n, u));
            let cs = Case { tree: t, files: vec![], threads: None, via_text: false };
            let (v, k) = judge_with(&cs, true);
            executions.fetch_add(k, std::sync::atomic::Ordering::Relaxed);
            stu.record(&v, stable_hash(&cs), true, || case_json(&cs));
        }
    }
    stu.samples.truncate(1);
    total.merge(stu);
    // requests that a registry keyed by a concatenation of their parts would take for one
    let twins = crate::combo::concat_twin_trees();
    let tw = run_shards(16, |shard| {
        let mut st = Stats::new();
        for (i, t) in twins.iter().enumerate().filter(|(i, _)| i % 16 == shard) {
            let v = { let c = Case { tree: t.clone(), files: vec![], threads: None, via_text: false }; let (v, n) = judge_with(&c, true); executions.fetch_add(n, std::sync::atomic::Ordering::Relaxed); v };
            st.record(&v, stable_hash(t), true, || case_json(&Case { tree: t.clone(), files: vec![], threads: None, via_text: false }));
        }
        st.samples.truncate(1);
        st
    });
    total.merge(tw);
    // interaction triples: three leaf kinds under every operator skeleton, each on its directed file set
    let tr = crate::combo::run_triples(
        ctx.seed,
        &crate::combo::supported_kinds(),
        ctx.tier.pick(48, 2),
        |t| {
            let c = Case { tree: t.clone(), files: vec![], threads: None, via_text: stable_hash(t) % 5 == 0 };
            let (v, n) = judge_with(&c, true);
            executions.fetch_add(n, std::sync::atomic::Ordering::Relaxed);
            v
        },
        |t| case_json(&Case { tree: t.clone(), files: vec![], threads: None, via_text: stable_hash(t) % 5 == 0 }),
    );
    total.merge(tr);
    let mut st2 = Stats::new();
    // every supported directive and escape of the format language on its own, on files of every
    // type with odd/even block counts (rounding of %k), zero and large values
    let mut fileset: Vec<FileRec> = vec![];
    for (i, ft) in FT::ALL.iter().enumerate() {
        let mut f = FileRec::base(PLACEHOLDER_NOW);
        f.mode = ft.bits() | [0o644, 0o7777, 0, 0o4755, 0o1000, 0o600, 0o111][i];
        f.blocks = [0, 1, 2, 3, 7, 8, 1 << 40][i];
        f.size = [1, 511, 512, 513, 4096, 1 << 33, u64::MAX][i];
        f.uid = [0, 1, 1000, 65534, u32::MAX, 7, 42][i];
        f.gid = [1, 0, 100, u32::MAX, 65534, 9, 43][i];
        f.nlink = [1, 2, 3, 0, 1000, u64::MAX, 5][i];
        f.ino = [1, 2, 3, 4, u64::MAX, 6, 7][i];
        f.projid = i as u32 * 1000;
        f.stripe_count = i as u32;
        f.mirror_count = (7 - i) as u32;
        f.stripe_size = 65536 << i;
        f.rel_path = ["a", "dir/b", "x/y/z.c", "UPPER", "d.1/d.2/f", "top", "a b/c d"][i].to_string();
        f.xattrs = if i % 2 == 0 { vec![("tag".into(), format!("v{i}")), ("user".into(), "root".into())] } else { vec![] };
        fileset.push(f);
    }
    let mut elements: Vec<FEl> = gen::supported_fields().into_iter().map(FEl::F).collect();
    for e in [Esc::Alarm, Esc::Backspace, Esc::Clear, Esc::Form, Esc::Newline, Esc::CarriageReturn, Esc::Tab, Esc::VTab, Esc::Null, Esc::Backslash] {
        elements.push(FEl::E(e));
    }
    for v in 1u16..128 {
        if v != 0x1e {
            elements.push(FEl::E(Esc::Ascii(v)));
        }
    }
    for el in &elements {
        for fmt in [vec![el.clone()], vec![el.clone(), FEl::E(Esc::Newline)], vec![FEl::Lit("<".into()), el.clone(), FEl::Lit(">".into()), FEl::F(Fld::NameNoStart), FEl::E(Esc::Newline)]] {
            for act in [Act::Printf(fmt.clone()), Act::FPrintf("out".into(), fmt.clone())] {
                let c = Case { tree: E::A(act), files: fileset.clone(), threads: None, via_text: false };
                let (v, n) = judge_with(&c, false);
                executions.fetch_add(n, std::sync::atomic::Ordering::Relaxed);
                st2.record(&v, stable_hash(&c), true, || case_json(&c));
            }
        }
    }
    // many distinct matchers before the printers: identifiers and frame tags beyond 255
    for n in [126usize, 127, 128, 130] {
        for tail in [vec![Act::FPrint("first.out".into()), Act::FPrint0("second.out".into())], vec![Act::Print0], vec![Act::Print, Act::Printf(vec![FEl::F(Fld::Basename), FEl::E(Esc::Newline)])]] {
            let mut e = E::T(Tst::Name("m0".into()));
            for i in 1..n {
                e = E::or(e, E::T(Tst::Name(format!("m{i}"))));
            }
            for a in tail {
                e = E::and(e, E::A(a));
            }
            let mut f = FileRec::base(PLACEHOLDER_NOW);
            f.rel_path = "dir/m7".into();
            let c = Case { tree: e, files: vec![f], threads: None, via_text: false };
            let (v, k) = judge_with(&c, false);
            executions.fetch_add(k, std::sync::atomic::Ordering::Relaxed);
            st2.record(&v, stable_hash(&c), true, || json!({"kind": "many-matchers", "matchers": n}));
        }
    }
    total.merge(st2);
    for smp in total.samples.iter_mut() {
        if let Some(n) = smp.get("files").and_then(|f| f.as_array()).map(|a| a.len()) {
            smp["files"] = json!(format!("{n} random records (+ the directed set)"));
        }
    }
    // self-checks of the trusted base (failures are infrastructure errors, exit 2)
    crate::selftest::fnmatch_vs_libc(ctx.seed, 30_000, &mut total);
    crate::selftest::snapshots_read_and_run(&mut total);
    crate::fuzzrun::replay_corpus("policy", &mut total);
    if ctx.tier == Tier::Thorough {
        crate::fuzzrun::campaign("policy", ctx.seed, 60_000, 8, 400, &mut total);
    }
    total.extra.insert("policy_executions_compared".into(), json!(executions.load(std::sync::atomic::Ordering::Relaxed)));
    total.extra.insert("programs".into(), json!(total.evaluations));
    Report {
        stats: total,
        rule: format!("random trees (depth<={depth}, <={size} nodes) over every supported test and action built from the public constructors (20% re-obtained by parsing their rendered text), arguments from boundary-rich domains; each compiled program is read by an independent Scheme reader and executed by a model of the Guile/LiPE runtime on a file set directed at every constant of the tree (value-1/value/value+1 per unit, each permission/type bit, matching/near-miss names, present/absent pools and xattrs) plus 3-8 random records. Oracle: evaluation of the tree by find's rules (short-circuit, ',' as AND, implicit print, N/+N/-N, round-up sizes, floor ages, fnmatch) -> truth value, ordered outputs (destination, bytes, terminator), stop request, no run-time failure. Directed parts, each on the directed file set of its tree: interaction triples (three leaf kinds x 18 operator skeletons), context pairs (every kind of leaf after every kind of context leaf, among them a formatted print with each directive), sibling pairs (two primaries of one kind with different constants under every operator), requests that a concatenated key would confuse, ages and sizes whose count is a multiple of a larger unit, every keyword alone and under each operator shape, every directive and escape of the format language; a fifth of the random trees have the strings of two leaves related (equal, prefix, suffix, other case); equal subtrees are compiled as shared nodes in half of the trees that have any. Non-trivial: tree has >=1 operator and >=1 test with a constant and both truth values (or >=2 distinct output lists) were observed over its file set. Distinct: by (tree, random files)."),
        assumptions: runtime_assumptions(),
        exhaustive: false,
    }
}

pub fn runtime_assumptions() -> Vec<String> {
    vec![
        "runtime model: (make-printer port mutex term) returns a procedure that writes its argument then term to port under mutex".into(),
        "runtime-direct printers (print-relative-path, print-file-fid) write one complete newline-terminated record to stdout".into(),
        "display/with-mutex/lipe-scan-break return a truthy value; outputs of the same file after lipe-scan-break are not compared".into(),
        "round-up-power-of-2 x y rounds x up to a multiple of y; quotient truncates; files are not newer than now".into(),
        "format is the full (ice-9 format); unknown directives and argument-count mismatches raise".into(),
        "time/user/group/sparseness rendering is opaque: the check decides which field and selector is printed, not libc's text; plain %a/%c/%t print the epoch second as the snapshot test pins for %A@".into(),
        "name patterns contain no backslash; %S only on files of non-zero size; octal escapes below 128".into(),
        "the Scheme reader/evaluator and LiPE runtime model in the harness are a trusted base (no Guile in the sandbox)".into(),
    ]
}
