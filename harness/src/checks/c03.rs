//! C03 — totality: every input gets an answer, never a crash or hang
//! (both build profiles; inputs run in child processes so that aborts are contained).

use crate::corpus;
use crate::util::*;
use lipe_find_parser::{compile, parse};
use serde_json::{json, Value};
use std::collections::HashSet;
use std::io::Write;

pub const HOSTILE_DEVICE: &str = "a\"b\\c\n(日) ;#|";

/// CPU time one input (at most 4 KiB) may use before it is reported as a failure to terminate.
/// Inputs of the corpus take microseconds to a few milliseconds (the slowest, in the dev build,
/// stays below 0.2 s: `max_input_cpu_s` in the evidence); the limit is CPU time of the process,
/// not wall-clock time, so a busy machine does not trip it.
pub const CPU_LIMIT_SECS: f64 = 20.0;

/// the input being exercised right now (read by the worker's monitor thread)
static CURRENT: std::sync::Mutex<(u64, String)> = std::sync::Mutex::new((0, String::new()));

fn note_current(input: &str) {
    if let Ok(mut c) = CURRENT.lock() {
        c.0 += 1;
        c.1.clear();
        c.1.push_str(input);
    }
}

/// Watches the calling process: when one input has used more than the CPU limit, writes it to
/// `hang_file` and ends the process with status 3.
pub fn spawn_monitor(hang_file: String) {
    std::thread::spawn(move || {
        let mut last = 0u64;
        let mut cpu0 = process_cpu_secs().unwrap_or(0.0);
        loop {
            std::thread::sleep(std::time::Duration::from_millis(200));
            let Some(cpu) = process_cpu_secs() else { return };
            let (n, text) = match CURRENT.lock() {
                Ok(c) => (c.0, c.1.clone()),
                Err(_) => return,
            };
            if n != last {
                last = n;
                cpu0 = cpu;
            } else if cpu - cpu0 > CPU_LIMIT_SECS {
                let _ = std::fs::write(&hang_file, text);
                std::process::exit(3);
            }
        }
    });
}

/// One input in a process of its own (used to confirm a hang or a crash): exit status 0 answered,
/// 1 panicked, 3 no answer within the CPU limit.
pub fn one(input: &str, hang_file: &str) -> i32 {
    spawn_monitor(hang_file.to_string());
    match exercise(input) {
        Ok(_) => 0,
        Err(_) => 1,
    }
}

/// Run every stage on `input`. Ok(class) or Err(what crashed).
pub fn exercise(input: &str) -> Result<(&'static str, bool), String> {
    note_current(input);
    let r = catch(|| parse(input)).map_err(|p| format!("parse panicked: {p}"))?;
    match r {
        Err(e) => {
            let msg = catch(|| e.to_string()).map_err(|p| format!("rendering the parse error panicked: {p}"))?;
            catch(|| format!("{e:?}")).map_err(|p| format!("Debug of the parse error panicked: {p}"))?;
            let names_keyword = msg.contains("of test `-") || msg.contains("of action `-") || msg.contains("of global option `-");
            Ok(("parse error", names_keyword))
        }
        Ok((o, t)) => {
            catch(|| format!("{o:?} {t:?}")).map_err(|p| format!("Debug of the parse result panicked: {p}"))?;
            match catch(|| compile(&t, &o)).map_err(|p| format!("compile panicked: {p}"))? {
                Err(e) => {
                    catch(|| format!("{e} {e:?}")).map_err(|p| format!("rendering the compile error panicked: {p}"))?;
                    Ok(("compile error", true))
                }
                Ok(c) => {
                    catch(|| c.scheme("/")).map_err(|p| format!("scheme(\"/\") panicked: {p}"))?;
                    catch(|| c.scheme(HOSTILE_DEVICE)).map_err(|p| format!("scheme(hostile) panicked: {p}"))?;
                    // further renderings of the same compiled expression, after a hostile one
                    for p in ["/mnt/\"é", "x", "", "日\\\"本", "/"] {
                        catch(|| c.scheme(p)).map_err(|e| format!("scheme({p:?}) after earlier renderings panicked: {e}"))?;
                    }
                    catch(|| c.io_map()).map_err(|p| format!("io_map() panicked: {p}"))?;
                    Ok(("program", true))
                }
            }
        }
    }
}

pub fn judge(input: &str) -> Verdict {
    if !corpus::within_bounds(input) {
        return Verdict::Skip("outside the stated size/nesting bounds");
    }
    match exercise(input) {
        Ok((class, nt)) => Verdict::Pass { nt, class },
        Err(e) => Verdict::Fail(format!("input {:?}: {e}", truncate(input, 300))),
    }
}

/// A history of calls on one thread: every call must be answered whatever the earlier ones
/// were (rejected by the lexer, rejected by the grammar, accepted with a warning, ...).
/// Runs on a thread of its own so that the verdict is a function of the history alone.
pub fn run_history(inputs: &[String]) -> Result<(), String> {
    let inputs: Vec<String> = inputs.to_vec();
    std::thread::Builder::new()
        .stack_size(64 << 20)
        .spawn(move || {
            for (k, t) in inputs.iter().enumerate() {
                if !corpus::within_bounds(t) {
                    continue;
                }
                if let Err(e) = exercise(t) {
                    return Err(format!("call {} of {} on one thread, input {:?}: {e}", k + 1, inputs.len(), truncate(t, 200)));
                }
            }
            Ok(())
        })
        .map_err(|e| format!("thread: {e}"))
        .and_then(|h| h.join().unwrap_or_else(|_| Err("the history thread itself panicked".into())))
}

/// Drop calls from a failing history while it still fails (greedy, one at a time).
pub fn minimise_history(mut h: Vec<String>) -> Vec<String> {
    let mut i = 0;
    while i < h.len() && h.len() > 1 {
        let mut shorter = h.clone();
        shorter.remove(i);
        if run_history(&shorter).is_err() {
            h = shorter;
        } else {
            i += 1;
        }
    }
    h
}

const RECENT: usize = 160;

fn remember(recent: &mut std::collections::VecDeque<String>, t: &str) {
    if recent.len() == RECENT {
        recent.pop_front();
    }
    recent.push_back(t.to_string());
}

/// `t` (the newest entry of `recent`) failed with `e` on the worker's thread. Find out whether it
/// fails on its own on a fresh thread; if not, which of the earlier calls it needs.
fn explain_failure(recent: &std::collections::VecDeque<String>, t: &str, e: String, minimise: bool) -> (Value, String) {
    if let Err(alone) = run_history(&[t.to_string()]) {
        return (case_json(t), format!("input {:?}: {}", truncate(t, 300), alone.split_once(": ").map(|x| x.1.to_string()).unwrap_or(alone.clone())));
    }
    let full: Vec<String> = recent.iter().cloned().collect();
    if run_history(&full).is_err() {
        let mut h = full;
        if minimise {
            // shortest failing suffix first, then single removals
            let mut lo = 1usize; // smallest suffix length known... found by doubling
            while lo < h.len() && run_history(&h[h.len() - lo..]).is_ok() {
                lo *= 2;
            }
            let lo = lo.min(h.len());
            h = h[h.len() - lo..].to_vec();
            h = minimise_history(h);
        }
        let msg = run_history(&h).err().unwrap_or(e);
        return (json!({"kind": "history", "inputs": h}), format!("history of calls on one thread: {msg}"));
    }
    (json!({"kind": "history", "inputs": full}), format!("history of calls on one thread (the last {} calls do not reproduce it on a fresh thread; the state came from earlier ones): {e}", RECENT))
}

/// The poison inputs in an order that depends on (seed, index), then `last`.
fn history_for(seed: u64, i: usize, pool: &[String], last: &str) -> Vec<String> {
    let mut h: Vec<String> = POISON_INPUTS.iter().map(|s| s.to_string()).collect();
    let mut x = stable_hash(&(seed, i as u64));
    // a few texts of this worker's own slice take part too
    for _ in 0..4 {
        x = x.wrapping_mul(6364136223846793005).wrapping_add(1442695040888963407);
        if !pool.is_empty() {
            h.push(pool[(x >> 33) as usize % pool.len()].clone());
        }
    }
    for k in (1..h.len()).rev() {
        x = x.wrapping_mul(6364136223846793005).wrapping_add(1442695040888963407);
        h.swap(k, (x >> 33) as usize % (k + 1));
    }
    h.push(last.to_string());
    h
}

pub fn replay(case: &Value) -> Result<Verdict, String> {
    if case["kind"] == "fuzz-input" {
        // the input of the `total` target is the text itself: judged under the CPU limit like any other
        let data = crate::fuzzrun::unhex(case["hex"].as_str().ok_or("hex")?);
        return Ok(match crate::fuzzdec::total_case(&data) {
            Some(text) => judge_with_deadline(&text)?,
            None => Verdict::Skip("outside the target's domain"),
        });
    }
    if case["kind"] == "history" {
        let h: Vec<String> = case["inputs"].as_array().ok_or("no inputs")?.iter().filter_map(|v| v.as_str().map(|s| s.to_string())).collect();
        return Ok(match run_history(&h) {
            Ok(()) => Verdict::Pass { nt: true, class: "history" },
            Err(e) => Verdict::Fail(e),
        });
    }
    judge_with_deadline(case["input"].as_str().ok_or("no input")?)
}

/// `judge` on a thread of its own, under the same CPU limit as in the worker processes (a hanging
/// call cannot be stopped: the verdict is returned and the process ends with the thread still running)
pub fn judge_with_deadline(input: &str) -> Result<Verdict, String> {
    let input = input.to_string();
    let (tx, rx) = std::sync::mpsc::channel();
    let text = input.clone();
    let cpu0 = process_cpu_secs().unwrap_or(0.0);
    std::thread::Builder::new().stack_size(256 << 20).spawn(move || { let _ = tx.send(judge(&text)); }).map_err(|e| e.to_string())?;
    loop {
        match rx.recv_timeout(std::time::Duration::from_millis(200)) {
            Ok(v) => return Ok(v),
            Err(std::sync::mpsc::RecvTimeoutError::Disconnected) => return Ok(Verdict::Fail(format!("input {:?}: the thread handling it died", truncate(&input, 300)))),
            Err(std::sync::mpsc::RecvTimeoutError::Timeout) => {
                if process_cpu_secs().unwrap_or(0.0) - cpu0 > CPU_LIMIT_SECS {
                    return Ok(Verdict::Fail(hang_message(&input)));
                }
            }
        }
    }
}

fn hang_message(input: &str) -> String {
    format!("input {:?} ({} bytes): no answer after {CPU_LIMIT_SECS} s of CPU time (inputs of this size are answered in milliseconds): parse/compile/render does not terminate in any useful sense", truncate(input, 300), input.len())
}

fn case_json(s: &str) -> Value {
    json!({"kind": "input", "input": s})
}

/// Worker process: one slice of the corpus. Writes statistics to `out` and the
/// hashes of non-trivial inputs to `out.nt`. With `trace`, the index of the
/// input about to run is written first (used to isolate an abort).
pub fn worker(shard: usize, nshards: usize, seed: u64, tier: Tier, out: &str, trace: Option<&str>, only: Option<usize>) -> i32 {
    let texts = corpus::texts(seed, tier, shard, nshards);
    spawn_monitor(format!("{out}.hang"));
    let mut max_cpu = 0f64;
    let mut st = Stats::new();
    let mut nt: Vec<u8> = vec![];
    // the calls made so far on this thread (newest last): a failure that needs earlier calls is
    // reported as the shortest history found that reproduces it on a fresh thread
    let mut recent: std::collections::VecDeque<String> = std::collections::VecDeque::new();
    let mut explained = 0usize;
    for (i, t) in texts.iter().enumerate() {
        if let Some(o) = only {
            if i != o {
                continue;
            }
        }
        if let Some(tr) = trace {
            let _ = std::fs::write(tr, format!("{i}\n{}", t));
        }
        if i % 8 == 0 {
            // earlier calls on this very thread: each must be answered too, in whatever order
            let h = history_for(seed, i, &texts, t);
            let mut hv = Verdict::Pass { nt: false, class: "history of calls on one thread" };
            let mut hcase = json!({"kind": "history", "inputs": []});
            for p in h.iter() {
                if !corpus::within_bounds(p) {
                    continue;
                }
                let r = exercise(p);
                remember(&mut recent, p);
                if let Err(e) = r {
                    let (c, m) = explain_failure(&recent, p, e, explained < 3);
                    explained += 1;
                    hcase = c;
                    hv = Verdict::Fail(m);
                    break;
                }
            }
            let hk = stable_hash(&(i as u64, 0xC03u64));
            st.record(&hv, hk, true, || hcase);
        }
        let c0 = if i % 16 == 0 || t.len() > 400 { process_cpu_secs() } else { None };
        let mut v = judge(t);
        if let (Some(a), Some(b)) = (c0, process_cpu_secs()) {
            max_cpu = max_cpu.max(b - a);
        }
        remember(&mut recent, t);
        let mut fcase = case_json(t);
        if let Verdict::Fail(e) = &v {
            let (c, m) = explain_failure(&recent, t, e.clone(), explained < 3);
            explained += 1;
            fcase = c;
            v = Verdict::Fail(m);
        }
        let h = stable_hash(t.as_str());
        if let Verdict::Pass { nt: true, .. } = v {
            nt.extend_from_slice(&h.to_le_bytes());
        }
        // distinctness is computed by the parent from the hash file
        let v2 = match v {
            Verdict::Pass { class, .. } => Verdict::Pass { nt: false, class },
            o => o,
        };
        st.record(&v2, h, true, || fcase);
        if i % 97 == 0 && st.samples.len() < 6 {
            st.samples.push(case_json(t));
        }
    }
    st.extra.insert("max_input_cpu_s".into(), json!(max_cpu));
    let _ = std::fs::write(format!("{out}.nt"), nt);
    match std::fs::File::create(out).and_then(|mut f| f.write_all(serde_json::to_string(&stats_to_json(&st)).unwrap().as_bytes())) {
        Ok(()) => 0,
        Err(_) => 2,
    }
}

pub fn run(ctx: &Ctx) -> Report {
    let nshards = 32usize;
    let scratch = std::env::var("FFV_SCRATCH").unwrap_or_else(|_| format!("{}/harness/target/scratch", verif_dir()));
    let _ = std::fs::create_dir_all(&scratch);
    let exe = std::env::current_exe().expect("current_exe");
    let tag = format!("{}-{}", profile(), std::process::id());
    let total = std::sync::Mutex::new(Stats::new());
    let nt_all: std::sync::Mutex<HashSet<u64>> = std::sync::Mutex::new(HashSet::new());
    let max_cpu = std::sync::Mutex::new(0f64);
    let next = std::sync::atomic::AtomicUsize::new(0);
    std::thread::scope(|sc| {
        for _ in 0..16 {
            sc.spawn(|| loop {
                let shard = next.fetch_add(1, std::sync::atomic::Ordering::SeqCst);
                if shard >= nshards {
                    break;
                }
                let out = format!("{scratch}/c03-{tag}-{shard}.json");
                let run_worker = |extra: &[String]| {
                    let mut cmd = std::process::Command::new(&exe);
                    cmd.args(["c03-worker", &shard.to_string(), &nshards.to_string(), "--seed", &ctx.seed.to_string(), "--tier", ctx.tier.name(), "--out", &out]);
                    cmd.args(extra);
                    cmd.stdout(std::process::Stdio::null()).stderr(std::process::Stdio::null());
                    cmd.status()
                };
                let status = run_worker(&[]);
                let ok = matches!(&status, Ok(s) if s.code() == Some(0));
                let mut st = Stats::new();
                if ok {
                    match std::fs::read_to_string(&out).ok().and_then(|t| serde_json::from_str::<Value>(&t).ok()) {
                        Some(v) => {
                            st = stats_from_json(&v);
                            if let Some(m) = st.extra.remove("max_input_cpu_s").and_then(|x| x.as_f64()) {
                                let mut g = max_cpu.lock().unwrap();
                                if m > *g {
                                    *g = m;
                                }
                            }
                        }
                        None => st.oracle_bugs.push(format!("worker {shard} produced no result")),
                    }
                    if let Ok(bytes) = std::fs::read(format!("{out}.nt")) {
                        let mut set = nt_all.lock().unwrap();
                        for ch in bytes.chunks_exact(8) {
                            set.insert(u64::from_le_bytes(ch.try_into().unwrap()));
                        }
                    }
                } else if matches!(&status, Ok(s) if s.code() == Some(3)) && std::path::Path::new(&format!("{out}.hang")).exists() {
                    // one input used more than the CPU limit: confirm it in a process of its own
                    let hang = format!("{out}.hang");
                    let input = std::fs::read_to_string(&hang).unwrap_or_default();
                    let infile = format!("{out}.one");
                    let _ = std::fs::write(&infile, &input);
                    let _ = std::fs::remove_file(&hang);
                    let again = std::process::Command::new(&exe).args(["c03-one", "--in", &infile, "--out", &hang]).stdout(std::process::Stdio::null()).stderr(std::process::Stdio::null()).status();
                    st.evaluations += 1;
                    if matches!(&again, Ok(s) if s.code() == Some(3)) {
                        st.failures.push(Failure { case: case_json(&input), msg: hang_message(&input) });
                    } else {
                        st.oracle_bugs.push(format!("worker {shard} reported an input over the CPU limit, but alone it was answered (status {again:?}): {:?}", truncate(&input, 200)));
                    }
                    st.notes.push(format!("slice {shard} of the corpus was cut short by an input over the CPU limit"));
                    let _ = std::fs::remove_file(&infile);
                    let _ = std::fs::remove_file(&hang);
                } else {
                    // the worker died (abort, stack overflow, kill): isolate the input with a traced re-run
                    let trace = format!("{scratch}/c03-{tag}-{shard}.trace");
                    let _ = run_worker(&["--trace".to_string(), trace.clone()]);
                    match std::fs::read_to_string(&trace) {
                        Ok(t) => {
                            let (idx, input) = t.split_once('\n').unwrap_or(("?", ""));
                            // confirm in a process of its own
                            let again = run_worker(&["--only".to_string(), idx.to_string()]);
                            let died = !matches!(&again, Ok(s) if s.code() == Some(0));
                            if died {
                                st.failures.push(Failure { case: case_json(input), msg: format!("the process died (status {:?}) while handling this input: abort, stack overflow or kill, not an error value", again.map(|s| s.to_string())) });
                            } else {
                                st.oracle_bugs.push(format!("worker {shard} died ({status:?}) but input #{idx} alone does not reproduce it"));
                            }
                            st.evaluations += 1;
                        }
                        Err(_) => st.oracle_bugs.push(format!("worker {shard} died ({status:?}) and left no trace")),
                    }
                    let _ = std::fs::remove_file(&trace);
                }
                let _ = std::fs::remove_file(&out);
                let _ = std::fs::remove_file(format!("{out}.nt"));
                total.lock().unwrap().merge(st);
            });
        }
    });
    let mut total = total.into_inner().unwrap();
    total.nt_set = nt_all.into_inner().unwrap();
    total.extra.insert("max_input_cpu_s".into(), json!(max_cpu.into_inner().unwrap()));
    total.extra.insert("cpu_limit_per_input_s".into(), json!(CPU_LIMIT_SECS));
    total.exhaustive_parts.push("every string of length 1..=3 over a 20-symbol alphabet after each of 41 keywords (bare, and quoted for -perm/-printf); numeric boundary strings after every numeric carrier; octal runs of 1..24 digits after -perm and '\\'".into());
    // coverage-guided part: replay of the committed corpus (quick), libFuzzer campaign (thorough)
    crate::fuzzrun::replay_corpus("total", &mut total);
    if ctx.tier == Tier::Thorough && ctx.part.is_none() {
        crate::fuzzrun::campaign("total", ctx.seed, 400_000, 8, 512, &mut total);
    }
    Report {
        stats: total,
        rule: "inputs within the stated bounds (UTF-8, <= 4 KiB, <= 64 of '(' and '!'): (1) grammar-aware texts over the whole vocabulary in layout/argument-spelling variants; (2) every prefix and every single-character mutation (delete, duplicate, replace by each of 24 special characters) of a sample of those; (3) every argument string of length <= 3 over a 20-symbol alphabet after each argument-taking keyword; (4) numeric boundary strings and long octal runs; (5) the member/non-member texts of C05 and random format strings; nesting at the bound, with an operator at every level and the inner group on either side, accepted and rejected variants; every code point of the basic plane (and a stride through the others) as argument of the string-processing primaries; every arrangement of brackets and pattern characters up to length 4 as pattern, attribute name and value; (6) before every eighth input, a history of calls on the worker's own thread: 18 fixed inputs that are rejected by the lexer, rejected by the grammar with parentheses open, or accepted with a warning, mixed with four texts of the slice in a seed-dependent order - each call of the history is judged like any other input, and a failure that needs earlier calls is reported as the shortest history that reproduces it on a fresh thread (replay kind \"history\"). Oracle, per input, in a child process, in the dev and in the release build: parse returns; on Err, Display and Debug of the error return; on Ok, compile returns; on Ok, scheme(\"/\"), scheme(hostile path) and io_map() return. A panic, abort or fatal signal is a failure; so is an input that has no answer after 20 s of CPU time of its process (confirmed in a process of its own; the slowest input of the corpus takes `max_input_cpu_s`); expiry of the watchdog of the whole run is inconclusive (exit 2). Non-trivial: parsing got past the first token (Ok, or an error that names a keyword). Distinct: by input text.".into(),
        assumptions: vec!["deeper nesting than 64 and inputs beyond 4 KiB are outside the property as stated".into()],
        exhaustive: false,
    }
}
