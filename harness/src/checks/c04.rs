//! C04 — the emitted program is well-formed Scheme and user text stays data.

use crate::files::FileRec;
use crate::policy::{self, CompileOutcome};
use crate::render;
use crate::sx::{self, Sx};
use crate::term;
use crate::tree::*;
use crate::util::*;
use lipe_find_parser::parse;
use proptest::prelude::*;
use serde_json::{json, Value};

pub const ALPHABET: [char; 18] = ['"', '\\', '~', '%', '(', ')', ';', '#', '\'', '\n', '\t', '\u{1}', '\u{7f}', 'é', '日', 'a', ' ', '*'];

pub const CARRIERS: [&str; 48] = [
    // the pattern branch of -xattr-match is chosen by either argument: each argument next to a
    // partner that selects it
    "xattr-match-attr*", "xattr-match-value*", "xattr-match-attr*+framed", "xattr-match-value*+framed",
    "user?", "group?", "regex?", "fstype?", "lname?",
    "pool+long2", "xattr-match-value+long2", "printf-literal+long2", "name+long2",
    "pool+long", "xattr+long", "xattr-match-value+long", "printf-literal+long", "name+long",
    "name+framed", "iname+framed", "path+framed", "ipath+framed", "pool+framed", "xattr+framed", "xattr-match-attr+framed", "xattr-match-value+framed", "printf-literal+framed", "printf-octal+framed",
    "strftime-A+framed", "strftime-T+framed",
    "printf-octal", "name", "iname", "path", "ipath", "pool", "xattr", "xattr-match-attr", "xattr-match-value", "fprint", "fprint0", "fprintf-file", "printf-literal", "fprintf-literal", "strftime-A", "strftime-C",
    "strftime-T", "device",
];

fn hostile(c: char) -> bool {
    matches!(c, '"' | '\\' | '~' | ';' | '#' | '(' | ')' | '%') || c.is_control() || !c.is_ascii()
}

/// `s` with every character replaced by 'a', except the characters that legitimately select a
/// different matcher (`* ? [ '`) and blanks.
fn neutral(s: &str) -> String {
    s.chars().map(|c| if "*?[' ".contains(c) { c } else { 'a' }).collect()
}

/// Build the tree carrying `s` at `carrier`; None if the carrier cannot hold it.
fn tree_for(carrier: &str, s: &str) -> Option<E> {
    if let Some(b) = carrier.strip_suffix("+long2") {
        // the carrier right after a literal ending in a backslash, followed by a long chain
        let t = tree_for_base(b, s)?;
        let mut e = E::or(E::T(Tst::Pool("fast\\".into())), t);
        e = E::or(e, E::T(Tst::Xattr("my pool".into())));
        for i in 0..60u32 {
            e = E::or(e, E::T(Tst::Uid(Cmp::Eq, i)));
        }
        return Some(e);
    }
    if let Some(b) = carrier.strip_suffix("+long") {
        // the carrier at the end of a long policy body (> 1000 bytes) that already contains literals
        // ending in a backslash, containing blanks and quotes
        let t = tree_for_base(b, s)?;
        let mut e = E::or(E::T(Tst::Pool("fast\\".into())), E::T(Tst::Xattr("a \"b\" c".into())));
        for i in 0..60u32 {
            e = E::or(e, E::T(Tst::Uid(Cmp::Eq, i)));
        }
        // the chain is true for every file, so the carrier is always evaluated
        return Some(E::and(E::or(e, E::T(Tst::True)), t));
    }
    let (base, framed) = base_carrier(carrier);
    let t = tree_for_base(base, s)?;
    Some(if framed { E::and(t, E::A(Act::Print0)) } else { t })
}

fn tree_for_base(carrier: &str, s: &str) -> Option<E> {
    let st = s.to_string();
    Some(match carrier {
        "name" => E::T(Tst::Name(st)),
        "iname" => E::T(Tst::IName(st)),
        "path" => E::T(Tst::Path(st)),
        "ipath" => E::T(Tst::IPath(st)),
        "pool" => E::T(Tst::Pool(st)),
        "xattr" => E::T(Tst::Xattr(st)),
        "xattr-match-attr" => E::T(Tst::XattrMatch(st, "v".into())),
        "xattr-match-attr*" => E::T(Tst::XattrMatch(st, "v*[1]?".into())),
        "xattr-match-value*" => E::T(Tst::XattrMatch("user.[t]*".into(), st)),
        "xattr-match-value" => E::T(Tst::XattrMatch("user.tag".into(), st)),
        "fprint" => E::A(Act::FPrint(st)),
        "fprint0" => E::A(Act::FPrint0(st)),
        "fprintf-file" => E::A(Act::FPrintf(st, vec![FEl::F(Fld::NameNoStart), FEl::E(Esc::Newline)])),
        "printf-literal" | "fprintf-literal" => {
            // literal text of a format: '%' and '\' introduce directives/escapes in find's own language
            if s.is_empty() || s.contains('%') || s.contains('\\') {
                return None;
            }
            let f = vec![FEl::Lit(st), FEl::E(Esc::Newline)];
            if carrier == "printf-literal" {
                E::A(Act::Printf(f))
            } else {
                E::A(Act::FPrintf("out".into(), f))
            }
        }
        "strftime-A" | "strftime-C" | "strftime-T" => {
            let mut it = s.chars();
            let k = it.next()?;
            if it.next().is_some() || k == '@' {
                return None;
            }
            let f = match carrier {
                "strftime-A" => Fld::AccessFmt(k),
                "strftime-C" => Fld::ChangeFmt(k),
                _ => Fld::ModifyFmt(k),
            };
            E::A(Act::Printf(vec![FEl::F(f), FEl::E(Esc::Newline)]))
        }
        "printf-octal" => {
            // every character written as a \\NNN escape of the format language
            if s.is_empty() || !s.chars().all(|c| (c as u32) < 128 && c != '\0' && c != '\u{1e}') {
                return None;
            }
            let mut f: Vec<FEl> = s.chars().map(|c| FEl::E(Esc::Ascii(c as u16))).collect();
            f.push(FEl::E(Esc::Newline));
            E::A(Act::Printf(f))
        }
        "device" => E::T(Tst::True),
        // string-valued tests the target cannot express: refused whatever the string is
        "user?" => E::T(Tst::U(UTest::User(st))),
        "group?" => E::T(Tst::U(UTest::Group(st))),
        "regex?" => E::T(Tst::U(UTest::Regex(st))),
        "fstype?" => E::T(Tst::U(UTest::FsType(st))),
        "lname?" => E::T(Tst::U(UTest::LName(st))),
        _ => return None,
    })
}

fn is_format_literal(carrier: &str) -> bool {
    let (carrier, _) = base_carrier(carrier);
    carrier.ends_with("-literal") || carrier == "printf-octal"
}

/// How `s` must appear inside the carrier's string literal.
fn literal_of(carrier: &str, s: &str) -> String {
    if base_carrier(carrier).0.starts_with("strftime-") {
        format!("%{s}")
    } else {
        s.to_string()
    }
}

fn shape(x: &Sx) -> Sx {
    match x {
        Sx::List(v) => Sx::List(v.iter().map(shape).collect()),
        Sx::Str(_) => Sx::Str(String::new()),
        o => o.clone(),
    }
}

fn strings(x: &Sx, out: &mut Vec<String>) {
    x.walk(&mut |n| {
        if let Sx::Str(s) = n {
            out.push(s.clone())
        }
    });
}

/// carriers whose string lives in a test are also compiled next to an action that selects framed
/// output (the two code generators are separate): carrier name with the suffix "+framed"
fn base_carrier(carrier: &str) -> (&str, bool) {
    let carrier = carrier.strip_suffix("+long2").or(carrier.strip_suffix("+long")).unwrap_or(carrier);
    match carrier.strip_suffix("+framed") {
        Some(b) => (b, true),
        None => (carrier, false),
    }
}

fn compile_text(carrier: &str, s: &str) -> Result<Option<String>, String> {
    let Some(tree) = tree_for(carrier, s) else { return Ok(None) };
    let device = if carrier == "device" { s } else { "/dev/mdt0" };
    match policy::compile_tree(&tree, None, device) {
        CompileOutcome::Ok(c) => Ok(Some(c.text)),
        CompileOutcome::Err(e) => Err(format!("compile error: {e}")),
        CompileOutcome::Panic(p) => Err(format!("compile panicked: {p}")),
    }
}

pub fn judge(carrier: &str, s: &str) -> Verdict {
    if s.is_empty() {
        return Verdict::Skip("empty string");
    }
    if s.contains('\u{1e}') {
        return Verdict::Skip("U+001E is the frame separator of the output protocol");
    }
    let tree = match tree_for(carrier, s) {
        Some(t) => t,
        None => return Verdict::Skip("carrier cannot hold this string ('%'/'\\' in format text, multi-character selector)"),
    };
    // path 1: the text form, when some quoting style can express the string
    let mut class = "direct construction only (no quoting style expresses the string)";
    if carrier != "device" {
        if let Some(text) = render::canonical(&tree) {
            match catch(|| parse(&text)) {
                Err(p) => return Verdict::Fail(format!("parse panicked on {text:?}: {p}")),
                Ok(Ok((_, x))) if from_ast(&x) == tree => class = "accepted input (via parse) and direct construction",
                Ok(_) => class = "direct construction only (text form parses differently; C05/C06 decide that)",
            }
        }
    } else {
        class = "device path";
    }
    let s0 = neutral(s);
    if carrier.ends_with('?') {
        // whether such a test is accepted must not depend on the characters of its string
        let (a, b) = (compile_text(carrier, s), compile_text(carrier, &s0));
        match (&a, &b) {
            (Err(e), _) | (_, Err(e)) if e.contains("panicked") => return Verdict::Fail(format!("{carrier} with {s:?}: {e}")),
            (Err(_), Err(_)) => return Verdict::Pass { nt: true, class: "refused whatever the characters of the string" },
            (Ok(Some(p)), Err(_)) => return Verdict::Fail(format!("{carrier}: refused for the neutral string {s0:?} but accepted for {s:?} - the characters of a user string decide the structure of the program:\n{p}")),
            (Err(_), Ok(Some(_))) => return Verdict::Fail(format!("{carrier}: accepted for the neutral string {s0:?} but refused for {s:?} - the characters of a user string decide whether there is a program")),
            _ => {}
        }
    }
    let p = match compile_text(carrier, s) {
        Ok(Some(p)) => p,
        Ok(None) => return Verdict::Skip("carrier cannot hold this string"),
        Err(e) => return Verdict::Fail(format!("{carrier} with {s:?}: {e}")),
    };
    let p0 = match compile_text(carrier, &s0) {
        Ok(Some(p)) => p,
        _ => return Verdict::OracleBug(format!("neutral string {s0:?} does not compile for {carrier}")),
    };
    // (a) exactly the two expected top-level forms
    let forms = match sx::read_all(&p) {
        Ok(f) => f,
        Err(e) => return Verdict::Fail(format!("{carrier} with {s:?}: emitted program does not read as Scheme: {e}\nprogram:\n{p}")),
    };
    if forms.len() != 2 || forms[0].head() != Some("use-modules") || forms[1].head() != Some("let*") {
        return Verdict::Fail(format!(
            "{carrier} with {s:?}: program reads as {} top-level forms {:?} instead of (use-modules ...) (let* ...)\nprogram:\n{p}",
            forms.len(),
            forms.iter().map(|f| f.head().unwrap_or("<atom>").to_string()).collect::<Vec<_>>()
        ));
    }
    let forms0 = match sx::read_all(&p0) {
        Ok(f) => f,
        Err(e) => return Verdict::OracleBug(format!("program for neutral string {s0:?} does not read: {e}")),
    };
    // (b) non-interference: same structure around the string
    let (sh, sh0): (Vec<Sx>, Vec<Sx>) = (forms.iter().map(shape).collect(), forms0.iter().map(shape).collect());
    if sh != sh0 {
        return Verdict::Fail(format!("{carrier}: changing the characters of the user string from {s0:?} to {s:?} changes the structure of the program\nprogram:\n{p}\nprogram for {s0:?}:\n{p0}"));
    }
    let (mut st, mut st0) = (vec![], vec![]);
    for f in &forms {
        strings(f, &mut st);
    }
    for f in &forms0 {
        strings(f, &mut st0);
    }
    if !is_format_literal(carrier) {
        let (lit, lit0) = (literal_of(carrier, s), literal_of(carrier, &s0));
        let mut seen = 0;
        for (a, b) in st.iter().zip(st0.iter()) {
            if a == b && *b != lit0 {
                continue;
            }
            if *b == lit0 && *a == lit {
                seen += 1;
                continue;
            }
            return Verdict::Fail(format!("{carrier} with {s:?}: a string literal decodes to {a:?}; expected {:?} (the neutral program has {b:?} there)\nprogram:\n{p}", lit));
        }
        let file_carrier = matches!(carrier, "fprint" | "fprint0" | "fprintf-file");
        if file_carrier {
            // framed mode: the file name travels in the destination table, not in the program text
            let named = policy_io_map(&tree).map(|m| m.values().any(|(d, _)| *d == crate::speceval::Dest::File(s.to_string()))).unwrap_or(false);
            if seen == 0 && !named {
                return Verdict::Fail(format!("{carrier} with {s:?}: the file name is neither a string literal of the program nor an entry of the destination table\nprogram:\n{p}"));
            }
        } else if seen == 0 {
            return Verdict::Fail(format!("{carrier} with {s:?}: no string literal of the program decodes to {lit:?}\nprogram:\n{p}"));
        }
    } else {
        // (c) literal format text is printed verbatim
        let comp = policy::Compiled { text: p.clone(), io_map: policy_io_map(&tree), now: now_secs() };
        let f = FileRec::base(comp.now);
        let run = match policy::run_policy(&comp, vec![f.clone()]) {
            Ok(r) => r,
            Err(e) => return Verdict::Fail(format!("{carrier} with {s:?}: {e}")),
        };
        if let Some(e) = &run.error {
            return Verdict::Fail(format!("{carrier} with {s:?}: program fails at run time: {e}\nprogram:\n{p}"));
        }
        let obs = policy::observe(&run, &comp, 0);
        if let Some(e) = &obs.error {
            return Verdict::Fail(format!("{carrier} with literal text {s:?}: policy fails at run time: {e}\nprogram:\n{p}"));
        }
        let want = format!("{s}\n");
        // (a framed variant also runs -print0 afterwards; the format's own output comes first)
        let n_expected = if base_carrier(carrier).1 { 2 } else { 1 };
        let got: String = obs.outs.first().map(|o| o.bytes.clone()).unwrap_or_default();
        if obs.outs.len() != n_expected || got != want {
            return Verdict::Fail(format!("{carrier}: literal text {s:?} is not printed verbatim: expected {want:?}, policy wrote {got:?}\nprogram:\n{p}"));
        }
    }
    // every user string of the tree (not only the carrier's) must be a string literal of the program
    // decoding to exactly that string (file names may instead be entries of the destination table)
    for l in tree.leaves() {
        let wanted: Vec<&String> = match l {
            E::T(Tst::Name(x)) | E::T(Tst::IName(x)) | E::T(Tst::Path(x)) | E::T(Tst::IPath(x)) | E::T(Tst::Pool(x)) | E::T(Tst::Xattr(x)) => vec![x],
            E::T(Tst::XattrMatch(a, b)) => vec![a, b],
            _ => vec![],
        };
        for w in wanted {
            if !st.iter().any(|lit| lit == w) {
                return Verdict::Fail(format!("{carrier} with {s:?}: the user string {w:?} of the expression is not a string literal of the program\nprogram:\n{p}"));
            }
        }
    }
    let nt = s.chars().any(hostile);
    Verdict::Pass { nt, class }
}

/// Non-interference for a whole tree: replace every user string by a neutral one (letters only,
/// keeping the characters that legitimately select another matcher, and keeping equal strings
/// equal and different strings different): the program must keep its structure, the destination
/// table its size, and every user string of a test must be a string literal of the program.
pub fn judge_tree(tree: &E) -> Verdict {
    let mut names: std::collections::BTreeMap<String, String> = std::collections::BTreeMap::new();
    let mut neutral_of = |x: &str| -> String {
        let k = names.len();
        names
            .entry(x.to_string())
            .or_insert_with(|| {
                let mut suffix = String::new();
                let mut n = k;
                loop {
                    suffix.push((b'b' + (n % 24) as u8) as char);
                    n /= 24;
                    if n == 0 {
                        break;
                    }
                }
                format!("{}q{suffix}", neutral(x))
            })
            .clone()
    };
    let plain = tree.map_strings(&mut neutral_of);
    let comp = |t: &E| match policy::compile_tree(t, None, "/dev/mdt0") {
        CompileOutcome::Ok(c) => Ok(c),
        CompileOutcome::Err(e) => Err(format!("compile error: {e}")),
        CompileOutcome::Panic(p) => Err(format!("compile panicked: {p}")),
    };
    // both programs are compiled in the same wall-clock second (time tests embed it)
    let (mut a, mut b) = (comp(tree), comp(&plain));
    for _ in 0..20 {
        match (&a, &b) {
            (Ok(x), Ok(y)) if x.now != y.now => {
                a = comp(tree);
                b = comp(&plain);
            }
            _ => break,
        }
    }
    if let (Ok(x), Ok(y)) = (&a, &b) {
        if x.now != y.now {
            return Verdict::Skip("the clock second kept changing between the two compilations");
        }
    }
    let (a, b) = match (a, b) {
        (Ok(a), Ok(b)) => (a, b),
        (Err(e), _) | (_, Err(e)) if e.contains("panicked") => return Verdict::Fail(format!("{tree:?}: {e}")),
        (Err(_), Err(_)) => return Verdict::Skip("does not compile (C12 decides that)"),
        (Ok(_), Err(e)) => return Verdict::Fail(format!("{tree:?} compiles, but with neutral strings ({plain:?}) it does not: {e}")),
        (Err(e), Ok(_)) => return Verdict::Fail(format!("{plain:?} compiles, but with the user's strings ({tree:?}) it does not: {e}")),
    };
    let forms = match sx::read_all(&a.text) {
        Ok(f) => f,
        Err(e) => return Verdict::Fail(format!("{tree:?}: emitted program does not read as Scheme: {e}\nprogram:\n{}", a.text)),
    };
    let forms0 = match sx::read_all(&b.text) {
        Ok(f) => f,
        Err(e) => return Verdict::OracleBug(format!("program for the neutral tree {plain:?} does not read: {e}")),
    };
    if forms.len() != 2 || forms[0].head() != Some("use-modules") || forms[1].head() != Some("let*") {
        return Verdict::Fail(format!("{tree:?}: program reads as {} top-level forms instead of (use-modules ...) (let* ...)\nprogram:\n{}", forms.len(), a.text));
    }
    let (sh, sh0): (Vec<Sx>, Vec<Sx>) = (forms.iter().map(shape).collect(), forms0.iter().map(shape).collect());
    if sh != sh0 {
        return Verdict::Fail(format!("the characters of the user strings decide the structure of the program: {tree:?} and the same expression with neutral strings {plain:?} give differently shaped programs\nprogram:\n{}\nprogram with neutral strings:\n{}", a.text, b.text));
    }
    if a.io_map.as_ref().map(|m| m.len()) != b.io_map.as_ref().map(|m| m.len()) {
        return Verdict::Fail(format!("the characters of the user strings decide the size of the destination table: {tree:?} -> {:?}, neutral {plain:?} -> {:?}", a.io_map, b.io_map));
    }
    let mut st = vec![];
    for f in &forms {
        strings(f, &mut st);
    }
    for l in tree.leaves() {
        let wanted: Vec<&String> = match l {
            E::T(Tst::Name(x)) | E::T(Tst::IName(x)) | E::T(Tst::Path(x)) | E::T(Tst::IPath(x)) | E::T(Tst::Pool(x)) | E::T(Tst::Xattr(x)) => vec![x],
            E::T(Tst::XattrMatch(a, b)) => vec![a, b],
            _ => vec![],
        };
        for w in wanted {
            if !st.iter().any(|lit| lit == w) {
                return Verdict::Fail(format!("{tree:?}: the user string {w:?} is not a string literal of the program\nprogram:\n{}", a.text));
            }
        }
    }
    Verdict::Pass { nt: tree.user_strings().len() >= 2, class: "whole tree against its neutral twin" }
}

fn policy_io_map(tree: &E) -> Option<std::collections::BTreeMap<u32, (crate::speceval::Dest, Option<char>)>> {
    use lipe_find_parser::{compile, RunOptions};
    let x = to_ast(tree);
    compile(&x, &RunOptions::default()).ok().and_then(|c| c.io_map()).map(|m| m.iter().map(|(k, v)| (*k, policy::target_to(v))).collect())
}

fn case_json(carrier: &str, s: &str) -> Value {
    json!({"kind": "carrier", "carrier": carrier, "string": s, "text": tree_for(carrier, s).and_then(|t| render::canonical(&t)), "tree": tree_for(carrier, s).map(|t| term::encode_expr(&t))})
}

pub fn replay(case: &Value) -> Result<Verdict, String> {
    if case["kind"] == "repeat" {
        // the long string alone, on one thread (the concurrent part of the failure is not replayed)
        let s = case["unit"].as_str().unwrap_or("").repeat(case["count"].as_u64().unwrap_or(1) as usize);
        return Ok(judge(case["carrier"].as_str().ok_or("carrier")?, &s));
    }
    if case["kind"] == "tree" {
        return Ok(judge_tree(&term::decode_expr(case["tree"].as_str().ok_or("no tree")?)?));
    }
    Ok(judge(case["carrier"].as_str().ok_or("no carrier")?, case["string"].as_str().ok_or("no string")?))
}

pub fn run(ctx: &Ctx) -> Report {
    let mut total = Stats::new();
    let n = ALPHABET.len();
    // exhaustive: every string of length 1..=3 over the alphabet x every carrier
    let max_len = ctx.tier.pick(3usize, 4usize);
    let ex = run_shards(CARRIERS.len() * n, |shard| {
        let mut st = Stats::new();
        let carrier = CARRIERS[shard / n];
        let first = ALPHABET[shard % n];
        let mut strings = vec![first.to_string()];
        let mut frontier = vec![first.to_string()];
        for _ in 1..max_len {
            let mut next = vec![];
            for f in &frontier {
                for c in ALPHABET {
                    next.push(format!("{f}{c}"));
                }
            }
            strings.extend(next.iter().cloned());
            frontier = next;
        }
        for s in &strings {
            let v = judge(carrier, s);
            st.record(&v, stable_hash(&(carrier, s)), true, || case_json(carrier, s));
            if st.failures.len() >= MAX_FAILURES {
                break;
            }
        }
        st
    });
    total.merge(ex);
    total.exhaustive_parts.push(format!("every string of length 1..={max_len} over the 18-symbol hostile alphabet x {} carriers", CARRIERS.len()));

    // every three-digit octal escape of the format language, in both output modes: the program must
    // read as two forms with the structure of the program for '\\101'
    let mut st = Stats::new();
    for framed in [false, true] {
        let shape_of = |v: u16| -> Result<Vec<Sx>, String> {
            let mut t = E::A(Act::Printf(vec![FEl::Lit("<".into()), FEl::E(Esc::Ascii(v)), FEl::Lit(">".into()), FEl::E(Esc::Newline)]));
            if framed {
                t = E::and(t, E::A(Act::FPrint("f".into())));
            }
            match policy::compile_tree(&t, None, "/") {
                CompileOutcome::Ok(c) => sx::read_all(&c.text).map(|f| f.iter().map(shape).collect()).map_err(|e| format!("program does not read: {e}\n{}", c.text)),
                CompileOutcome::Err(e) => Err(format!("compile error: {e}")),
                CompileOutcome::Panic(p) => Err(format!("compile panicked: {p}")),
            }
        };
        let reference = shape_of(0o101);
        for v in 0..512u16 {
            if v == 0x1e {
                continue;
            }
            let verdict = match (&reference, shape_of(v)) {
                (Ok(r), Ok(sv)) if *r == sv && sv.len() == 2 => Verdict::Pass { nt: true, class: "octal escape: well-formed, same structure" },
                (Ok(_), Ok(_)) => Verdict::Fail(format!("-printf '<\\{v:03o}>\\n' (framed={framed}): the program's structure differs from the one for '\\101'")),
                (_, Err(e)) => Verdict::Fail(format!("-printf '<\\{v:03o}>\\n' (framed={framed}): {e}")),
                (Err(e), _) => Verdict::OracleBug(e.clone()),
            };
            st.record(&verdict, stable_hash(&(v, framed)), true, || json!({"kind": "carrier", "carrier": if framed { "printf-octal+framed" } else { "printf-octal" }, "string": char::from_u32(v as u32).map(|c| c.to_string()), "octal": format!("{v:03o}")}));
        }
    }
    total.merge(st);
    total.exhaustive_parts.push("all 512 three-digit octal escapes in a format, plain and framed mode: program well-formed with unchanged structure".into());

    crate::selftest::snapshots_read_and_run(&mut total);
    // 16 threads compiling and rendering long hostile strings at the same moment: a string of one
    // thread must come out exactly as when that thread is alone (buffers or locks shared between threads)
    let mut stc = Stats::new();
    {
        let nthreads = 16usize;
        let rounds = ctx.tier.pick(12usize, 120usize);
        let barrier = std::sync::Arc::new(std::sync::Barrier::new(nthreads));
        let mut handles = vec![];
        for k in 0..nthreads {
            let barrier = barrier.clone();
            let h = std::thread::Builder::new().stack_size(64 << 20).spawn(move || {
                let carrier = ["pool", "name", "xattr-match-value", "device", "fprint", "printf-literal", "path+framed", "xattr"][k % 8];
                // a quote, a backslash or both every few characters; 300..600 kB
                let unit = ["ab\"", "x\\y", "q\"\\", "né\"", "\\\"z;("][k % 5];
                let s = unit.repeat(60_000 + 7_000 * k);
                barrier.wait();
                let mut bad = None;
                for r in 0..rounds {
                    if let Verdict::Fail(m) = judge(carrier, &s) {
                        bad = Some(format!("thread {k} of {nthreads}, round {r}, carrier {carrier}, a {}-byte string made of {unit:?} (all threads compile long strings at once): {}", s.len(), truncate(&m, 600)));
                        break;
                    }
                }
                (carrier, unit, s.len() / unit.len(), bad)
            });
            match h {
                Ok(h) => handles.push(h),
                Err(e) => stc.oracle_bugs.push(format!("cannot start a thread: {e}")),
            }
        }
        for (k, h) in handles.into_iter().enumerate() {
            match h.join() {
                Ok((carrier, unit, reps, bad)) => {
                    let v = match bad {
                        Some(m) => Verdict::Fail(m),
                        None => Verdict::Pass { nt: true, class: "long hostile strings compiled by 16 threads at once" },
                    };
                    stc.record(&v, stable_hash(&(k, "concurrent-long")), true, || json!({"kind": "repeat", "carrier": carrier, "unit": unit, "count": reps}));
                }
                Err(_) => stc.oracle_bugs.push(format!("thread {k} died")),
            }
        }
    }
    total.merge(stc);
    // dictionary: tokens taken from the code generator's own sources (placeholders, literals)
    let dict = crate::dict::tokens();
    let mut st = Stats::new();
    for carrier in CARRIERS {
        for t in &dict {
            for s in [t.clone(), format!("a{t}"), format!("{t}{t}")] {
                let v = judge(carrier, &s);
                let v = match v {
                    Verdict::Pass { class, .. } => Verdict::Pass { nt: true, class },
                    o => o,
                };
                st.record(&v, stable_hash(&(carrier, &s)), true, || case_json(carrier, &s));
            }
        }
    }
    total.merge(st);
    total.extra.insert("dictionary_tokens".into(), json!(dict.len()));
    total.exhaustive_parts.push("every carrier x every token of a dictionary extracted from the code generator's sources (format placeholders such as {mdt}, emitted literals)".into());

    // numerals of other scripts, plain numbers, case-mapping oddities, per carrier: a string is data
    // whatever Unicode says about its characters
    let mut stn = Stats::new();
    for carrier in CARRIERS {
        for w in ["42", "0", "٣٤", "²", "½", "Ⅷ", "１２", "७", "1e3", "-1", "+5", "#t", "#f", "İ", "ß", "ǅ", "ﬁ", "\u{2028}", "\u{feff}x", "e\u{301}"] {
            let v = judge(carrier, w);
            stn.record(&v, stable_hash(&(carrier, w)), true, || case_json(carrier, w));
        }
    }
    total.merge(stn);
    // look-alikes of the characters that need escaping, per carrier
    let mut stl = Stats::new();
    for carrier in CARRIERS {
        for c in "\"\\~".chars() {
            for l in lookalikes(c) {
                for s in [l.to_string(), format!("/mnt/{l}irts/mdt0"), format!("a{l}{l}b")] {
                    let v = judge(carrier, &s);
                    stl.record(&v, stable_hash(&(carrier, &s)), true, || case_json(carrier, &s));
                }
            }
        }
    }
    total.merge(stl);
    // long strings: lengths around powers of two, a multi-byte character straddling the boundary,
    // hostile characters at the very end (truncation, fixed-size buffers, byte/char offsets)
    let long = run_shards(CARRIERS.len(), |ci| {
        let mut st = Stats::new();
        let carrier = CARRIERS[ci];
        for len in [63usize, 64, 65, 127, 128, 129, 255, 256, 257, 1000, 3000] {
            for (k, mb) in ["é", "日", "😀", "\"", "\\"].iter().enumerate() {
                for shift in 0..3usize {
                    let s = format!("{}{}{}", "a".repeat(len.saturating_sub(1 + shift)), mb, ["", "b", "~\""][(k + shift) % 3]);
                    let v = judge(carrier, &s);
                    st.record(&v, stable_hash(&(carrier, &s)), true, || json!({"kind": "carrier", "carrier": carrier, "string": s, "length": s.len()}));
                }
            }
        }
        st
    });
    total.merge(long);
    total.exhaustive_parts.push("long strings (63..3000 bytes) with a multi-byte or hostile character straddling power-of-two offsets, per carrier".into());

    // whole trees against their neutral twins: requests that a concatenated key would confuse,
    // interaction triples, and random trees whose strings come from the dictionary and the pools
    let tree_json = |t: &E| json!({"kind": "tree", "tree": term::encode_expr(t)});
    let mut twins = crate::combo::concat_twin_trees();
    twins.extend(crate::combo::escape_twin_trees());
    twins.extend(crate::combo::long_prefix_twin_trees());
    let tw = run_shards(16, |shard| {
        let mut st = Stats::new();
        for (i, t) in twins.iter().enumerate().filter(|(i, _)| i % 16 == shard) {
            let v = judge_tree(t);
            st.record(&v, stable_hash(t), true, || tree_json(t));
        }
        st.samples.truncate(1);
        st
    });
    total.merge(tw);
    // a string-carrying test after every kind of context leaf (a formatted print with each directive,
    // formats cut by \\c, every kind of test and action): the literal is the user's string whatever
    // was compiled before it
    let ctxs = crate::combo::context_leaves();
    let after = run_shards(16, |shard| {
        let mut st = Stats::new();
        for (i, c) in ctxs.iter().enumerate().filter(|(i, _)| i % 16 == shard) {
            for s in ["po~ol~~x", "a\"b", "back\\", "100%", "x;y#(z)", "~a~%~"] {
                for subj in [E::T(Tst::Pool(s.into())), E::T(Tst::Xattr(s.into())), E::T(Tst::XattrMatch("user.t".into(), s.into())), E::T(Tst::XattrMatch(s.into(), "v*".into())), E::T(Tst::IName(s.into())), E::A(Act::FPrint(s.into()))] {
                    for t in [E::list(c.clone(), subj.clone()), E::or(E::and(c.clone(), E::T(Tst::False)), subj.clone())] {
                        let v = judge_tree(&t);
                        st.record(&v, stable_hash(&t), true, || tree_json(&t));
                    }
                }
            }
            let _ = i;
        }
        st.samples.truncate(1);
        st
    });
    total.merge(after);
    crate::fuzzrun::replay_policy_trees(&mut total, judge_tree);
    let tr = crate::combo::run_triples(ctx.seed, &crate::combo::supported_kinds(), ctx.tier.pick(64, 4), judge_tree, tree_json);
    total.merge(tr);
    let rt = run_shards(16, |shard| {
        let mut st = Stats::new();
        let tok = || prop::sample::select(crate::dict::tokens());
        let leaf = prop_oneof![
            6 => crate::gen::supported_leaf(),
            1 => tok().prop_map(|t| E::T(Tst::Name(t))),
            1 => tok().prop_map(|t| E::T(Tst::IPath(t))),
            1 => tok().prop_map(|t| E::T(Tst::Pool(t))),
            1 => tok().prop_map(|t| E::A(Act::FPrint(t))),
            1 => (tok(), tok()).prop_map(|(a, b)| E::T(Tst::XattrMatch(a, b))),
        ];
        run_prop(&mut st, ctx.seed, "C04-tree", shard as u64, ctx.tier.pick(20_000u32, 200_000u32) / 16, &crate::gen::related(crate::gen::expr_over(leaf.boxed(), 4, 12, true), true), judge_tree, |t| tree_json(t));
        st
    });
    total.merge(rt);

    let cases = ctx.tier.pick(160_000u32, 1_600_000u32);
    let shards = 16;
    let dict2 = dict.clone();
    let rnd = run_shards(shards, |shard| {
        let dict = dict2.clone();
        let mut st = Stats::new();
        let strat = (
            0usize..CARRIERS.len(),
            prop_oneof![
                3 => proptest::collection::vec(prop::sample::select(ALPHABET.to_vec()), 1..40).prop_map(|v| v.into_iter().collect::<String>()),
                1 => "[ -~]{1,30}",
                1 => "\\PC{1,12}",
                // characters whose low byte is that of '"', '\\', '~', '%', '(' ...
                1 => proptest::collection::vec(prop::sample::select("\"\\~%();#'".chars().flat_map(|c| lookalikes(c)).chain("ab \"\\".chars()).collect::<Vec<char>>()), 1..8).prop_map(|v| v.into_iter().collect::<String>()),
                1 => proptest::collection::vec(prop::sample::select(vec!['\u{301}', '\u{200b}', '\u{feff}', '\u{2028}', '\u{1b}', '\u{85}', '😀', 'e', '"', '\\', '*', ' ']), 1..8).prop_map(|v| v.into_iter().collect::<String>()),
                1 => "[a-z*?\\[\\]\"\\\\]{1,10}",
                1 => proptest::collection::vec(prop_oneof![prop::sample::select(dict.clone()), "[a-z\"\\\\ ]{0,3}"], 1..4).prop_map(|v| v.concat()),
            ],
        );
        run_prop(&mut st, ctx.seed, "C04", shard as u64, cases / shards as u32, &strat, |(c, s)| judge(CARRIERS[*c], s), |(c, s)| case_json(CARRIERS[*c], s));
        st
    });
    total.merge(rnd);
    Report {
        stats: total,
        rule: format!("carriers: -name -iname -path -ipath -pool -xattr, both arguments of -xattr-match, the file of -fprint/-fprint0/-fprintf, literal text of -printf/-fprintf formats, the selector of %Ak/%Ck/%Tk, and the device path given to scheme(); strings over {{\" \\ ~ % ( ) ; # ' LF TAB U+0001 U+007F e-acute CJK a space}} exhaustively to length {max_len} and randomly to length 40 (plus printable-ASCII and arbitrary-Unicode strings); the string reaches the carrier through parse when a quoting style can express it, and by direct construction always. Oracle: independent Guile reader -> (a) exactly two top-level forms (use-modules ...)(let* ...); (b) the program read for s has the same structure as the program for the neutralised string s0 and its string literals differ from it only in the carrier's literal, which decodes to exactly s; (c) literal format text is printed verbatim when the policy is executed. Whole trees (requests that a key made by concatenation would confuse, interaction triples, random trees with dictionary strings) are compared with their neutral twin - every user string replaced by letters, equal strings staying equal and different ones different: same program structure, same size of the destination table, every string of a test a literal of the program. Non-trivial: s contains one of \" \\ ~ ; # ( ) % or a control/non-ASCII character. Distinct: by (carrier, string)."),
        assumptions: vec![
            "the harness's reader implements Guile's string escapes strictly (unknown escape = read error)".into(),
            "format literal text excludes '%' and '\\' (they introduce directives/escapes in find's own language); U+001E (the frame separator) is excluded from user data".into(),
            "%{xattr:NAME} takes letters only, so it cannot carry a hostile character".into(),
        ],
        exhaustive: false,
    }
}
