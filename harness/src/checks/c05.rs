//! C05 — every primary and its argument language is recognised exactly.

use crate::chmod::{self, Clause};
use crate::gen;
use crate::render::{self, Cat, Chooser, Stream, Tok};
use crate::term;
use crate::tree::*;
use crate::util::*;
use lipe_find_parser::parse;
use proptest::prelude::*;
use serde_json::{json, Value};
use std::collections::BTreeSet;

const SPELL: u32 = Cat::ArgSpell as u32 | Cat::Quote as u32;

/// 0: alone, 1: `-true -a <P> -o -false`, 2: `( <P> )`, 3: `! <P>`; members only: 4: `(<P>)`
/// (parentheses without inner blanks: the last argument word ends where the `)` starts),
/// 5: `<P> , -false`, 6: `-name x -depth -threads 3 <P>` (the primary after misplaced option words), 7: `-threads 9 -name x <P>`
fn wrap_text(p: &str, wrap: u8) -> String {
    match wrap {
        0 => p.to_string(),
        1 => format!("-true -a {p} -o -false"),
        2 => format!("( {p} )"),
        3 => format!("! {p}"),
        4 => format!("({p})"),
        5 => format!("{p} , -false"),
        6 => format!("-name x -depth -threads 3 {p}"),
        _ => format!("-threads 9 -name x {p}"),
    }
}
fn wrap_tree(e: E, wrap: u8) -> E {
    match wrap {
        0 | 2 | 4 => e,
        1 => E::or(E::and(E::T(Tst::True), e), E::T(Tst::False)),
        3 => E::not(e),
        5 => E::list(e, E::T(Tst::False)),
        // after option words inside the expression (each of them is -true there)
        6 => E::and(E::and(E::and(E::T(Tst::Name("x".into())), E::T(Tst::True)), E::T(Tst::True)), e),
        // after a leading option and a test (the leading run leaves no node)
        _ => E::and(E::T(Tst::Name("x".into())), e),
    }
}

fn parse_tree(text: &str) -> Result<Result<(bool, Option<u32>, E), String>, String> {
    match catch(|| parse(text)) {
        Err(p) => Err(p),
        Ok(Ok((o, t))) => Ok(Ok((o.depth, o.threads, from_ast(&t)))),
        Ok(Err(e)) => Ok(Err(e.to_string())),
    }
}

fn joined(words: &[Tok]) -> String {
    words.iter().map(|t| t.text.as_str()).collect::<Vec<_>>().join(" ")
}

pub const SHADOW_KEYWORDS: [&str; 36] = [
    "-print", "-print0", "-printf", "-print-file-fid", "-prune", "-fprint", "-fprint0", "-fprintf", "-fls", "-false", "-fstype", "-xattr", "-xattr-match", "-amin", "-anewer",
    "-atime", "-ls", "-links", "-iname", "-inum", "-ipath", "-iregex", "-ilname", "-mmin", "-mtime", "-mnewer", "-mirror-count", "-name", "-nouser", "-nogroup", "-uid", "-user",
    "-true", "-type", "-cmin", "-ctime",
];

// ------------------------------------------------------------------ members

pub fn judge_member(leaf: &E, choices: &[u16], wrap: u8) -> Verdict {
    let mut ch = Stream::new(choices, SPELL);
    let Some(words) = render::primary_words(leaf, &mut ch) else { return Verdict::Skip("leaf has no text form") };
    let kw = words[0].text.clone();
    if wrap == 5 && matches!(leaf, E::G(_)) {
        // the option would be the leading run and ", -false" what is left: not an expression
        return Verdict::Skip("an option word followed by an operator (leading run, then no expression)");
    }
    let text = wrap_text(&joined(&words), wrap);
    let (exp_depth, exp_threads, exp_tree) = match leaf {
        E::G(Glob::Depth) => (true, None, wrap_tree(E::T(Tst::True), wrap)),
        E::G(Glob::Threads(n)) => (false, Some(*n), wrap_tree(E::T(Tst::True), wrap)),
        E::G(_) => return Verdict::Skip("-maxdepth/-mindepth are decided by C13"),
        other => (false, None, wrap_tree(other.clone(), wrap)),
    };
    let (exp_depth, exp_threads) = match wrap {
        6 => (true, exp_threads.or(Some(3))),
        // the last occurrence wins: a -threads written later overrides the leading one
        7 => (exp_depth, exp_threads.or(Some(9))),
        _ => (exp_depth, exp_threads),
    };
    match parse_tree(&text) {
        Err(p) => Verdict::Fail(format!("parse panicked on member {text:?}: {p}")),
        Ok(Err(e)) => Verdict::Fail(format!("{text:?} is '{kw}' with an argument of its language (expected {exp_tree:?}) but was rejected: {e}")),
        Ok(Ok((d, t, tree))) => {
            if tree != exp_tree {
                return Verdict::Fail(format!("{text:?}: expected node {exp_tree:?}, got {tree:?}"));
            }
            if d != exp_depth || t != exp_threads {
                return Verdict::Fail(format!("{text:?}: expected options depth={exp_depth} threads={exp_threads:?}, got depth={d} threads={t:?}"));
            }
            let shadow = SHADOW_KEYWORDS.contains(&kw.as_str());
            let nt = shadow || ch.n_noncanon > 0 || words.len() > 2 || words.iter().skip(1).any(|w| w.text.starts_with(['+', '-', '/', '\'', '"']) || w.text.contains(','))
                || words.iter().skip(1).any(|w| w.text.ends_with(|c: char| c.is_ascii_alphabetic()) && w.text.starts_with(|c: char| c.is_ascii_digit() || c == '+' || c == '-'));
            Verdict::Pass { nt, class: if shadow { "member (keyword of a shadowing family)" } else { "member" } }
        }
    }
}

fn member_json(leaf: &E, choices: &[u16], wrap: u8) -> Value {
    let mut ch = Stream::new(choices, SPELL);
    let text = render::primary_words(leaf, &mut ch).map(|w| wrap_text(&joined(&w), wrap));
    json!({"kind": "member", "leaf": term::encode_expr(leaf), "choices": choices, "wrap": wrap, "input": text})
}

// single-clause symbolic modes (lists are C08's business)
pub fn judge_symbolic(clause: &Clause, prefix: u8, quote: u8, wrap: u8) -> Verdict {
    let (pre, kind) = match prefix {
        0 => ("", PKind::Equal),
        1 => ("-", PKind::AtLeast),
        _ => ("/", PKind::Any),
    };
    let word = format!("{pre}{}", clause.text());
    let word = match quote {
        0 => word,
        1 => format!("'{word}'"),
        _ => format!("\"{word}\""),
    };
    let text = wrap_text(&format!("-perm {word}"), wrap);
    let mode = chmod::apply_all(std::slice::from_ref(clause));
    let exp = wrap_tree(E::T(Tst::Perm(kind, mode)), wrap);
    match parse_tree(&text) {
        Err(p) => Verdict::Fail(format!("parse panicked on {text:?}: {p}")),
        Ok(Err(e)) => Verdict::Fail(format!("{text:?} is a single-clause symbolic mode (expected {exp:?}) but was rejected: {e}")),
        Ok(Ok((_, _, tree))) => {
            if tree != exp {
                Verdict::Fail(format!("{text:?}: expected {exp:?}, got {tree:?}"))
            } else {
                Verdict::Pass { nt: true, class: "member (symbolic mode, one clause)" }
            }
        }
    }
}

// -------------------------------------------------------------- non-members

#[derive(Debug, Clone, Hash, PartialEq, Eq)]
pub struct NonMember {
    pub class: String,
    pub text: String,
    /// for the glued class: the same text with a blank at the glue point
    pub unglued: Option<String>,
    /// has a valid proper prefix (some leading part is in the language)
    pub valid_prefix: bool,
}

pub fn judge_nonmember(c: &NonMember) -> Verdict {
    let class: &'static str = match c.class.as_str() {
        "number junk" => "non-member: number junk",
        "size junk" => "non-member: size junk",
        "time junk" => "non-member: time junk",
        "type junk" => "non-member: type junk",
        "perm junk" => "non-member: perm junk",
        "keyword+suffix" => "non-member: keyword+suffix",
        "missing argument" => "non-member: missing argument",
        "unknown word" => "non-member: unknown word",
        "junk after quoted" => "non-member: junk after quoted string",
        "glued primaries" => "non-member: glued primaries",
        "format junk" => "non-member: bad format directive",
        "operator glued to punctuation" => "non-member: operator word glued to punctuation",
        "keyword edit" => "non-member: keyword with one character edited",
        _ => "non-member: other",
    };
    match parse_tree(&c.text) {
        Err(p) => Verdict::Fail(format!("parse panicked on non-member {:?}: {p}", c.text)),
        Ok(Err(_)) => Verdict::Pass { nt: c.valid_prefix || c.class == "keyword edit", class },
        Ok(Ok((d, t, tree))) => {
            if let Some(u) = &c.unglued {
                // signature of finding F10: accepted exactly as if the blank were there
                if let Ok(Ok(r)) = parse_tree(u) {
                    if r == (d, t, tree.clone()) && Findings::load_cached().is_active("C05", "F10") {
                        return Verdict::Known("F10", "no word boundary is required after a complete primary: glued words such as '-true-false' or '-size 5k-true' are accepted as two primaries".into());
                    }
                }
            }
            Verdict::Fail(format!("{:?} ({}) is outside the argument language / vocabulary but was accepted as {tree:?}", c.text, c.class))
        }
    }
}

pub fn judge_long_word(kw: &str, unit: &str, n: usize, tail: &str, quoted: bool) -> Verdict {
    let mk: fn(String) -> E = match kw {
        "-name" => |s| E::T(Tst::Name(s)),
        "-ipath" => |s| E::T(Tst::IPath(s)),
        "-pool" => |s| E::T(Tst::Pool(s)),
        "-fprint" => |s| E::A(Act::FPrint(s)),
        _ => |s| E::T(Tst::U(UTest::Regex(s))),
    };
    let mut word = unit.repeat(n);
    word.push_str(tail);
    let text = if quoted { format!("{kw} '{word}' -print") } else { format!("{kw} {word} -print") };
    let exp = E::and(mk(word.clone()), E::A(Act::Print));
    let how = if quoted { "quoted" } else { "bare" };
    match parse_tree(&text) {
        Err(p) => Verdict::Fail(format!("parse panicked on {kw} with a {}-character word: {p}", word.chars().count())),
        Ok(Err(e)) => Verdict::Fail(format!("{kw} with a {}-character {how} word ({unit:?} x {n} + {tail:?}) was rejected: {}", word.chars().count(), truncate(&e.to_string(), 200))),
        Ok(Ok((_, _, tree))) => {
            if tree == exp {
                Verdict::Pass { nt: true, class: "member (very long argument word)" }
            } else {
                Verdict::Fail(format!("{kw} with a {}-character {how} word ({unit:?} x {n} + {tail:?}): the node does not carry exactly that word: {}", word.chars().count(), truncate(&format!("{tree:?}"), 300)))
            }
        }
    }
}

fn nonmember_json(c: &NonMember) -> Value {
    json!({"kind": "nonmember", "class": c.class, "input": c.text, "unglued": c.unglued, "valid_prefix": c.valid_prefix})
}

pub fn replay(case: &Value) -> Result<Verdict, String> {
    match case["kind"].as_str() {
        Some("text-member") => {
            let text = case["input"].as_str().ok_or("input")?;
            let exp = term::decode_expr(case["expected"].as_str().ok_or("expected")?)?;
            Ok(match parse_tree(text) {
                Err(p) => Verdict::Fail(format!("parse panicked on {text:?}: {p}")),
                Ok(Err(e)) => Verdict::Fail(format!("{text:?} (expected {exp:?}) was rejected: {e}")),
                Ok(Ok((_, _, tree))) if tree == exp => Verdict::Pass { nt: true, class: "member" },
                Ok(Ok((_, _, tree))) => Verdict::Fail(format!("{text:?}: expected {exp:?}, got {tree:?}")),
            })
        }
        Some("long-word") => Ok(judge_long_word(case["keyword"].as_str().unwrap_or("-name"), case["unit"].as_str().unwrap_or("a"), case["count"].as_u64().unwrap_or(1) as usize, case["tail"].as_str().unwrap_or(""), case["quoted"].as_bool().unwrap_or(false))),
        Some("member") => {
            let leaf = term::decode_expr(case["leaf"].as_str().ok_or("no leaf")?)?;
            let choices: Vec<u16> = case["choices"].as_array().ok_or("no choices")?.iter().map(|v| v.as_u64().unwrap_or(0) as u16).collect();
            Ok(judge_member(&leaf, &choices, case["wrap"].as_u64().unwrap_or(0) as u8))
        }
        Some("symbolic") => {
            let c = Clause {
                who: case["who"].as_str().ok_or("who")?.to_string(),
                op: case["op"].as_str().ok_or("op")?.chars().next().ok_or("op")?,
                perm: case["perm"].as_str().ok_or("perm")?.to_string(),
            };
            Ok(judge_symbolic(&c, case["prefix"].as_u64().unwrap_or(0) as u8, case["quote"].as_u64().unwrap_or(0) as u8, case["wrap"].as_u64().unwrap_or(0) as u8))
        }
        Some("nonmember") => Ok(judge_nonmember(&NonMember {
            class: case["class"].as_str().unwrap_or("").to_string(),
            text: case["input"].as_str().ok_or("no input")?.to_string(),
            unglued: case["unglued"].as_str().map(|s| s.to_string()),
            valid_prefix: case["valid_prefix"].as_bool().unwrap_or(false),
        })),
        _ => Err("unknown case kind".into()),
    }
}

/// All keywords the project names (parser vocabulary, DESIGN.md appendix A).
pub const KEYWORDS: [&str; 63] = [
    "-amin", "-anewer", "-atime", "-cmin", "-cnewer", "-ctime", "-empty", "-executable", "-false", "-fstype", "-gid", "-group", "-ilname", "-iname", "-inum", "-ipath", "-iregex",
    "-links", "-mirror-count", "-mmin", "-mnewer", "-mtime", "-name", "-nouser", "-nogroup", "-path", "-perm", "-pool", "-readable", "-regex", "-samefile", "-size", "-stripe-count",
    "-true", "-type", "-uid", "-user", "-xattr-match", "-xattr", "-writable", "-fls", "-fprintf", "-fprint0", "-fprint", "-ls", "-print-file-fid", "-printf", "-print0", "-print",
    "-prune", "-quit", "-depth", "-maxdepth", "-mindepth", "-threads", "-a", "-and", "-o", "-or", "(", ")", "!", ",",
];

fn has_keyword_prefix(w: &str) -> bool {
    KEYWORDS.iter().any(|k| w.starts_with(k)) || w.starts_with("nope")
}

const NUM_JUNK: [&str; 14] = ["x", "@1", "12x", "1x2", "+", "-", "++5", "+-5", "5+", "5.0", "0x10", "1e3", "１２", "5_0"];
const NUM_JUNK_UNSIGNED: [&str; 6] = ["+5", "-5", "x", "5x", "@", "5.5"];
const SIZE_JUNK: [&str; 10] = ["5kk", "5K", "5m", "5x", "k", "5bc", "+5kB", "5kb", "x5k", "5g"];
const TIME_JUNK: [&str; 9] = ["5x", "5k", "5ss", "5D", "5M", "d", "5dd", "x5", "5H"];
const TYPE_JUNK: [&str; 9] = ["fd", "f,,d", ",f", "x", "F", "f,x", "ff", "1", "f,dd"];
// (forms that chmod(1) itself accepts but the project's documented clause syntax does not —
// "u+", "u=", "+x", "u+x-w" — are deliberately absent: not asserted either way)
const PERM_JUNK: [&str; 18] = [
    "0777x", "u+x,", "777,u+x", "u+xz", "77", "8", "778", "z+x", "u*x", "u+x,,g+r", "-", "/", "a", "rwx", "u+x,777", "0644,", "7", "644u",
];

/// one representative leaf per keyword (arguments are re-drawn by the random part)
pub fn leaf_per_keyword() -> Vec<E> {
    let s = || "foo".to_string();
    let mut v = vec![];
    for w in [Which::A, Which::C, Which::M] {
        v.push(E::T(Tst::Time(w, Cmp::Eq, 5, TUnit::M)));
        v.push(E::T(Tst::Time(w, Cmp::Gt, 5, TUnit::D)));
        v.push(E::T(Tst::Time(w, Cmp::Lt, 7, TUnit::S)));
        v.push(E::T(Tst::Time(w, Cmp::Eq, 7, TUnit::H)));
    }
    for t in [Tst::Empty, Tst::Executable, Tst::Readable, Tst::Writable, Tst::True, Tst::False] {
        v.push(E::T(t));
    }
    for c in [Cmp::Eq, Cmp::Gt, Cmp::Lt] {
        v.push(E::T(Tst::Gid(c, 100)));
        v.push(E::T(Tst::Uid(c, 0)));
        v.push(E::T(Tst::Inum(c, 12345)));
        v.push(E::T(Tst::MirrorCount(c, 2)));
        v.push(E::T(Tst::StripeCount(c, 4)));
        v.push(E::T(Tst::Links(c, 1)));
        for u in SUnit::ALL {
            v.push(E::T(Tst::Size(c, 20, u)));
        }
    }
    v.push(E::T(Tst::Name(s())));
    v.push(E::T(Tst::IName(s())));
    v.push(E::T(Tst::Path(s())));
    v.push(E::T(Tst::IPath(s())));
    v.push(E::T(Tst::Pool(s())));
    v.push(E::T(Tst::Xattr(s())));
    v.push(E::T(Tst::XattrMatch(s(), "bar".into())));
    for t in FT::ALL {
        v.push(E::T(Tst::Type(vec![t])));
    }
    v.push(E::T(Tst::Type(vec![FT::F, FT::D, FT::L])));
    for k in [PKind::Equal, PKind::AtLeast, PKind::Any] {
        v.push(E::T(Tst::Perm(k, 0o644)));
        v.push(E::T(Tst::Perm(k, 0o4755)));
    }
    for u in [
        UTest::AccessNewer(s()),
        UTest::ChangeNewer(s()),
        UTest::ModifyNewer(s()),
        UTest::FsType(s()),
        UTest::Group(s()),
        UTest::User(s()),
        UTest::ILName(s()),
        UTest::IRegex(s()),
        UTest::Regex(s()),
        UTest::Samefile(s()),
        UTest::NoGroup,
        UTest::NoUser,
    ] {
        v.push(E::T(Tst::U(u)));
    }
    let f = vec![FEl::F(Fld::Name), FEl::Lit(",".into()), FEl::F(Fld::UserId), FEl::E(Esc::Newline)];
    for a in [
        Act::Print,
        Act::Print0,
        Act::PrintFid,
        Act::Quit,
        Act::Ls,
        Act::Prune,
        Act::Printf(f.clone()),
        Act::FPrint(s()),
        Act::FPrint0(s()),
        Act::Fls(s()),
        Act::FPrintf(s(), f),
    ] {
        v.push(E::A(a));
    }
    v.push(E::G(Glob::Depth));
    v.push(E::G(Glob::Threads(8)));
    v
}

#[derive(Debug, Clone, Copy, PartialEq)]
enum Lang {
    None,
    Str,
    Str2,
    StrFmt,
    Fmt,
    CmpNum,
    Unsigned,
    Size,
    Time,
    Types,
    Perm,
}

fn lang_of(leaf: &E) -> Lang {
    match leaf {
        E::T(t) => match t {
            Tst::Time(..) => Lang::Time,
            Tst::Gid(..) | Tst::Uid(..) | Tst::Inum(..) | Tst::MirrorCount(..) | Tst::StripeCount(..) | Tst::Links(..) => Lang::CmpNum,
            Tst::Size(..) => Lang::Size,
            Tst::Type(_) => Lang::Types,
            Tst::Perm(..) => Lang::Perm,
            Tst::XattrMatch(..) => Lang::Str2,
            Tst::Name(_) | Tst::IName(_) | Tst::Path(_) | Tst::IPath(_) | Tst::Pool(_) | Tst::Xattr(_) => Lang::Str,
            Tst::U(UTest::NoGroup) | Tst::U(UTest::NoUser) => Lang::None,
            Tst::U(_) => Lang::Str,
            _ => Lang::None,
        },
        E::A(a) => match a {
            Act::Printf(_) => Lang::Fmt,
            Act::FPrintf(..) => Lang::StrFmt,
            Act::FPrint(_) | Act::FPrint0(_) | Act::Fls(_) => Lang::Str,
            _ => Lang::None,
        },
        E::G(Glob::Depth) => Lang::None,
        E::G(_) => Lang::Unsigned,
        _ => Lang::None,
    }
}

/// Systematic corruptions of a valid primary. `k` selects the junk word.
pub fn corruptions(leaf: &E, k: usize, wrap: u8) -> Vec<NonMember> {
    let Some(words) = render::primary_words(leaf, &mut render::Canon) else { return vec![] };
    let kw = words[0].text.clone();
    let lang = lang_of(leaf);
    let mut out = vec![];
    let mk = |class: &str, p: String, valid_prefix: bool, wrap: u8| NonMember { class: class.into(), text: wrap_text(&p, wrap), unglued: None, valid_prefix };
    let junk: Option<(&str, &str)> = match lang {
        Lang::CmpNum => Some(("number junk", NUM_JUNK[k % NUM_JUNK.len()])),
        Lang::Unsigned => Some(("number junk", NUM_JUNK_UNSIGNED[k % NUM_JUNK_UNSIGNED.len()])),
        Lang::Size => Some(("size junk", SIZE_JUNK[k % SIZE_JUNK.len()])),
        Lang::Time => Some(("time junk", TIME_JUNK[k % TIME_JUNK.len()])),
        Lang::Types => Some(("type junk", TYPE_JUNK[k % TYPE_JUNK.len()])),
        Lang::Perm => Some(("perm junk", PERM_JUNK[k % PERM_JUNK.len()])),
        _ => None,
    };
    if let Some((class, j)) = junk {
        let vp = j.starts_with(|c: char| c.is_ascii_digit()) || j.starts_with("u+x") || j.starts_with("f,");
        out.push(mk(class, format!("{kw} {j}"), vp, wrap));
    }
    if matches!(lang, Lang::Fmt | Lang::StrFmt) {
        let bad = ["%q", "abc%", "%p%", "%{fid", "%{nope}", "%1", "x%Qy", "%A"][k % 8];
        let p = if lang == Lang::Fmt { format!("{kw} '{bad}'") } else { format!("{kw} out.txt '{bad}'") };
        out.push(mk("format junk", p, bad.len() > 2, wrap));
    }
    // keyword + suffix
    let suffix = ["q", "z", "_", "X", "1x"][k % 5];
    let bad_kw = format!("{kw}{suffix}");
    if !KEYWORDS.contains(&bad_kw.as_str()) {
        let rest: Vec<&str> = words.iter().skip(1).map(|t| t.text.as_str()).collect();
        let p = if rest.is_empty() { bad_kw } else { format!("{bad_kw} {}", rest.join(" ")) };
        out.push(mk("keyword+suffix", p, true, wrap));
    }
    // missing argument (only where the primary ends the input)
    if words.len() > 1 && (wrap == 0 || wrap == 3) {
        out.push(mk("missing argument", kw.clone(), true, wrap));
        if words.len() > 2 {
            out.push(mk("missing argument", format!("{kw} {}", words[1].text), true, wrap));
        }
    }
    // junk directly after a quoted string
    if matches!(lang, Lang::Str) {
        out.push(mk("junk after quoted", format!("{kw} 'a'b"), true, wrap));
        out.push(mk("junk after quoted", format!("{kw} \"a\"'b'"), true, wrap));
    }
    // two-argument primaries: junk directly after the quoted first argument (with and without a
    // second word), the two arguments written without a blank between them, junk after the second
    if matches!(lang, Lang::Str2 | Lang::StrFmt) {
        for body in ["'a'b", "\"a\"b", "'a'%p", "\"out\"%p\\n", "'a'b c", "\"a\"'b'", "'a''b' c", "a 'b'c", "a \"%p\"x"] {
            out.push(mk("junk after quoted", format!("{kw} {body}"), true, wrap));
        }
    }
    // glued primaries: a complete primary directly followed by the next word, no blank
    if matches!(lang, Lang::None | Lang::CmpNum | Lang::Size | Lang::Time | Lang::Types | Lang::Unsigned) {
        let next = ["-true", "-false", "-print", "-name x", "-uid 1"][k % 5];
        let p = joined(&words);
        out.push(NonMember {
            class: "glued primaries".into(),
            text: wrap_text(&format!("{p}{next}"), wrap),
            unglued: Some(wrap_text(&format!("{p} {next}"), wrap)),
            valid_prefix: true,
        });
    }
    out
}

pub fn run(ctx: &Ctx) -> Report {
    let mut total = Stats::new();
    let leaves = leaf_per_keyword();
    let mut kws: BTreeSet<String> = BTreeSet::new();

    // deterministic sweep: one leaf per keyword x spelling streams x wraps, members and non-members
    let mut st = Stats::new();
    for leaf in &leaves {
        if let Some(w) = render::primary_words(leaf, &mut render::Canon) {
            kws.insert(w[0].text.clone());
        }
        for wrap in 0..8u8 {
            for choices in [vec![], vec![40000u16], vec![0, 40000], vec![25000, 25000, 25000], vec![60000, 60000, 60000, 60000]] {
                let v = judge_member(leaf, &choices, wrap);
                st.record(&v, stable_hash(&(leaf, &choices, wrap)), true, || member_json(leaf, &choices, wrap));
            }
            if wrap >= 4 {
                continue;
            }
            for k in 0..22 {
                for c in corruptions(leaf, k, wrap) {
                    let v = judge_nonmember(&c);
                    st.record(&v, stable_hash(&c), false, || nonmember_json(&c));
                }
            }
        }
    }
    // very long argument words, bare and quoted, with lengths at powers of two (length limits,
    // narrowed length fields); also with punctuation inside a bare word right after such a length
    for kw in ["-name", "-ipath", "-pool", "-fprint", "-regex"] {
        for n in [255usize, 256, 257, 4095, 4096, 4097, 5000, 20000, 65535, 65536, 65537] {
            for (unit, tail) in [("a", ""), ("é", ""), ("a", ",-print"), ("a", "(x"), ("a", "!y"), ("a", ",")] {
                for quoted in [false, true] {
                    let v = judge_long_word(kw, unit, n, tail, quoted);
                    st.record(&v, stable_hash(&(kw, n, unit, tail, quoted)), true, || json!({"kind": "long-word", "keyword": kw, "unit": unit, "count": n, "tail": tail, "quoted": quoted}));
                }
            }
        }
    }
    // octal modes written with many leading zeros (every width 3..40): members like the short spelling
    for v in [0u32, 0o7, 0o644, 0o755, 0o4755, 0o7777, 0o1000] {
        for w in 3..=40usize {
            for (pre, kind) in [("", PKind::Equal), ("-", PKind::AtLeast), ("/", PKind::Any)] {
                let digits = format!("{v:0w$o}");
                let text = format!("-perm {pre}{digits}");
                let exp = E::T(Tst::Perm(kind, v));
                let vd = match parse_tree(&text) {
                    Err(p) => Verdict::Fail(format!("parse panicked on {text:?}: {p}")),
                    Ok(Err(e)) => Verdict::Fail(format!("{text:?} is an octal mode written with {} digits (expected {exp:?}) but was rejected: {e}", digits.len())),
                    Ok(Ok((_, _, tree))) if tree == exp => Verdict::Pass { nt: w > 4, class: "member (octal mode, zero-padded)" },
                    Ok(Ok((_, _, tree))) => Verdict::Fail(format!("{text:?}: expected {exp:?}, got {tree:?}")),
                };
                st.record(&vd, stable_hash(&text), true, || json!({"kind": "text-member", "input": text, "expected": term::encode_expr(&exp)}));
            }
        }
    }
    // every single-character edit of every keyword (a neighbouring spelling character in its place,
    // one character dropped, doubled, two swapped, case flipped) that is not itself a keyword is no
    // word of the vocabulary: the whole input is an error
    for leaf in &leaves {
        let Some(words) = render::primary_words(leaf, &mut render::Canon) else { continue };
        let kw: Vec<char> = words[0].text.chars().collect();
        let rest: Vec<&str> = words.iter().skip(1).map(|t| t.text.as_str()).collect();
        let mut variants: BTreeSet<String> = BTreeSet::new();
        for i in 1..kw.len() {
            for a in ['_', '-', '.', ':', '0', 'x'] {
                if a != kw[i] {
                    let mut v = kw.clone();
                    v[i] = a;
                    variants.insert(v.iter().collect());
                }
            }
            let mut v = kw.clone();
            v.remove(i);
            variants.insert(v.iter().collect());
            let mut v = kw.clone();
            v.insert(i, kw[i]);
            variants.insert(v.iter().collect());
            if i + 1 < kw.len() {
                let mut v = kw.clone();
                v.swap(i, i + 1);
                variants.insert(v.iter().collect());
            }
            let mut v = kw.clone();
            v[i] = if kw[i].is_ascii_lowercase() { kw[i].to_ascii_uppercase() } else { kw[i].to_ascii_lowercase() };
            variants.insert(v.iter().collect());
        }
        for bad_kw in variants {
            if bad_kw.len() < 2 || KEYWORDS.contains(&bad_kw.as_str()) || bad_kw == words[0].text {
                continue;
            }
            for wrap in [0u8, 2] {
                let p = if rest.is_empty() { bad_kw.clone() } else { format!("{bad_kw} {}", rest.join(" ")) };
                let c = NonMember { class: "keyword edit".into(), text: wrap_text(&p, wrap), unglued: None, valid_prefix: false };
                let v = judge_nonmember(&c);
                st.record(&v, stable_hash(&c), true, || nonmember_json(&c));
            }
        }
    }
    // an operator word is only an operator when a blank or the end of the input follows it: glued to
    // punctuation it is no word of the vocabulary at all
    for op in ["-a", "-and", "-o", "-or"] {
        for (text, vp) in [
            (format!("-true {op}( -false )"), true),
            (format!("-true {op}(-false)"), true),
            (format!("-true {op}!-false"), true),
            (format!("-true {op}! -false"), true),
            (format!("-true {op}, -false"), true),
            (format!("( -true {op}) -false"), true),
            (format!("-name x {op}( -name y ) -print"), true),
        ] {
            let c = NonMember { class: "operator glued to punctuation".into(), text, unglued: None, valid_prefix: vp };
            let v = judge_nonmember(&c);
            st.record(&v, stable_hash(&c), true, || nonmember_json(&c));
        }
    }
    // all 315 single symbolic clauses x prefixes x quoting x wraps
    for c in chmod::all_clauses() {
        for prefix in 0..3u8 {
            for (quote, wrap) in [(0u8, 0u8), (1, 1), (2, 2), (0, 3)] {
                let v = judge_symbolic(&c, prefix, quote, wrap);
                st.record(&v, stable_hash(&(&c, prefix, quote, wrap)), true, || json!({"kind":"symbolic","who":c.who,"op":c.op.to_string(),"perm":c.perm,"prefix":prefix,"quote":quote,"wrap":wrap,"input":format!("-perm {}{}", ["","-","/"][prefix as usize], c.text())}));
            }
        }
    }
    total.merge(st);
    total.exhaustive_parts.push("one representative per keyword x 4 embeddings x 5 spelling streams; every corruption operator x 22 junk words; all 315 single symbolic clauses x 3 prefixes".into());
    total.extra.insert("keywords_covered".into(), json!(kws.len()));
    total.extra.insert("keywords".into(), json!(kws));

    // random members / non-members over the whole vocabulary
    let cases = ctx.tier.pick(400_000u32, 4_000_000u32);
    let shards = 16;
    let rnd = run_shards(shards, |shard| {
        let mut st = Stats::new();
        poison_parses(40);
        let leaf = prop_oneof![20 => gen::text_leaf(), 1 => Just(E::G(Glob::Depth)), 1 => gen::count_u32().prop_map(|n| E::G(Glob::Threads(n)))];
        let strat = (leaf.clone(), gen::choice_stream(8), 0u8..8);
        run_prop(&mut st, ctx.seed, "C05-member", shard as u64, cases / shards as u32, &strat, |(l, c, w)| judge_member(l, c, *w), |(l, c, w)| member_json(l, c, *w));
        let strat = (leaf, 0usize..1000, 0u8..4, 0usize..8).prop_filter_map("no corruption applies", |(l, k, w, pickc)| {
            let cs = corruptions(&l, k, w);
            if cs.is_empty() {
                None
            } else {
                let i = pickc % cs.len();
                Some(cs[i].clone())
            }
        });
        run_prop(&mut st, ctx.seed, "C05-nonmember", shard as u64, cases / shards as u32, &strat, judge_nonmember, nonmember_json);
        // unknown words with no keyword as a prefix
        let strat = (prop_oneof!["-[a-z][a-z-]{0,13}", "[a-z]{1,6}", "-[A-Z][a-z]{1,5}", "--[a-z]{1,5}"], 0u8..3, any::<bool>())
            .prop_filter("has a keyword prefix", |(w, _, _)| !has_keyword_prefix(w))
            .prop_map(|(w, pos, arg)| {
                let w2 = if arg { format!("{w} foo") } else { w };
                let text = match pos {
                    0 => w2,
                    1 => format!("-true {w2}"),
                    _ => format!("-name x -o {w2} -print"),
                };
                NonMember { class: "unknown word".into(), text, unglued: None, valid_prefix: pos > 0 }
            });
        run_prop(&mut st, ctx.seed, "C05-unknown", shard as u64, (cases / 4) / shards as u32, &strat, judge_nonmember, nonmember_json);
        st
    });
    total.merge(rnd);

    Report {
        stats: total,
        rule: "members: every keyword of the vocabulary (63 words incl. operators/options) with generated arguments of its documented language (signed counts, sizes/times with every unit and the default, type lists, octal modes in 3/4/6 digits, single-clause symbolic modes, bare/quoted words, format strings), alone, as '-true -a P -o -false', '( P )', '! P', '(P)', 'P , -false' and '-name x -depth -threads 3 P' -> parse must be Ok and the tree must equal the node built on the specification side. Non-members: per language a table of junk words, keyword+suffix, missing argument at end of input, junk after a quoted string, a bad format directive, two primaries glued without a blank, unknown words with no keyword prefix -> must be Err (any Ok is a failure: nothing may be partly used). Non-trivial: keyword of a shadowing family, or argument with sign/unit/quote/list/non-canonical spelling, or a non-member with a valid proper prefix. Distinct: by (leaf, spelling choices, embedding) resp. by input text.".into(),
        assumptions: vec![
            "glued punctuation ('(-true)', '!-true', '-true,-false') is not asserted either way (the repository's own tests rely on self-delimiting parentheses)".into(),
            "-maxdepth/-mindepth are decided by C13; multi-clause symbolic modes by C08; numeric range by C07".into(),
        ],
        exhaustive: false,
    }
}
