//! C06 — equivalent spellings give identical results (metamorphic).

use crate::gen;
use crate::render::{self, Cat, Stream, ALL_LAYOUT};
use crate::term;
use crate::tree::*;
use crate::util::*;
use lipe_find_parser::parse;
use proptest::prelude::*;
use serde_json::{json, Value};

type Parsed = Result<(String, E), String>;

pub fn parse_pair(text: &str) -> Result<Parsed, String> {
    match catch(|| parse(text)) {
        Err(p) => Err(p),
        Ok(Ok((o, t))) => Ok(Ok((format!("{o:?}"), from_ast(&t)))),
        Ok(Err(e)) => Ok(Err(e.to_string())),
    }
}

pub fn judge(tree: &E, choices: &[u16]) -> Verdict {
    let Some(canon) = render::canonical(tree) else { return Verdict::Skip("tree has no text form") };
    let mut ch = Stream::new(choices, ALL_LAYOUT | Cat::Glue as u32);
    let Some(var) = render::variant(tree, &mut ch) else { return Verdict::Skip("tree has no text form") };
    let base = match parse_pair(&canon) {
        Err(p) => return Verdict::Fail(format!("parse panicked on canonical spelling {canon:?}: {p}")),
        Ok(Err(e)) => {
            // both spellings rejected: not this property's business; one accepted: they differ
            return match parse_pair(&var) {
                Ok(Ok(g)) => Verdict::Fail(format!("equivalent spellings disagree: {var:?} parses to {:?} but {canon:?} is rejected: {e}", g.1)),
                _ => Verdict::Skip("both spellings rejected (C05/C03 decide that)"),
            };
        }
        Ok(Ok(b)) => b,
    };
    let got = match parse_pair(&var) {
        Err(p) => return Verdict::Fail(format!("parse panicked on variant {var:?}: {p}")),
        Ok(Err(_)) if ch.glued => return Verdict::Skip("a spelling without blank next to punctuation was rejected (not asserted either way)"),
        Ok(Err(e)) => return Verdict::Fail(format!("canonical {canon:?} parses but its equivalent spelling {var:?} is rejected: {e}")),
        Ok(Ok(g)) => g,
    };
    if got != base {
        return Verdict::Fail(format!("spellings differ: {canon:?} -> {:?} / {:?} but {var:?} -> {:?} / {:?}", base.0, base.1, got.0, got.1));
    }
    // the same expression with other blanks inside its string arguments, parsed right afterwards:
    // it must give *its own* tree (nothing may be remembered from the previous call)
    let sib = other_inner_blanks(tree);
    if &sib != tree {
        if let Some(st) = render::canonical(&sib) {
            match parse_pair(&st) {
                Ok(Ok((_, t))) if t != options_as_true(&sib) => return Verdict::Fail(format!("after parsing {var:?}, the input {st:?} gives {t:?} instead of {sib:?}")),
                Err(p) => return Verdict::Fail(format!("parse panicked on {st:?}: {p}")),
                _ => {}
            }
        }
    }
    let tight = ch.used & (Cat::Paren as u32) != 0 && var.contains("(-") || var.contains("((") || var.contains("))");
    let nt = ch.dims() >= 2 || ch.blank_after_bare || tight;
    let class = if var == canon {
        "variant identical to canonical"
    } else if ch.blank_after_bare {
        "non-space blank after bare argument"
    } else if ch.dims() >= 2 {
        "differs in >=2 dimensions"
    } else {
        "differs in 1 dimension"
    };
    Verdict::Pass { nt, class }
}

fn options_as_true(e: &E) -> E {
    match e {
        E::G(_) => E::T(Tst::True),
        E::Not(a) => E::not(options_as_true(a)),
        E::Prec(a) => E::prec(options_as_true(a)),
        E::And(a, b) => E::and(options_as_true(a), options_as_true(b)),
        E::Or(a, b) => E::or(options_as_true(a), options_as_true(b)),
        E::List(a, b) => E::list(options_as_true(a), options_as_true(b)),
        o => o.clone(),
    }
}

/// every string argument that contains a blank gets that blank run changed (space <-> two spaces, tab)
fn other_inner_blanks(e: &E) -> E {
    let f = |s: &String| -> String {
        if s.contains("  ") {
            s.replace("  ", " ")
        } else if s.contains(' ') {
            s.replace(' ', "  ")
        } else if s.contains('\t') {
            s.replace('\t', " ")
        } else {
            s.clone()
        }
    };
    match e {
        E::Not(a) => E::not(other_inner_blanks(a)),
        E::Prec(a) => E::prec(other_inner_blanks(a)),
        E::And(a, b) => E::and(other_inner_blanks(a), other_inner_blanks(b)),
        E::Or(a, b) => E::or(other_inner_blanks(a), other_inner_blanks(b)),
        E::List(a, b) => E::list(other_inner_blanks(a), other_inner_blanks(b)),
        E::T(Tst::Name(s)) => E::T(Tst::Name(f(s))),
        E::T(Tst::IName(s)) => E::T(Tst::IName(f(s))),
        E::T(Tst::Path(s)) => E::T(Tst::Path(f(s))),
        E::T(Tst::Pool(s)) => E::T(Tst::Pool(f(s))),
        E::T(Tst::Xattr(s)) => E::T(Tst::Xattr(f(s))),
        E::T(Tst::XattrMatch(a, b)) => E::T(Tst::XattrMatch(f(a), f(b))),
        E::A(Act::FPrint(s)) => E::A(Act::FPrint(f(s))),
        E::A(Act::Printf(fm)) => E::A(Act::Printf(fm.iter().map(|el| if let FEl::Lit(l) = el { FEl::Lit(f(l)) } else { el.clone() }).collect())),
        o => o.clone(),
    }
}

fn case_json(tree: &E, choices: &[u16]) -> Value {
    let mut ch = Stream::new(choices, ALL_LAYOUT | Cat::Glue as u32);
    json!({"kind": "variant", "tree": term::encode_expr(tree), "choices": choices,
           "canonical": render::canonical(tree), "variant": render::variant(tree, &mut ch)})
}

pub fn judge_blank(s: &str) -> Verdict {
    let base = match parse_pair("-true") {
        Ok(Ok(b)) => b,
        other => return Verdict::Fail(format!("'-true' does not parse: {other:?}")),
    };
    match parse_pair(s) {
        Err(p) => Verdict::Fail(format!("parse panicked on blank input {s:?}: {p}")),
        Ok(Err(e)) => Verdict::Fail(format!("blank input {s:?} rejected ({e}); it must mean -true")),
        Ok(Ok(g)) => {
            if g == base {
                Verdict::Pass { nt: s.chars().any(|c| c != ' '), class: "blank input" }
            } else {
                Verdict::Fail(format!("blank input {s:?} gives {g:?}, -true gives {base:?}"))
            }
        }
    }
}

pub fn replay(case: &Value) -> Result<Verdict, String> {
    if case["kind"] == "bare-codepoint" {
        let b = case["input"].as_str().ok_or("input")?.to_string();
        // the quoted twin: quotes around the second word
        let mut parts = b.splitn(3, ' ');
        let (kw, word, rest) = (parts.next().unwrap_or(""), parts.next().unwrap_or(""), parts.next().unwrap_or(""));
        let q = format!("{kw} '{word}' {rest}");
        return Ok(match (parse_pair(&b), parse_pair(&q)) {
            (Ok(Ok(x)), Ok(Ok(y))) if x == y => Verdict::Pass { nt: true, class: "bare argument with every code point: same as quoted" },
            (x, y) => Verdict::Fail(format!("{b:?}: bare -> {x:?}, quoted -> {y:?}")),
        });
    }
    match case["kind"].as_str() {
        Some("blank") => Ok(judge_blank(case["input"].as_str().ok_or("no input")?)),
        _ => {
            let tree = term::decode_expr(case["tree"].as_str().ok_or("no tree")?)?;
            let choices: Vec<u16> = case["choices"].as_array().ok_or("no choices")?.iter().map(|v| v.as_u64().unwrap_or(0) as u16).collect();
            Ok(judge(&tree, &choices))
        }
    }
}

pub fn run(ctx: &Ctx) -> Report {
    let mut total = Stats::new();
    // blank inputs, exhaustive to length 4 over the four blanks
    let blanks = [' ', '\t', '\r', '\n'];
    let mut st = Stats::new();
    let mut all = vec![String::new()];
    let mut frontier = vec![String::new()];
    for _ in 0..ctx.tier.pick(4, 6) {
        let mut next = vec![];
        for f in &frontier {
            for b in blanks {
                next.push(format!("{f}{b}"));
            }
        }
        all.extend(next.iter().cloned());
        frontier = next;
    }
    for s in &all {
        let v = judge_blank(s);
        st.record(&v, stable_hash(s), true, || json!({"kind": "blank", "input": s}));
    }
    total.merge(st);
    total.exhaustive_parts.push("all blank strings up to length 4 (quick) / 6 (thorough) over {space, tab, CR, LF}".into());

    // long flat chains: redundant parentheses around a leading part must not change the tree
    let mut stl = Stats::new();
    for n in [12usize, 255, 256, 257, 300] {
        for (op, sp) in [(" -a ", "and"), (" ", "implicit"), (" -o ", "or"), (" , ", "list")] {
            let words: Vec<String> = (0..n).map(|i| if i % 3 == 0 { "-true".to_string() } else { format!("-uid {i}") }).collect();
            let flat = words.join(op);
            for k in [1usize, 2, n / 2, n - 1] {
                let grouped = format!("( {} ){}{}", words[..k].join(op), op, words[k..].join(op));
                let v = match (parse_pair(&flat), parse_pair(&grouped)) {
                    (Ok(Ok(a)), Ok(Ok(b))) if a == b => Verdict::Pass { nt: true, class: "long chain: parentheses around a leading part" },
                    (Ok(Ok(_)), Ok(Ok(_))) => Verdict::Fail(format!("chain of {n} operands joined by {sp}: parentheses around the first {k} change the tree")),
                    (a, b) => Verdict::Fail(format!("chain of {n} operands joined by {sp}: flat -> {}, grouped -> {}", if matches!(a, Ok(Ok(_))) { "ok" } else { "rejected" }, if matches!(b, Ok(Ok(_))) { "ok" } else { "rejected" })),
                };
                stl.record(&v, stable_hash(&(n, sp, k)), true, || json!({"kind": "long-chain", "operands": n, "operator": sp, "grouped_prefix": k}));
            }
        }
    }
    total.merge(stl);
    // every code point of the basic plane (and a stride through the others) inside a bare argument:
    // the word is the same as when it is written between quotes (only the four blanks and ')' end a
    // bare word - not a character that merely shares their low byte or that Unicode calls a space)
    let cps: Vec<u32> = (1u32..0x1_1000).chain((0x1_1000u32..=0x10_FFFF).step_by(97)).collect();
    let bare = run_shards(16, |shard| {
        let mut st = Stats::new();
        for (i, cp) in cps.iter().enumerate() {
            if i % 16 != shard {
                continue;
            }
            let Some(c) = char::from_u32(*cp) else { continue };
            if matches!(c, ' ' | '\t' | '\r' | '\n' | ')' | '\'' | '"') {
                continue;
            }
            let word = format!("a{c}b");
            let kw = ["-name", "-ipath", "-pool", "-fprint", "-regex"][i % 5];
            let (b, q) = (format!("{kw} {word} -print"), format!("{kw} '{word}' -print"));
            let v = match (parse_pair(&b), parse_pair(&q)) {
                (Ok(Ok(x)), Ok(Ok(y))) if x == y => Verdict::Pass { nt: !c.is_ascii(), class: "bare argument with every code point: same as quoted" },
                (Ok(Ok(x)), Ok(Ok(y))) => Verdict::Fail(format!("{b:?} (U+{cp:04X} inside a bare word) gives {x:?}, the quoted spelling {q:?} gives {y:?}")),
                (x, y) => Verdict::Fail(format!("{b:?} (U+{cp:04X} inside a bare word): bare -> {}, quoted -> {}", if matches!(x, Ok(Ok(_))) { "accepted".to_string() } else { format!("{x:?}") }, if matches!(y, Ok(Ok(_))) { "accepted".to_string() } else { format!("{y:?}") })),
            };
            st.record(&v, stable_hash(&b), true, || json!({"kind": "bare-codepoint", "code_point": cp, "input": b}));
        }
        st.samples.truncate(1);
        st
    });
    total.merge(bare);
    // interaction triples: three leaf kinds (every kind of primary, options too) under every operator
    // skeleton, each in a layout variant derived from the tree
    let mut kinds = crate::combo::all_kinds();
    kinds.push(E::G(Glob::Depth));
    kinds.push(E::G(Glob::Threads(4)));
    let choices_of = |t: &E| -> Vec<u16> { (0..48u32).map(|i| (stable_hash(&(t, i)) & 0xffff) as u16).collect() };
    let guard = |t: &E| if matches!(t.leaves().first(), Some(E::G(_))) { E::and(E::T(Tst::Name("first".into())), t.clone()) } else { t.clone() };
    let tr = crate::combo::run_triples(ctx.seed, &kinds, ctx.tier.pick(64, 4), |t| { let t = guard(t); judge(&t, &choices_of(&t)) }, |t| { let t = guard(t); case_json(&t, &choices_of(&t)) });
    total.merge(tr);
    let cases = ctx.tier.pick(400_000u32, 4_000_000u32);
    let shards = 16;
    let rnd = run_shards(shards, |shard| {
        let mut st = Stats::new();
        // rejected inputs first, on the same thread (leaked parser state must not matter)
        poison_parses(40);
        // scan-wide options may also stand inside the expression (never as its first word: that
        // would make them part of the leading run); their spelling variants must agree as well
        let leaf = prop_oneof![14 => gen::text_leaf(), 1 => Just(E::G(Glob::Depth)), 1 => gen::count_u32().prop_map(|n| E::G(Glob::Threads(n)))];
        let strat = (gen::related(gen::expr_over(leaf.boxed(), 6, 24, true), true), gen::choice_stream(80)).prop_map(|(t, c)| {
            if matches!(t.leaves().first(), Some(E::G(_))) {
                (E::and(E::T(Tst::Name("first".into())), t), c)
            } else {
                (t, c)
            }
        });
        run_prop(&mut st, ctx.seed, "C06", shard as u64, cases / shards as u32, &strat, |(t, c)| judge(t, c), |(t, c)| case_json(t, c));
        st
    });
    total.merge(rnd);
    // coverage-guided part (structure-aware target `spell`, oracles of C06 and C13 inside the target):
    // replay of the committed corpus (quick), libFuzzer campaign (thorough)
    crate::fuzzrun::replay_corpus("spell", &mut total);
    if ctx.tier == Tier::Thorough {
        crate::fuzzrun::campaign("spell", ctx.seed, 100_000, 8, 400, &mut total);
    }
    Report {
        stats: total,
        rule: "random trees (depth<=6) over the whole keyword vocabulary, printed canonically (single blanks, -a, -o, minimal parentheses, first permitted quoting style) and through a variant grammar driven by a generated choice stream: separator per gap from {' ', '  ', TAB, LF, CR, CRLF, ' TAB ', 'LF '}, leading/trailing blanks, AND as -a/implicit/-and, OR as -o/-or, redundant parentheses '( X )' or '(X)' per operand, bare/single/double quoting per word-like argument when the value permits. Oracle (metamorphic): the variant parses and gives the same (options Debug, tree) as the canonical spelling; blank input == -true. Non-trivial: variant differs from canonical in >=2 dimensions, or a non-space blank directly follows a bare argument, or tight parentheses are used. Distinct: by (tree, choice stream).".into(),
        assumptions: vec!["quoting is varied only on arguments whose language is 'word or quoted string' (strings, file names, -perm, formats), not on numbers/sizes/times/types".into()],
        exhaustive: false,
    }
}
