//! C07 — numbers are exact or rejected; nothing wraps, truncates or saturates.

use crate::sx::{self, Sx};
use crate::tree::*;
use crate::util::*;
use lipe_find_parser::{compile, parse};
use proptest::prelude::*;
use serde_json::{json, Value};

#[derive(Debug, Clone, Copy, PartialEq, Eq, Hash)]
pub enum Carrier {
    Uid,
    Gid,
    Inum,
    MirrorCount,
    StripeCount,
    Links,
    Threads,
    MaxDepth,
    MinDepth,
    Size(Option<SUnit>),
    /// (which timestamp, -Xmin (true) or -Xtime (false), explicit unit)
    Time(Which, bool, Option<TUnit>),
}

pub fn carriers() -> Vec<Carrier> {
    let mut v = vec![Carrier::Uid, Carrier::Gid, Carrier::Inum, Carrier::MirrorCount, Carrier::StripeCount, Carrier::Links, Carrier::Threads, Carrier::MaxDepth, Carrier::MinDepth, Carrier::Size(None)];
    for u in SUnit::ALL {
        v.push(Carrier::Size(Some(u)));
    }
    for w in [Which::A, Which::C, Which::M] {
        for min in [true, false] {
            v.push(Carrier::Time(w, min, None));
            for u in TUnit::ALL {
                v.push(Carrier::Time(w, min, Some(u)));
            }
        }
    }
    v
}

impl Carrier {
    fn keyword(&self) -> String {
        match self {
            Carrier::Uid => "-uid".into(),
            Carrier::Gid => "-gid".into(),
            Carrier::Inum => "-inum".into(),
            Carrier::MirrorCount => "-mirror-count".into(),
            Carrier::StripeCount => "-stripe-count".into(),
            Carrier::Links => "-links".into(),
            Carrier::Threads => "-threads".into(),
            Carrier::MaxDepth => "-maxdepth".into(),
            Carrier::MinDepth => "-mindepth".into(),
            Carrier::Size(_) => "-size".into(),
            Carrier::Time(w, min, _) => {
                let l = match w {
                    Which::A => 'a',
                    Which::C => 'c',
                    Which::M => 'm',
                };
                format!("-{l}{}", if *min { "min" } else { "time" })
            }
        }
    }
    fn suffix(&self) -> String {
        match self {
            Carrier::Size(Some(u)) => u.letter().to_string(),
            Carrier::Time(_, _, Some(u)) => u.letter().to_string(),
            _ => String::new(),
        }
    }
    fn signed(&self) -> bool {
        !matches!(self, Carrier::Threads | Carrier::MaxDepth | Carrier::MinDepth)
    }
    /// range of the field
    fn field_max(&self) -> u128 {
        match self {
            Carrier::Uid | Carrier::Gid | Carrier::Inum | Carrier::MirrorCount | Carrier::StripeCount | Carrier::Threads | Carrier::MaxDepth | Carrier::MinDepth => u32::MAX as u128,
            _ => u64::MAX as u128,
        }
    }
    /// multiplier applied before the constant is emitted
    fn unit(&self) -> u128 {
        match self {
            Carrier::Size(None) => 512,
            Carrier::Size(Some(u)) => u.bytes() as u128,
            _ => 1,
        }
    }
    fn json(&self) -> Value {
        json!(format!("{self:?}"))
    }
}

fn parse_carrier(s: &str) -> Option<Carrier> {
    carriers().into_iter().find(|c| format!("{c:?}") == s)
}

#[derive(Debug, Clone, PartialEq, Eq, Hash)]
pub struct Case {
    pub carrier: Carrier,
    /// '+', '-' or ' ' (none)
    pub sign: char,
    /// decimal digits as written (may have leading zeros)
    pub digits: String,
}

fn value_of(digits: &str) -> Option<u128> {
    let t = digits.trim_start_matches('0');
    if t.is_empty() {
        return Some(0);
    }
    if t.len() > 38 {
        return None;
    }
    t.parse::<u128>().ok()
}

/// the thread count is an option: it is given next to expressions of every output mode and with
/// -quit (the emitted constant must not depend on them)
const THREAD_CONTEXTS: [&str; 9] = ["", " -print0", " -name x -print -quit", " -fprint f", " -printf %p", " -fprint0 g -print", " -fprintf f %p\\n", " -printf %p\\n", " ( -name a -o -print0 ) -quit"];
thread_local! {
    /// overrides the context the thread-count carrier is written in (None: chosen from the digits)
    static THREAD_CONTEXT: std::cell::Cell<Option<usize>> = std::cell::Cell::new(None);
}

fn input_of(c: &Case) -> String {
    let sign = if c.sign == ' ' { String::new() } else { c.sign.to_string() };
    let ctx = if c.carrier == Carrier::Threads { THREAD_CONTEXTS[THREAD_CONTEXT.with(|t| t.get()).unwrap_or(c.digits.len() + c.digits.bytes().map(|b| b as usize).sum::<usize>()) % THREAD_CONTEXTS.len()] } else { "" };
    format!("{} {}{}{}{}", c.carrier.keyword(), sign, c.digits, c.carrier.suffix(), ctx)
}

fn expected_leaf(c: &Case, v: u128) -> Option<E> {
    let cmp = match c.sign {
        '+' => Cmp::Gt,
        '-' => Cmp::Lt,
        _ => Cmp::Eq,
    };
    Some(match c.carrier {
        Carrier::Uid => E::T(Tst::Uid(cmp, v as u32)),
        Carrier::Gid => E::T(Tst::Gid(cmp, v as u32)),
        Carrier::Inum => E::T(Tst::Inum(cmp, v as u32)),
        Carrier::MirrorCount => E::T(Tst::MirrorCount(cmp, v as u32)),
        Carrier::StripeCount => E::T(Tst::StripeCount(cmp, v as u32)),
        Carrier::Links => E::T(Tst::Links(cmp, v as u64)),
        Carrier::Size(u) => E::T(Tst::Size(cmp, v as u64, u.unwrap_or(SUnit::B))),
        Carrier::Time(w, min, u) => E::T(Tst::Time(w, cmp, v as u64, u.unwrap_or(if min { TUnit::M } else { TUnit::D }))),
        Carrier::Threads => E::T(Tst::True),
        Carrier::MaxDepth | Carrier::MinDepth => return None,
    })
}

/// the comparison forms `(op x N)` inside the per-file thunk of the scan call
fn comparisons(forms: &[Sx]) -> (Vec<(String, String)>, Option<Sx>) {
    let mut cmps = vec![];
    let mut threads = None;
    for f in forms {
        f.walk(&mut |n| {
            if n.head() == Some("lipe-scan") {
                if let Some(l) = n.list() {
                    threads = l.get(5).cloned();
                    if let Some(thunk) = l.get(3) {
                        thunk.walk(&mut |m| {
                            if let Some(l) = m.list() {
                                if l.len() == 3 {
                                    if let (Some(op), Sx::Int(_, d)) = (l[0].sym(), &l[2]) {
                                        if matches!(op, "=" | "<" | ">") {
                                            cmps.push((op.to_string(), d.clone()));
                                        }
                                    }
                                }
                            }
                        });
                    }
                }
            }
        });
    }
    (cmps, threads)
}

/// every integer literal inside the per-file thunk of the scan call, in textual order
fn integer_literals(forms: &[Sx]) -> Vec<String> {
    let mut out = vec![];
    for f in forms {
        f.walk(&mut |n| {
            if n.head() == Some("lipe-scan") {
                if let Some(thunk) = n.list().and_then(|l| l.get(3)) {
                    thunk.walk(&mut |m| {
                        if let Sx::Int(_, d) = m {
                            out.push(d.clone());
                        }
                    });
                }
            }
        });
    }
    out
}

pub fn judge(c: &Case) -> Verdict {
    if c.digits.is_empty() || !c.digits.chars().all(|d| d.is_ascii_digit()) {
        return Verdict::Skip("not a digit string");
    }
    if c.sign != ' ' && !c.carrier.signed() {
        return Verdict::Skip("carrier takes no sign");
    }
    let text = input_of(c);
    let v = value_of(&c.digits);
    let in_range = match v {
        Some(v) => v <= c.carrier.field_max() && v.checked_mul(c.carrier.unit()).map(|p| p <= u64::MAX as u128).unwrap_or(false),
        None => false,
    };
    let lz = c.digits.len() > 1 && c.digits.starts_with('0');
    let near = |v: u128| {
        let mut bs: Vec<u128> = vec![0, 1 << 31, 1 << 32, 1 << 63, 1 << 64, (1u128 << 64) / c.carrier.unit()];
        bs.push((u32::MAX as u128) + 1);
        bs.iter().any(|b| v + 2 >= *b && v <= b + 2)
    };
    let nt = lz || c.digits.len() >= 20 || v.map(near).unwrap_or(true);
    let parsed = match catch(|| parse(&text)) {
        Ok(r) => r,
        Err(p) => return Verdict::Fail(format!("parse panicked on {text:?} (a panic is not a rejection): {p}")),
    };
    if matches!(c.carrier, Carrier::MaxDepth | Carrier::MinDepth) {
        // C13 decides what happens to in-range values; beyond the field the input must be rejected
        return match (in_range, parsed) {
            (false, Ok((o, _))) => Verdict::Fail(format!("{text:?}: value beyond the range of its field accepted; options {o:?}")),
            (false, Err(_)) => Verdict::Pass { nt, class: "out of range: rejected" },
            (true, _) => Verdict::Skip("-maxdepth/-mindepth in range (C13)"),
        };
    }
    match (in_range, parsed) {
        (false, Err(_)) => Verdict::Pass { nt, class: "out of range: rejected by parse" },
        (false, Ok((opts, tree))) => {
            // compile may still reject it; any emitted number is a failure
            match catch(|| compile(&tree, &opts).map(|c| c.scheme("/"))) {
                Err(p) => Verdict::Fail(format!("{text:?} (value beyond range) parsed and then compile panicked: {p}")),
                Ok(Err(_)) => Verdict::Pass { nt, class: "out of range: rejected by compile" },
                Ok(Ok(prog)) => Verdict::Fail(format!("{text:?}: value beyond the range of its field was accepted; tree {:?}; program:\n{prog}", from_ast(&tree))),
            }
        }
        (true, Err(e)) => Verdict::Fail(format!("{text:?}: value {} is within the range of its field but the input was rejected: {e}", v.unwrap())),
        (true, Ok((opts, tree))) => {
            let v = v.unwrap();
            let mut exp = expected_leaf(c, v).unwrap();
            if c.carrier == Carrier::Threads {
                // the tree is the one of the expression that follows the option (or -true)
                let rest = text.splitn(3, ' ').nth(2).unwrap_or("").to_string();
                if !rest.is_empty() {
                    match catch(|| parse(&rest)) {
                        Ok(Ok((_, t))) => exp = from_ast(&t),
                        _ => return Verdict::OracleBug(format!("context {rest:?} does not parse")),
                    }
                }
            }
            let got = from_ast(&tree);
            if got != exp {
                return Verdict::Fail(format!("{text:?}: expected tree {exp:?} carrying {v}, got {got:?}"));
            }
            if c.carrier == Carrier::Threads && opts.threads != Some(v as u32) {
                return Verdict::Fail(format!("{text:?}: expected threads {v}, options are {opts:?}"));
            }
            let prog = match catch(|| compile(&tree, &opts).map(|c| c.scheme("/"))) {
                Err(p) => return Verdict::Fail(format!("{text:?}: compile panicked: {p}")),
                Ok(Err(e)) => return Verdict::Fail(format!("{text:?}: in range but compile failed: {e}")),
                Ok(Ok(p)) => p,
            };
            let forms = match sx::read_all(&prog) {
                Ok(f) => f,
                Err(e) => return Verdict::Fail(format!("{text:?}: program does not read: {e}")),
            };
            let (cmps, threads) = comparisons(&forms);
            if c.carrier == Carrier::Threads {
                return match threads {
                    Some(Sx::Int(_, d)) if d == v.to_string() => Verdict::Pass { nt, class: "in range: exact (thread count)" },
                    other => Verdict::Fail(format!("{text:?}: fifth argument of the scan call is {other:?}, expected {v}\n{prog}")),
                };
            }
            let want = (v * c.carrier.unit()).to_string();
            let op = match c.sign {
                '+' => ">",
                '-' => "<",
                _ => "=",
            };
            // the constant must be in the program as written (which comparison carries it, and how
            // the comparison is spelled, is the translation's business: C02)
            let ints = integer_literals(&forms);
            if !ints.iter().any(|d| *d == want) {
                return Verdict::Fail(format!("{text:?}: the constant {want} does not occur in the policy (integer literals there: {ints:?}; comparisons: {cmps:?})\n{prog}"));
            }
            let _ = op;
            Verdict::Pass { nt, class: "in range: exact in tree and program" }
        }
    }
}

const EMBEDDINGS: [(&str, &str); 7] = [("", " , -name z"), ("( ", " , -true ) -o -print"), ("! ", ""), ("-name z -o ", ""), ("( ( ", " ) )"), ("-true , ", " , -print"), ("", " -a -true")];

/// The same primary inside a larger expression (left of a ',', under '!', in parentheses, ...):
/// in range -> the one comparison of the program carries the exact constant; beyond the range ->
/// no program. (The expected tree of the embedding itself is C01/C05 business.)
pub fn judge_embedded(c: &Case, k: usize) -> Verdict {
    if !c.digits.bytes().all(|b| b.is_ascii_digit()) || c.digits.is_empty() || (c.sign != ' ' && !c.carrier.signed()) {
        return Verdict::Skip("not a digit string");
    }
    if matches!(c.carrier, Carrier::Threads | Carrier::MaxDepth | Carrier::MinDepth) {
        return Verdict::Skip("options are embedded by C13");
    }
    let (pre, post) = EMBEDDINGS[k % EMBEDDINGS.len()];
    let sign = if c.sign == ' ' { String::new() } else { c.sign.to_string() };
    let text = format!("{pre}{} {}{}{}{post}", c.carrier.keyword(), sign, c.digits, c.carrier.suffix());
    let v = value_of(&c.digits);
    let in_range = match v {
        Some(v) => v <= c.carrier.field_max() && v.checked_mul(c.carrier.unit()).map(|p| p <= u64::MAX as u128).unwrap_or(false),
        None => false,
    };
    let outcome = match catch(|| parse(&text).map_err(|e| e.to_string()).and_then(|(o, t)| compile(&t, &o).map(|c| c.scheme("/")).map_err(|e| e.to_string()))) {
        Ok(r) => r,
        Err(p) => return Verdict::Fail(format!("{text:?}: panic (a panic is not a rejection): {p}")),
    };
    match (in_range, outcome) {
        (false, Err(_)) => Verdict::Pass { nt: true, class: "embedded, out of range: rejected" },
        (false, Ok(prog)) => Verdict::Fail(format!("{text:?}: value beyond the range of its field was accepted inside a larger expression; program:\n{prog}")),
        (true, Err(e)) => Verdict::Fail(format!("{text:?}: value within range, but rejected inside a larger expression: {e}")),
        (true, Ok(prog)) => {
            let forms = match sx::read_all(&prog) {
                Ok(f) => f,
                Err(e) => return Verdict::Fail(format!("{text:?}: program does not read: {e}")),
            };
            let (cmps, _) = comparisons(&forms);
            let want = (v.unwrap() * c.carrier.unit()).to_string();
            let op = match c.sign {
                '+' => ">",
                '-' => "<",
                _ => "=",
            };
            let ints = integer_literals(&forms);
            if !ints.iter().any(|d| *d == want) {
                return Verdict::Fail(format!("{text:?}: the constant {want} does not occur in the policy (integer literals there: {ints:?}; comparisons: {cmps:?})\n{prog}"));
            }
            let _ = op;
            Verdict::Pass { nt: true, class: "embedded, in range: exact in the program" }
        }
    }
}

const JOINERS: [(&str, &str, &str); 7] = [("", " ", ""), ("", " -a ", ""), ("", " -o ", ""), ("", " , ", ""), ("! ( ", " ", " )"), ("( ", " -o ", " ) -print"), ("-true , ", " -and ", " -o -false")];

/// Two numeric primaries next to each other (a lower and an upper bound of one attribute, in the
/// same or in different units; equal or crossing bounds): both constants reach the program, exact
/// and in the order written, whatever the range they describe together.
pub fn judge_pair(a: &Case, b: &Case, k: usize) -> Verdict {
    let (pre, mid, post) = JOINERS[k % JOINERS.len()];
    let word = |c: &Case| format!("{} {}{}{}", c.carrier.keyword(), if c.sign == ' ' { String::new() } else { c.sign.to_string() }, c.digits, c.carrier.suffix());
    let text = format!("{pre}{}{mid}{}{post}", word(a), word(b));
    let mut want = vec![];
    for c in [a, b] {
        let Some(v) = value_of(&c.digits) else { return Verdict::Skip("not a number") };
        if v > c.carrier.field_max() || v.checked_mul(c.carrier.unit()).map(|p| p > u64::MAX as u128).unwrap_or(true) {
            // one of the two is beyond the range of its field: the input is rejected as a whole,
            // whatever the primary next to it carries (the same digits may be fine for that one)
            return match catch(|| parse(&text).map_err(|e| e.to_string()).and_then(|(o, t)| compile(&t, &o).map(|c| c.scheme("/")).map_err(|e| e.to_string()))) {
                Err(p) => Verdict::Fail(format!("{text:?}: panic (a panic is not a rejection): {p}")),
                Ok(Err(_)) => Verdict::Pass { nt: true, class: "two numeric primaries, one beyond its range: rejected" },
                Ok(Ok(prog)) => Verdict::Fail(format!("{text:?}: the value {v} is beyond the range of {:?}, yet the input was accepted; program:\n{prog}", c.carrier)),
            };
        }
        let op = match c.sign {
            '+' => ">",
            '-' => "<",
            _ => "=",
        };
        want.push((op.to_string(), (v * c.carrier.unit()).to_string()));
    }
    let prog = match catch(|| parse(&text).map_err(|e| e.to_string()).and_then(|(o, t)| compile(&t, &o).map(|c| c.scheme("/")).map_err(|e| e.to_string()))) {
        Err(p) => return Verdict::Fail(format!("{text:?}: panic: {p}")),
        Ok(Err(e)) => return Verdict::Fail(format!("{text:?}: both values are within range, but the input was rejected: {e}")),
        Ok(Ok(p)) => p,
    };
    let forms = match sx::read_all(&prog) {
        Ok(f) => f,
        Err(e) => return Verdict::Fail(format!("{text:?}: program does not read: {e}")),
    };
    let ints = integer_literals(&forms);
    let (wa, wb) = (&want[0].1, &want[1].1);
    let first_a = ints.iter().position(|d| d == wa);
    let last_b = ints.iter().rposition(|d| d == wb);
    let ok = match (first_a, last_b) {
        (Some(i), Some(j)) => wa == wb && ints.iter().filter(|d| *d == wa).count() >= 2 || wa != wb && i < j,
        _ => false,
    };
    if !ok {
        return Verdict::Fail(format!("{text:?}: the constants {wa} and {wb} must both occur in the policy, in this order (integer literals there: {ints:?})\n{prog}"));
    }
    Verdict::Pass { nt: a.carrier != b.carrier || a.sign != b.sign, class: "two numeric primaries side by side: both exact" }
}

/// A numeric primary after a context primary (every kind of leaf, a formatted print with each
/// directive): the constant reaches the program exactly as when the primary stands alone.
pub fn judge_after(c: &Case, context: &str, joiner: &str) -> Verdict {
    let Some(v) = value_of(&c.digits) else { return Verdict::Skip("not a number") };
    if v > c.carrier.field_max() || v.checked_mul(c.carrier.unit()).map(|p| p > u64::MAX as u128).unwrap_or(true) {
        return Verdict::Skip("out of range (single-primary part)");
    }
    let sign = if c.sign == ' ' { String::new() } else { c.sign.to_string() };
    let text = format!("{context}{joiner}{} {}{}{}", c.carrier.keyword(), sign, c.digits, c.carrier.suffix());
    let want = (v * c.carrier.unit()).to_string();
    let prog = match catch(|| parse(&text).map_err(|e| e.to_string()).and_then(|(o, t)| compile(&t, &o).map(|c| c.scheme("/")).map_err(|e| e.to_string()))) {
        Err(p) => return Verdict::Fail(format!("{text:?}: panic: {p}")),
        Ok(Err(e)) => return Verdict::Fail(format!("{text:?}: the value is within range and the context is supported, but the input was rejected: {e}")),
        Ok(Ok(p)) => p,
    };
    let forms = match sx::read_all(&prog) {
        Ok(f) => f,
        Err(e) => return Verdict::Fail(format!("{text:?}: program does not read: {e}")),
    };
    let ints = integer_literals(&forms);
    if !ints.iter().any(|d| *d == want) {
        return Verdict::Fail(format!("{text:?}: the constant {want} does not occur in the policy after this context (integer literals there: {ints:?})\n{prog}"));
    }
    Verdict::Pass { nt: true, class: "numeric primary after a context primary: exact" }
}

fn case_json(c: &Case) -> Value {
    json!({"kind": "number", "carrier": c.carrier.json(), "sign": c.sign.to_string(), "digits": c.digits, "input": input_of(c)})
}

pub fn replay(case: &Value) -> Result<Verdict, String> {
    let c = Case {
        carrier: parse_carrier(case["carrier"].as_str().ok_or("carrier")?).ok_or("unknown carrier")?,
        sign: case["sign"].as_str().and_then(|s| s.chars().next()).unwrap_or(' '),
        digits: case["digits"].as_str().ok_or("digits")?.to_string(),
    };
    if let Some(cx) = case.get("context").and_then(|x| x.as_str()) {
        return Ok(judge_after(&c, cx, case["joiner_text"].as_str().unwrap_or(" ")));
    }
    if let Some(o) = case.get("second") {
        let d = Case {
            carrier: parse_carrier(o["carrier"].as_str().ok_or("carrier")?).ok_or("unknown carrier")?,
            sign: o["sign"].as_str().and_then(|s| s.chars().next()).unwrap_or(' '),
            digits: o["digits"].as_str().ok_or("digits")?.to_string(),
        };
        return Ok(judge_pair(&c, &d, case["joiner"].as_u64().unwrap_or(0) as usize));
    }
    if let Some(k) = case["thread_context"].as_u64() {
        THREAD_CONTEXT.with(|t| t.set(Some(k as usize)));
        let v = judge(&c);
        THREAD_CONTEXT.with(|t| t.set(None));
        return Ok(v);
    }
    if let Some(k) = case["embedding"].as_u64() {
        return Ok(judge_embedded(&c, k as usize));
    }
    Ok(judge(&c))
}

fn boundary_values(unit: u128) -> Vec<u128> {
    let mut v = vec![];
    let mut bs: Vec<u128> = vec![0, 1 << 31, 1 << 32, 1 << 63, 1 << 64, (1u128 << 64) / unit, 1000, 1 << 16];
    for u in SUnit::ALL {
        bs.push((1u128 << 64) / u.bytes() as u128);
    }
    bs.push((1u128 << 64) / 512);
    // every power of two (narrowing to 8/16/24/32/53 bits, shifts) and of ten (digit-count limits)
    for k in 0..=70u32 {
        bs.push(1u128 << k);
        bs.push((1u128 << k) / unit);
    }
    for k in 0..=21u32 {
        bs.push(10u128.pow(k));
    }
    // count x any unit of time at the edge of 32/63/64 bits (arithmetic on count*unit that is not
    // part of the emitted constant)
    for tu in [60u128, 1440, 3600, 86_400, 604_800] {
        for top in [1u128 << 31, 1 << 32, 1 << 63, 1 << 64] {
            bs.push(top / tu);
        }
    }
    bs.sort();
    bs.dedup();
    for b in bs {
        for d in -2i128..=2 {
            let x = b as i128 + d;
            if x >= 0 {
                v.push(x as u128);
            }
        }
    }
    v.sort();
    v.dedup();
    v
}

pub fn run(ctx: &Ctx) -> Report {
    let mut total = Stats::new();
    let cs = carriers();
    // systematic part: every carrier x boundary values x leading zeros x signs
    let sys = run_shards(cs.len(), |i| {
        let mut st = Stats::new();
        let c = cs[i];
        let mut digit_strings: Vec<String> = vec![];
        for v in boundary_values(c.unit()) {
            for z in [0usize, 1, 30] {
                digit_strings.push(format!("{}{}", "0".repeat(z), v));
            }
        }
        // very long digit strings: padding of 63..300 zeros, and huge values whose low digits are small
        for pad in [63usize, 64, 65, 100, 300] {
            for v in ["5", "65534", "4294967295", "4294967296", "18446744073709551615"] {
                digit_strings.push(format!("{}{v}", "0".repeat(pad)));
            }
        }
        for n in [41usize, 63, 64, 65, 66, 100, 300] {
            digit_strings.push(format!("1{}5", "0".repeat(n - 2)));
            digit_strings.push(format!("{}", "7".repeat(n)));
        }
        for d in ["9999999999999999999999999999999999999999", "1000000000000000000000000000000000000000", "0000000000000000000000000000000000000000", "340282366920938463463374607431768211455", "340282366920938463463374607431768211456", "18446744073709551616000", "99999999999999999999"] {
            digit_strings.push(d.to_string());
        }
        for d in digit_strings {
            for sign in [' ', '+', '-'] {
                let case = Case { carrier: c, sign, digits: d.clone() };
                let v = judge(&case);
                st.record(&v, stable_hash(&case), true, || case_json(&case));
                if c == Carrier::Threads && sign == ' ' {
                    // the thread count next to expressions of every output mode
                    for k in 0..THREAD_CONTEXTS.len() {
                        THREAD_CONTEXT.with(|t| t.set(Some(k)));
                        let v = judge(&case);
                        st.record(&v, stable_hash(&(&case, k)), true, || { let mut j = case_json(&case); j["thread_context"] = json!(k); j });
                        THREAD_CONTEXT.with(|t| t.set(None));
                    }
                }
                // a third of them also inside a larger expression
                let h = stable_hash(&case);
                if h % 3 == 0 {
                    let k = (h / 3 % EMBEDDINGS.len() as u64) as usize;
                    let v = judge_embedded(&case, k);
                    st.record(&v, stable_hash(&(&case, k)), true, || {
                        let mut j = case_json(&case);
                        j["embedding"] = json!(k);
                        j
                    });
                }
            }
        }
        st
    });
    total.merge(sys);
    total.exhaustive_parts.push("every numeric carrier (46: ids, counts, -threads, -size x 8 unit spellings, 6 time tests x 5 unit spellings, -maxdepth/-mindepth) x values within +-2 of {every power of two up to 2^70, every power of ten up to 10^21, 2^k/unit, 2^64/unit for every unit} x {0,1,30} leading zeros x {none,+,-}, plus 20-40 digit strings".into());

    // every numeric primary after every kind of context primary
    let contexts: Vec<String> = crate::combo::context_leaves().iter().filter_map(|l| crate::render::canonical(l)).collect();
    let after = run_shards(cs.len(), |i| {
        let mut st = Stats::new();
        let c = cs[i];
        if matches!(c, Carrier::Threads | Carrier::MaxDepth | Carrier::MinDepth) {
            return st;
        }
        for (k, cx) in contexts.iter().enumerate() {
            for digits in ["3", "1025"] {
                for sign in [' ', '+'] {
                    let joiner = [" ", " , ", " -o ", " -a "][(k + digits.len()) % 4];
                    let case = Case { carrier: c, sign, digits: digits.to_string() };
                    let v = judge_after(&case, cx, joiner);
                    st.record(&v, stable_hash(&(&case, cx, joiner)), true, || {
                        let mut j = case_json(&case);
                        j["context"] = json!(cx);
                        j["joiner_text"] = json!(joiner);
                        j
                    });
                }
            }
        }
        st.samples.truncate(1);
        st
    });
    total.merge(after);
    total.exhaustive_parts.push(format!("every signed numeric carrier x 2 values x 2 signs after each of {} context primaries (every kind of leaf, a formatted print with each directive)", contexts.len()));
    // pairs of numeric primaries of one attribute (a range, possibly empty or in mixed units)
    let fam: Vec<Vec<Carrier>> = {
        let mut f: Vec<Vec<Carrier>> = vec![cs.iter().cloned().filter(|c| matches!(c, Carrier::Size(_))).collect()];
        for w in [Which::A, Which::C, Which::M] {
            f.push(cs.iter().cloned().filter(|c| matches!(c, Carrier::Time(x, _, _) if *x == w)).collect());
        }
        for c in [Carrier::Uid, Carrier::Gid, Carrier::Inum, Carrier::MirrorCount, Carrier::StripeCount, Carrier::Links] {
            f.push(vec![c]);
        }
        f
    };
    let denom = ctx.tier.pick(8u64, 1u64);
    let pairs = run_shards(fam.len(), |i| {
        let mut st = Stats::new();
        let vals = ["0", "1", "2", "1024", "2048"];
        for ca in &fam[i] {
            for cb in &fam[i] {
                for va in vals {
                    for vb in vals {
                        for sa in ['+', '-', ' '] {
                            for sb in ['+', '-', ' '] {
                                for k in 0..JOINERS.len() {
                                    let a = Case { carrier: *ca, sign: sa, digits: va.to_string() };
                                    let b = Case { carrier: *cb, sign: sb, digits: vb.to_string() };
                                    let h = stable_hash(&(&a, &b, k));
                                    if fam[i].len() > 1 && h.wrapping_add(ctx.seed) % denom != 0 {
                                        continue;
                                    }
                                    let v = judge_pair(&a, &b, k);
                                    st.record(&v, h, true, || {
                                        let mut j = case_json(&a);
                                        j["second"] = case_json(&b);
                                        j["joiner"] = json!(k);
                                        j
                                    });
                                }
                            }
                        }
                    }
                }
            }
        }
        st
    });
    // two numeric primaries of different attributes carrying the very same digits, one with a
    // 64-bit field and one with a 32-bit field, in both orders (a conversion remembered from the
    // first must not serve the second)
    let mut stx = Stats::new();
    let wide = [Carrier::Links, Carrier::Size(Some(SUnit::C)), Carrier::Time(Which::M, true, None), Carrier::Time(Which::A, false, Some(TUnit::S))];
    let narrow = [Carrier::Uid, Carrier::Gid, Carrier::Inum, Carrier::MirrorCount, Carrier::StripeCount];
    for w in wide {
        for n in narrow {
            for d in ["0", "5", "2147483647", "2147483648", "4294967295", "4294967296", "4294967297", "9223372036854775808", "18446744073709551615", "18446744073709551616", "04294967296", "4294967295000"] {
                for k in 0..JOINERS.len() {
                    for (a, b) in [(w, n), (n, w)] {
                        let (ca, cb) = (Case { carrier: a, sign: ' ', digits: d.to_string() }, Case { carrier: b, sign: if k % 2 == 0 { ' ' } else { '+' }, digits: d.to_string() });
                        let v = judge_pair(&ca, &cb, k);
                        stx.record(&v, stable_hash(&(&ca, &cb, k)), true, || {
                            let mut j = case_json(&ca);
                            j["second"] = case_json(&cb);
                            j["joiner"] = json!(k);
                            j
                        });
                    }
                }
            }
        }
    }
    stx.samples.truncate(1);
    total.merge(stx);
    total.merge(pairs);
    total.exhaustive_parts.push(format!("pairs of numeric primaries of one attribute (-size x 8 unit spellings squared, each time attribute x 10 spellings squared, six id/count tests) x values {{0,1,2,1024,2048}}^2 x signs^2 x 7 ways of joining them: {}", if denom == 1 { "all" } else { "seed-selected 1/8 slice of the multi-spelling families" }));

    let cases = ctx.tier.pick(300_000u32, 3_000_000u32);
    let shards = 16;
    let rnd = run_shards(shards, |shard| {
        let mut st = Stats::new();
        let digits = prop_oneof![
            3 => any::<u64>().prop_map(|v| v.to_string()),
            2 => any::<u32>().prop_map(|v| v.to_string()),
            2 => any::<u128>().prop_map(|v| v.to_string()),
            2 => (0u32..70, any::<u64>()).prop_map(|(s, v)| (v >> (s.min(63))).to_string()),
            1 => "[0-9]{1,40}",
            1 => (0usize..40, any::<u32>()).prop_map(|(z, v)| format!("{}{}", "0".repeat(z), v)),
        ];
        let strat = (prop::sample::select(carriers()), prop::sample::select(vec![' ', '+', '-']), digits).prop_map(|(carrier, sign, digits)| Case { carrier, sign: if carrier.signed() { sign } else { ' ' }, digits });
        run_prop(&mut st, ctx.seed, "C07", shard as u64, cases / shards as u32, &strat, judge, case_json);
        st
    });
    total.merge(rnd);
    Report {
        stats: total,
        rule: "every numeric carrier x decimal strings (boundary-directed and random, with leading zeros, signs, up to 40 digits). Oracle: big-integer arithmetic on the text: v <= range of the field (u32/u64) and v*unit <= u64::MAX -> parse Ok, the tree carries exactly v, and v*unit (sizes) resp. v occurs as an integer literal of the per-file policy (read by the independent reader, compared as digit strings), the thread count is the fifth argument of the scan call; otherwise the input must be rejected with an error value by parse or compile (a panic is not a rejection, any emitted program is a failure). A third of the systematic cases are repeated with the primary inside a larger expression (left of ',', under '!', in parentheses, after -o, ...): in range -> the constant is in the program, beyond the range -> no program. Pairs of numeric primaries of one attribute side by side (lower and upper bounds in the same or different units, equal, crossing or empty ranges, joined by AND/OR/','/negation): the program holds both exact constants in the order written. Run in the dev and the release build. Non-trivial: v within +-2 of a boundary, or leading zeros, or >=20 digits. Distinct: by (carrier, sign, digit string).".into(),
        assumptions: vec!["-maxdepth/-mindepth: only 'beyond u32 must be rejected' is asserted here; what happens in range is C13's".into()],
        exhaustive: false,
    }
}

pub fn keyword_of(c: &Carrier) -> String {
    c.keyword()
}
pub fn suffix_of(c: &Carrier) -> String {
    c.suffix()
}
