//! C08 — permission arguments denote the bits chmod would compute.

use crate::chmod::{self, Clause};
use crate::files::FileRec;
use crate::policy::{self, CompileOutcome};
use crate::tree::*;
use crate::util::*;
use lipe_find_parser::parse;
use proptest::prelude::*;
use serde_json::{json, Value};

#[derive(Debug, Clone, PartialEq, Eq, Hash)]
pub enum Arg {
    /// octal digits as written
    Octal(String),
    Symbolic(Vec<Clause>),
}

#[derive(Debug, Clone, PartialEq, Eq, Hash)]
pub struct Case {
    pub prefix: u8,
    pub arg: Arg,
    /// run the emitted policy on files (semantic check)
    pub exec: bool,
    /// all 4096 modes instead of the directed set
    pub all_modes: bool,
}

fn arg_text(a: &Arg) -> String {
    match a {
        Arg::Octal(d) => d.clone(),
        Arg::Symbolic(c) => chmod::list_text(c),
    }
}

fn kind(prefix: u8) -> (&'static str, PKind) {
    match prefix {
        0 => ("", PKind::Equal),
        1 => ("-", PKind::AtLeast),
        _ => ("/", PKind::Any),
    }
}

pub fn judge(c: &Case) -> Verdict {
    let (pre, k) = kind(c.prefix);
    let text = format!("-perm {pre}{}", arg_text(&c.arg));
    let m = match &c.arg {
        Arg::Octal(d) => match u128::from_str_radix(d, 8) {
            Ok(v) if v <= 0o7777 && d.len() >= 3 => v as u32,
            Ok(v) if d.len() >= 3 => {
                // a value with bits outside the twelve permission bits: rejected, or carried exactly
                return match catch(|| parse(&text)) {
                    Err(p) => Verdict::Fail(format!("parse panicked on {text:?}: {p}")),
                    Ok(Err(_)) => Verdict::Pass { nt: true, class: "octal beyond 12 bits: rejected" },
                    Ok(Ok((_, x))) => match from_ast(&x) {
                        E::T(Tst::Perm(_, gm)) if gm as u128 == v => Verdict::Pass { nt: true, class: "octal beyond 12 bits: carried exactly" },
                        other => Verdict::Fail(format!("{text:?}: the octal value {v:o} does not fit the permission bits, yet it was accepted as {other:?}")),
                    },
                };
            }
            _ => return Verdict::Skip("not an octal string of 3+ digits"),
        },
        Arg::Symbolic(cl) => {
            if cl.is_empty() {
                return Verdict::Skip("empty clause list");
            }
            chmod::apply_all(cl)
        }
    };
    let parsed = match catch(|| parse(&text)) {
        Ok(r) => r,
        Err(p) => return Verdict::Fail(format!("parse panicked on {text:?}: {p}")),
    };
    let tree = match parsed {
        Ok((_, x)) => from_ast(&x),
        Err(e) => return Verdict::Fail(format!("{text:?} is a permission argument (mode {m:04o}) but was rejected: {e}")),
    };
    let (gk, gm) = match &tree {
        E::T(Tst::Perm(gk, gm)) => (*gk, *gm),
        other => return Verdict::Fail(format!("{text:?} parsed to {other:?}")),
    };
    if gk != k {
        return Verdict::Fail(format!("{text:?}: prefix {pre:?} must select {k:?}, got {gk:?}"));
    }
    if gm != m {
        if let Arg::Symbolic(cl) = &c.arg {
            if cl.iter().any(|c| c.op == '-') && gm == chmod::f12_buggy_apply_all(cl) && Findings::load_cached().is_active("C08", "F12") {
                return Verdict::Known("F12", "a '-' clause clears the bits of who that are NOT named instead of the named ones: '-perm u+rwx,u-r' gives 0400, chmod gives 0300".into());
            }
        }
        return Verdict::Fail(format!("{text:?}: chmod computes mode {m:04o} from 0, the tree carries {gm:04o}"));
    }
    let (overlap, after_set) = match &c.arg {
        Arg::Symbolic(cl) => {
            let mut seen = 0u32;
            let mut ov = false;
            let mut after = false;
            let mut bits = 0u32;
            for c in cl {
                if c.who_mask() & seen != 0 {
                    ov = true;
                }
                if (c.op == '-' || c.op == '=') && bits != 0 {
                    after = true;
                }
                seen |= c.who_mask();
                bits = c.apply(bits);
            }
            (ov && cl.len() >= 2, after)
        }
        Arg::Octal(_) => (false, false),
    };
    let mut nt = overlap || after_set;
    if c.exec {
        // semantic check of the emitted comparison
        // a third of the executed cases: the primary after (or before) a context that is true for
        // every file - the mode test must mean the same wherever it stands in the expression
        let h = stable_hash(&(&text, "ctx"));
        let fmt_m = |nl: bool| { let mut v = vec![FEl::F(Fld::PermOctal), FEl::Lit(" ".into()), FEl::F(Fld::NameNoStart)]; if nl { v.push(FEl::E(Esc::Newline)); } v };
        let contexts = [E::A(Act::Printf(fmt_m(true))), E::A(Act::Printf(fmt_m(false))), E::A(Act::FPrintf("modes.out".into(), fmt_m(true))), E::A(Act::Print), E::A(Act::Print0), E::T(Tst::Perm(PKind::AtLeast, 0)), E::T(Tst::Type(FT::ALL.to_vec())), E::T(Tst::Name("*".into())), E::T(Tst::True), E::T(Tst::Perm(PKind::AtLeast, 0o000)), E::not(E::T(Tst::Perm(PKind::Any, 0)))];
        let tree = match h % 6 {
            0 => E::list(contexts[(h / 6) as usize % contexts.len()].clone(), tree.clone()),
            1 => E::and(tree.clone(), contexts[(h / 6) as usize % contexts.len()].clone()),
            _ => tree.clone(),
        };
        let comp = match policy::compile_tree(&tree, None, "/") {
            CompileOutcome::Ok(c) => c,
            CompileOutcome::Err(e) => return Verdict::Fail(format!("{text:?} (compiled as {tree:?}): compile failed: {e}")),
            CompileOutcome::Panic(p) => return Verdict::Fail(format!("{text:?}: compile panicked: {p}")),
        };
        let mut modes: Vec<u32> = if c.all_modes { (0..0o10000).collect() } else { vec![m, 0, 0o7777] };
        if !c.all_modes {
            for b in 0..12 {
                modes.push(m ^ (1 << b));
            }
        }
        let mut files = vec![];
        for pm in &modes {
            for ft in [0o100000u32, 0o040000] {
                let mut f = FileRec::base(comp.now);
                f.mode = ft | pm;
                files.push(f);
            }
        }
        let run = match policy::run_policy(&comp, files.clone()) {
            Ok(r) => r,
            Err(e) => return Verdict::Fail(format!("{text:?}: {e}")),
        };
        if let Some(e) = &run.error {
            return Verdict::Fail(format!("{text:?}: program fails at run time: {e}"));
        }
        for (i, f) in files.iter().enumerate() {
            let fr = &run.world.runs[i];
            if let Some(e) = &fr.error {
                return Verdict::Fail(format!("{text:?}: policy fails at run time on mode {:o}: {e}", f.mode));
            }
            let want = match k {
                PKind::Equal => f.mode & 0o7777 == m,
                PKind::AtLeast => f.mode & m == m,
                PKind::Any => f.mode & m != 0,
            };
            if fr.truthy != want {
                return Verdict::Fail(format!("{text:?} ({k:?}, mode {m:04o}; compiled as {tree:?}) on a file of mode {:o}: find's rule says {want}, the emitted policy says {}\nprogram:\n{}", f.mode, fr.truthy, comp.text));
            }
        }
        nt = nt || matches!(c.arg, Arg::Octal(_));
    }
    Verdict::Pass { nt, class: match (&c.arg, c.exec) {
        (Arg::Octal(_), true) => "octal, tree + executed policy",
        (Arg::Octal(_), false) => "octal, tree",
        (Arg::Symbolic(_), true) => "symbolic, tree + executed policy",
        (Arg::Symbolic(_), false) => "symbolic, tree",
    } }
}

fn case_json(c: &Case) -> Value {
    let (pre, _) = kind(c.prefix);
    json!({"kind": "perm", "prefix": c.prefix, "exec": c.exec, "all_modes": c.all_modes, "input": format!("-perm {pre}{}", arg_text(&c.arg)),
        "octal": if let Arg::Octal(d) = &c.arg { Some(d.clone()) } else { None },
        "clauses": if let Arg::Symbolic(cl) = &c.arg { Some(cl.iter().map(|c| json!([c.who, c.op.to_string(), c.perm])).collect::<Vec<_>>()) } else { None }})
}

pub fn replay(case: &Value) -> Result<Verdict, String> {
    if case["kind"] == "perm-pair" {
        // replayed through the differential oracle of C02 on the tree's directed file set
        let tree = crate::term::decode_expr(case["tree"].as_str().ok_or("tree")?)?;
        return Ok(crate::checks::c02::judge(&crate::checks::c02::Case { tree, files: vec![], threads: None, via_text: false }));
    }
    let arg = if let Some(d) = case["octal"].as_str() {
        Arg::Octal(d.to_string())
    } else {
        Arg::Symbolic(
            case["clauses"]
                .as_array()
                .ok_or("no clauses")?
                .iter()
                .map(|c| Clause { who: c[0].as_str().unwrap_or("").into(), op: c[1].as_str().and_then(|s| s.chars().next()).unwrap_or('+'), perm: c[2].as_str().unwrap_or("").into() })
                .collect(),
        )
    };
    Ok(judge(&Case { prefix: case["prefix"].as_u64().unwrap_or(0) as u8, arg, exec: case["exec"].as_bool().unwrap_or(true), all_modes: case["all_modes"].as_bool().unwrap_or(false) }))
}

fn clause_strategy() -> BoxedStrategy<Clause> {
    (prop_oneof![4 => "[ugoa]{1,4}", 1 => "[ugoa]{5,12}"], prop::sample::select(vec!['+', '-', '=']), prop_oneof![4 => "[rwx]{1,4}", 1 => "[rwx]{5,12}"]).prop_map(|(who, op, perm)| Clause { who, op, perm }).boxed()
}

pub fn run(ctx: &Ctx) -> Report {
    let mut total = Stats::new();
    let all = chmod::all_clauses();
    let quick = ctx.tier == Tier::Quick;
    // octal: all 4096 values in 4-digit spelling, the 512 that fit in 3 digits, under 3 prefixes
    let oct = run_shards(16, |shard| {
        let mut st = Stats::new();
        for v in (0..0o10000u32).filter(|v| (*v as usize) % 16 == shard) {
            for prefix in 0..3u8 {
                let mut spellings = vec![format!("{v:04o}")];
                if v <= 0o777 {
                    spellings.push(format!("{v:03o}"));
                }
                // longer spellings with leading zeros (a sample of the values gets one of 5..10 digits,
                // a smaller one 11..40 digits)
                if v % 5 == 0 || v % 8 == 0 {
                    let w = 5 + (v as usize % 6);
                    spellings.push(format!("{v:0w$o}"));
                }
                if v % 7 == 0 {
                    let w = 11 + (v as usize / 7 % 30);
                    spellings.push(format!("{v:0w$o}"));
                }
                for d in spellings {
                    let c = Case { prefix, arg: Arg::Octal(d), exec: true, all_modes: v % 53 == 0 };
                    let vd = judge(&c);
                    st.record(&vd, stable_hash(&c), true, || case_json(&c));
                }
            }
        }
        st
    });
    total.merge(oct);
    // octal arguments whose value has bits outside the twelve permission bits (file-type bits of an
    // st_mode, 11+ digit values whose low 32 bits look valid): rejected, or carried exactly
    let mut sto = Stats::new();
    let mut big: Vec<String> = vec![];
    for v in [0o10000u64, 0o10644, 0o17777, 0o40755, 0o100644, 0o100000, 0o120777, 0o170000, 0o177777, 0o200000, 0o1000000, 0o7777777] {
        big.push(format!("{v:o}"));
        big.push(format!("0{v:o}"));
    }
    for hi in ["4", "1", "10", "377", "40000"] {
        for zeros in 6..=12 {
            for low in ["0644", "7777", "0000", "0001"] {
                big.push(format!("{hi}{}{low}", "0".repeat(zeros)));
            }
        }
    }
    for d in big {
        for prefix in 0..3u8 {
            let c = Case { prefix, arg: Arg::Octal(d.clone()), exec: false, all_modes: false };
            let v = judge(&c);
            sto.record(&v, stable_hash(&c), true, || case_json(&c));
        }
    }
    total.merge(sto);
    total.exhaustive_parts.push("all 4096 octal values (4 digits) and the 512 three-digit ones x 3 prefixes, each executed on the directed mode set (1 in 53 on all 4096 modes)".into());
    // symbolic: all single clauses and all ordered pairs, under 3 prefixes
    let n = all.len();
    let sym = run_shards(n, |i| {
        let mut st = Stats::new();
        for prefix in 0..3u8 {
            let c = Case { prefix, arg: Arg::Symbolic(vec![all[i].clone()]), exec: true, all_modes: i % 40 == 0 };
            let vd = judge(&c);
            st.record(&vd, stable_hash(&c), true, || case_json(&c));
            for j in 0..n {
                let exec = if quick { (i * n + j) % 5 == 0 } else { true };
                let c = Case { prefix, arg: Arg::Symbolic(vec![all[i].clone(), all[j].clone()]), exec, all_modes: false };
                let vd = judge(&c);
                st.record(&vd, stable_hash(&c), true, || case_json(&c));
                if st.failures.len() >= MAX_FAILURES {
                    return st;
                }
            }
        }
        st
    });
    total.merge(sym);
    total.exhaustive_parts.push("all 315 single clauses and all 99,225 ordered two-clause lists x 3 prefixes (tree compared with the chmod model; the emitted policy executed for all single clauses and 1 in 5 (quick) / all (thorough) pairs)".into());
    // long lists: a clause, then one other clause repeated (the first clause's bits must survive
    // however many clauses follow), and the reverse; every length around powers of two
    let lens: Vec<usize> = vec![5, 8, 11, 12, 13, 14, 15, 16, 17, 31, 32, 33, 63, 64, 65, 100, 255, 256, 257, 1000];
    let long = run_shards(lens.len(), |li| {
        let mut st = Stats::new();
        let n = lens[li];
        for (k, first) in all.iter().enumerate().filter(|(k, _)| k % 9 == li % 9) {
            let other = &all[(k * 31 + n) % all.len()];
            for prefix in 0..3u8 {
                let mut a = vec![first.clone()];
                a.extend(std::iter::repeat(other.clone()).take(n - 1));
                let mut b: Vec<Clause> = std::iter::repeat(other.clone()).take(n - 1).collect();
                b.push(first.clone());
                for cl in [a, b] {
                    let c = Case { prefix, arg: Arg::Symbolic(cl), exec: k % 4 == 0, all_modes: false };
                    let vd = judge(&c);
                    st.record(&vd, stable_hash(&c), true, || json!({"kind": "perm-long", "clauses": n, "prefix": prefix, "first": format!("{}{}{}", first.who, first.op, first.perm), "repeated": format!("{}{}{}", other.who, other.op, other.perm)}));
                    if let Verdict::Fail(_) = vd {
                        st.failures.last_mut().map(|f| f.case = case_json(&c));
                    }
                }
            }
        }
        st
    });
    total.merge(long);
    total.exhaustive_parts.push("lists of 5..1000 clauses (one clause followed or preceded by repetitions of another), every ninth of the 315 x 315 combinations per length".into());
    // two mode tests side by side under every operator (each must keep its own meaning: folding
    // '-perm /A , -perm /B' into one any-bit test is wrong, the ',' is a conjunction here), executed
    // on all 4096 modes of a regular file
    let mut stp = Stats::new();
    {
        let modes = [0o400u32, 0o040, 0o644, 0o111, 0o4000, 0o7777];
        let mut files = vec![];
        for pm in 0..0o10000u32 {
            let mut f = FileRec::base(now_secs());
            f.mode = 0o100000 | pm;
            files.push(f);
        }
        let holds = |k: PKind, m: u32, mode: u32| match k {
            PKind::Equal => mode & 0o7777 == m,
            PKind::AtLeast => mode & m == m,
            PKind::Any => mode & m != 0,
        };
        let kinds = [PKind::Equal, PKind::AtLeast, PKind::Any];
        let mut n = 0usize;
        for (ia, ka) in kinds.iter().enumerate() {
            for (ib, kb) in kinds.iter().enumerate() {
                for (ja, ma) in modes.iter().enumerate() {
                    for (jb, mb) in modes.iter().enumerate() {
                        if ja == jb || (ia * 7 + ib * 5 + ja * 3 + jb + ctx.seed as usize) % ctx.tier.pick(6, 1) != 0 {
                            continue;
                        }
                        n += 1;
                        let (a, b) = (E::T(Tst::Perm(*ka, *ma)), E::T(Tst::Perm(*kb, *mb)));
                        for op in 0..7 {
                            let tree = match op {
                                0 => E::and(a.clone(), b.clone()),
                                1 => E::or(a.clone(), b.clone()),
                                2 => E::list(a.clone(), b.clone()),
                                3 => E::and(E::not(a.clone()), b.clone()),
                                4 => E::and(E::not(a.clone()), E::not(b.clone())),
                                5 => E::or(E::not(a.clone()), E::not(b.clone())),
                                _ => E::list(E::not(a.clone()), E::not(b.clone())),
                            };
                            let v = match policy::compile_tree(&tree, None, "/") {
                                CompileOutcome::Ok(comp) => match policy::run_policy(&comp, files.clone()) {
                                    Ok(run) if run.error.is_none() => {
                                        let mut bad = None;
                                        for (i, f) in files.iter().enumerate() {
                                            let (x, y) = (holds(*ka, *ma, f.mode), holds(*kb, *mb, f.mode));
                                            let want = match op {
                                                0 | 2 => x && y,
                                                1 => x || y,
                                                3 => !x && y,
                                                4 | 6 => !x && !y,
                                                _ => !x || !y,
                                            };
                                            if run.world.runs[i].error.is_some() || run.world.runs[i].truthy != want {
                                                bad = Some(format!("{tree:?} on a file of mode {:o}: the two mode tests say {x} and {y}, so the expression is {want}; the emitted policy says {} ({:?})\nprogram:\n{}", f.mode, run.world.runs[i].truthy, run.world.runs[i].error, comp.text));
                                                break;
                                            }
                                        }
                                        match bad {
                                            Some(m) => Verdict::Fail(m),
                                            None => Verdict::Pass { nt: true, class: "two mode tests under an operator, executed on all modes" },
                                        }
                                    }
                                    Ok(run) => Verdict::Fail(format!("{tree:?}: program fails at run time: {:?}", run.error)),
                                    Err(e) => Verdict::Fail(format!("{tree:?}: {e}")),
                                },
                                CompileOutcome::Err(e) => Verdict::Fail(format!("{tree:?}: compile failed: {e}")),
                                CompileOutcome::Panic(p) => Verdict::Fail(format!("{tree:?}: compile panicked: {p}")),
                            };
                            stp.record(&v, stable_hash(&tree), true, || json!({"kind": "perm-pair", "tree": crate::term::encode_expr(&tree)}));
                        }
                    }
                }
            }
        }
        let _ = n;
    }
    stp.samples.truncate(1);
    total.merge(stp);
    // random longer lists, random letter orders and repetitions
    let cases = ctx.tier.pick(300_000u32, 3_000_000u32);
    let shards = 16;
    let rnd = run_shards(shards, |shard| {
        let mut st = Stats::new();
        let canon = prop::sample::select(chmod::all_clauses());
        let strat = (0u8..3, prop_oneof![4 => proptest::collection::vec(canon.clone(), 3..5), 4 => proptest::collection::vec(clause_strategy(), 1..5), 1 => proptest::collection::vec(canon, 5..40), 1 => proptest::collection::vec(clause_strategy(), 5..24)], prop::bool::weighted(0.3))
            .prop_map(|(prefix, cl, exec)| Case { prefix, arg: Arg::Symbolic(cl), exec, all_modes: false });
        run_prop(&mut st, ctx.seed, "C08", shard as u64, cases / shards as u32, &strat, judge, case_json);
        st
    });
    total.merge(rnd);
    Report {
        stats: total,
        rule: "octal: every 12-bit value in 4- and 3-digit spelling; symbolic: all 315 clauses, all 99,225 ordered pairs, random 3-4 clause lists (some of 5..40 clauses), random letter orders/repetitions, and lists of up to 1000 clauses made of one clause plus repetitions of another; each under the prefixes none, '-', '/'. Oracle: chmod model from mode 0 (W = union of who masks, P = perm bits & W; '+': m|=P, '-': m&=~P, '=': m=(m&~W)|P) -> the tree must be Perm(kind(prefix), mode); and semantically: the emitted policy is executed on files with modes {m, m^bit for each of 12 bits, 0, 07777} x {regular file, directory} (a sample on all 4096 modes) (a third of them with the primary after or before a context that is true for every file: a formatted print with %m, -print, -print0, -perm -000, -name '*') and must agree with Equal: mode&07777==m, AtLeast: mode&m==m, Any: mode&m!=0. Pairs of mode tests (every prefix x six modes each) under and / or / ',' / a negation are executed on all 4096 modes: each test keeps its own meaning. Non-trivial: list with >=2 clauses whose who-sets overlap, or a '-'/'=' clause after bits were set, or an executed octal case. Distinct: by (prefix, argument).".into(),
        assumptions: vec!["'-perm /000' is false for every file (statement of C08: any given bit set), not GNU's special case".into()],
        exhaustive: false,
    }
}
