//! C09 — implicit print is added exactly when no action is present.

use crate::files::FileRec;
use crate::policy::{self, CompileOutcome};
use crate::render;
use crate::scope;
use crate::sx;
use crate::term;
use crate::tree::*;
use crate::util::*;
use lipe_find_parser::parse;
use proptest::prelude::*;
use serde_json::{json, Value};

pub fn leaves() -> Vec<E> {
    vec![E::T(Tst::True), E::T(Tst::False), E::T(Tst::Name("a".into())), E::A(Act::Print), E::A(Act::Quit), E::A(Act::FPrint("f".into()))]
}

/// all trees with exactly `s` nodes, for s = 1..=max
pub fn trees_by_size(max: usize) -> Vec<Vec<E>> {
    let mut t: Vec<Vec<E>> = vec![vec![], leaves()];
    for s in 2..=max {
        let mut cur = vec![];
        for a in &t[s - 1] {
            cur.push(E::not(a.clone()));
        }
        for l in 1..s - 1 {
            let r = s - 1 - l;
            for a in &t[l] {
                for b in &t[r] {
                    cur.push(E::and(a.clone(), b.clone()));
                    cur.push(E::or(a.clone(), b.clone()));
                    cur.push(E::list(a.clone(), b.clone()));
                }
            }
        }
        t.push(cur);
    }
    t
}

pub fn judge(tree: &E, via_text: bool) -> Verdict {
    let mut t = tree.clone();
    let mut class = "direct";
    if via_text {
        let Some(text) = render::canonical(&t) else { return Verdict::Skip("no text form") };
        match catch(|| parse(&text)) {
            Ok(Ok((_, x))) => {
                t = from_ast(&x);
                if &t != tree {
                    return Verdict::Skip("text parses to a different tree (C01/C05)");
                }
                class = "via text";
            }
            Ok(Err(_)) => return Verdict::Skip("text rejected (C01/C05)"),
            Err(p) => return Verdict::Fail(format!("parse panicked on {text:?}: {p}")),
        }
    }
    // the implicit print does not depend on the thread count either (none, 0, 1, 8)
    let threads = [None, Some(1u32), Some(0), Some(8)][(stable_hash(&(&t, "threads")) % 4) as usize];
    let comp = match policy::compile_tree(&t, threads, "/") {
        CompileOutcome::Ok(c) => c,
        CompileOutcome::Err(_) if !crate::checks::c12::unsupported_names(&t).is_empty() => return Verdict::Skip("contains an unsupported construct (C12 decides that)"),
        CompileOutcome::Err(e) => return Verdict::Fail(format!("tree {t:?} uses only supported constructs but compile failed: {e}")),
        CompileOutcome::Panic(p) => return Verdict::Fail(format!("compile panicked on {t:?}: {p}")),
    };
    let base = FileRec::base(comp.now);
    let mut files = vec![base.with_name("a"), base.with_name("b")];
    // files directed at the constants of the tree, so that every branch runs for some file
    let n_fixed = files.len();
    files.extend(crate::files::directed(&t, comp.now).into_iter().take(60));
    let run = match policy::run_policy(&comp, files.clone()) {
        Ok(r) => r,
        Err(e) => return Verdict::Fail(format!("{t:?}: {e}")),
    };
    if let Some(e) = &run.error {
        return Verdict::Fail(format!("{t:?}: program fails at run time: {e}\n{}", comp.text));
    }
    let has_action = t.has_action();
    let mut silent_somewhere = false;
    for (i, f) in files.iter().enumerate() {
        let mut obs = policy::observe(&run, &comp, i);
        // framing of runtime-direct printers is decided by C10/C16, not here
        obs.stream_errors.retain(|s| !s.contains("outside any frame"));
        if obs.outs.is_empty() {
            silent_somewhere = true;
        }
        match policy::spec_eval_matching(&t, f, comp.now, &obs) {
            Err(_) if i >= n_fixed => continue,
            Err(e) => return Verdict::OracleBug(format!("spec evaluation undefined on a C09 tree: {e}")),
            Ok(Ok(())) => {}
            Ok(Err(diff)) => {
                return Verdict::Fail(format!(
                    "expression {t:?} ({}) on file {:?}: {diff}\nprogram:\n{}",
                    if has_action { "contains an action: nothing may be added" } else { "no action: behaves as '( E ) -a -print'" },
                    f.rel_path,
                    comp.text
                ))
            }
        }
    }
    // (no structural demand on the body: the property is about what is printed; a body that reaches
    // the same outputs in another way - an `if`, a generated printer for the implicit print - holds it)
    let nt = (has_action && silent_somewhere && t.n_operators() >= 1) || (!has_action && matches!(t, E::Or(..) | E::List(..)));
    Verdict::Pass { nt, class: match (has_action, class) {
        (true, "direct") => "action present (direct)",
        (true, _) => "action present (via text)",
        (false, "direct") => "no action (direct)",
        (false, _) => "no action (via text)",
    } }
}

fn case_json(tree: &E, via_text: bool) -> Value {
    json!({"kind": "tree", "tree": term::encode_expr(tree), "via_text": via_text, "text": render::canonical(tree)})
}

pub fn replay(case: &Value) -> Result<Verdict, String> {
    Ok(judge(&term::decode_expr(case["tree"].as_str().ok_or("no tree")?)?, case["via_text"].as_bool().unwrap_or(false)))
}

pub fn run(ctx: &Ctx) -> Report {
    let max = ctx.tier.pick(6usize, 7usize);
    let all: Vec<E> = trees_by_size(max).into_iter().flatten().collect();
    let n = all.len();
    let shards = 64;
    let mut total = run_shards(shards, |shard| {
        let mut st = Stats::new();
        for (i, t) in all.iter().enumerate().filter(|(i, _)| i % shards == shard) {
            let v = judge(t, false);
            st.record(&v, stable_hash(&(t, false)), true, || case_json(t, false));
            if i % 3 == 0 {
                let v = judge(t, true);
                st.record(&v, stable_hash(&(t, true)), true, || case_json(t, true));
            }
            if st.failures.len() >= MAX_FAILURES {
                break;
            }
        }
        st
    });
    total.exhaustive_parts.push(format!("all {n} trees with <= {max} nodes over {{true, false, -name a, -print, -quit, -fprint f}} x {{!, and, or, ','}}, each built directly and every third also through its text"));
    // long chains: the only action first, last, or in the middle of up to 300 operands
    let mut st = Stats::new();
    for n in [2usize, 10, 30, 47, 48, 49, 50, 64, 100, 128, 129, 200, 300] {
        for (pos, action) in [(0usize, Act::Print), (n / 2, Act::FPrint("f".into())), (n - 1, Act::Quit), (0, Act::Quit)] {
            for op in 0..3 {
                let mut e: Option<E> = None;
                for i in 0..n {
                    let leaf = if i == pos { E::A(action.clone()) } else if i % 5 == 4 { E::T(Tst::Name("a".into())) } else { E::T(Tst::True) };
                    e = Some(match e.take() {
                        None => leaf,
                        Some(acc) => match op {
                            0 => E::and(acc, leaf),
                            1 => E::or(acc, leaf),
                            _ => E::list(acc, leaf),
                        },
                    });
                }
                let t = e.unwrap();
                let v = judge(&t, n <= 129);
                st.record(&v, stable_hash(&t), true, || json!({"kind": "chain", "operands": n, "action_at": pos, "operator": (["and", "or", ","][op]), "tree": term::encode_expr(&t)}));
            }
        }
    }
    // nested negations/groups above a single action
    for n in [1usize, 10, 47, 48, 49, 50, 100] {
        let mut t = E::A(Act::Quit);
        for _ in 0..n {
            t = E::not(t);
        }
        let v = judge(&t, false);
        st.record(&v, stable_hash(&t), true, || json!({"kind": "tree", "negations": n, "tree": term::encode_expr(&t)}));
    }
    total.merge(st);
    total.exhaustive_parts.push("chains of 2..300 operands (and / or / ',') with the only action first, in the middle or last; 1..100 nested negations above an action".into());
    // chains nested to the left and to the right, the only action at a chosen operand position
    let spines = crate::combo::spine_trees(ctx.tier.pick(300, 1000));
    let sp = run_shards(16, |shard| {
        let mut st = Stats::new();
        for (i, (t, what)) in spines.iter().enumerate().filter(|(i, _)| i % 16 == shard) {
            let v = judge(t, false);
            st.record(&v, stable_hash(t), true, || json!({"kind": "tree", "what": what, "tree": term::encode_expr(t)}));
        }
        st.samples.truncate(1);
        st
    });
    total.merge(sp);
    crate::fuzzrun::replay_policy_trees(&mut total, |t| judge(t, false));
    // expressions without action whose string arguments are tokens of the code generator's own
    // sources (emitted call texts among them): the implicit print is decided by the tree, not by
    // what the emitted text looks like
    let mut std_ = Stats::new();
    for tok in crate::dict::tokens() {
        for t in [E::T(Tst::Pool(tok.clone())), E::or(E::T(Tst::Xattr(tok.clone())), E::T(Tst::XattrMatch("user.a".into(), tok.clone()))), E::and(E::T(Tst::True), E::not(E::T(Tst::Pool(tok.clone()))))] {
            let v = judge(&t, false);
            std_.record(&v, stable_hash(&t), true, || case_json(&t, false));
        }
    }
    std_.samples.truncate(1);
    total.merge(std_);
    // expressions without action that look as if they selected everything: wildcard-only patterns
    // (each '?' still needs a character: the files a and b have one), constant tests, and their
    // conjunctions - the implicit print prints exactly the files for which the expression is true
    let mut stw = Stats::new();
    let pats = ["*", "**", "?", "*?", "?*", "??", "*??", "??*", "?*?", "*???", "[!z]", "[!z]*", "a*", "*a"];
    for p in pats {
        for q in ["*", "*??", "?"] {
            for t in [
                E::T(Tst::Name(p.into())),
                E::and(E::T(Tst::True), E::T(Tst::IName(p.into()))),
                E::list(E::T(Tst::Name(p.into())), E::T(Tst::True)),
                E::and(E::T(Tst::Name(p.into())), E::T(Tst::IName(q.into()))),
                E::list(E::T(Tst::Path(p.into())), E::T(Tst::Name(q.into()))),
                E::or(E::T(Tst::Name(p.into())), E::T(Tst::Name(q.into()))),
            ] {
                let v = judge(&t, stable_hash(&t) % 3 == 0);
                stw.record(&v, stable_hash(&t), true, || case_json(&t, false));
            }
        }
    }
    stw.samples.truncate(1);
    total.merge(stw);
    // interaction triples: three supported leaf kinds under every operator skeleton
    let tr = crate::combo::run_triples(ctx.seed, &crate::combo::supported_kinds(), ctx.tier.pick(32, 2), |t| judge(t, stable_hash(t) % 4 == 0), |t| case_json(t, stable_hash(t) % 4 == 0));
    total.merge(tr);
    let cases = ctx.tier.pick(60_000u32, 600_000u32);
    let rnd = run_shards(16, |shard| {
        let mut st = Stats::new();
        let mut ls = leaves();
        // formats built by hand: empty, and not ending in a newline
        ls.push(E::A(Act::Printf(vec![])));
        ls.push(E::A(Act::Printf(vec![FEl::Lit("x".into())])));
        // formats that print nothing at all are actions all the same
        ls.push(E::A(Act::Printf(vec![FEl::E(Esc::Clear)])));
        ls.push(E::A(Act::Printf(vec![FEl::E(Esc::Clear), FEl::F(Fld::Name), FEl::E(Esc::Newline)])));
        ls.push(E::A(Act::Printf(vec![FEl::Lit(String::new())])));
        ls.push(E::A(Act::FPrintf("f".into(), vec![])));
        ls.push(E::A(Act::PrintFid));
        let leaf = prop::sample::select(ls).boxed();
        let strat = (crate::gen::related(crate::gen::expr_over(leaf, 6, 14, true), false), any::<bool>());
        run_prop(&mut st, ctx.seed, "C09", shard as u64, cases / 16, &strat, |(t, v)| judge(t, *v), |(t, v)| case_json(t, *v));
        st
    });
    total.merge(rnd);
    Report {
        stats: total,
        rule: format!("exhaustive: every tree with at most {max} nodes (leaves + operators) over the leaves {{true, false, -name a, -print, -quit, -fprint f}} and operators {{!, and, or, ','}}; random trees up to 14 nodes. Each compiled program is executed on the files {{a, b}} and on files directed at the constants of the tree. Oracle: evaluation by find's rules with the implicit print defined as '( E ) -a -print' when the tree has no action anywhere and nothing added otherwise -> same truth, outputs, stop request. Also: interaction triples over the whole supported palette (tests with a constant answer such as -uid -0 included), chains nested to the left and to the right with the only action at a chosen operand, expressions without action whose string arguments are tokens of the code generator's own sources, the trees of the policy fuzz corpus. Non-trivial: an action is present but some file produces no output (dead or negated branch) with >=1 operator, or no action with OR/',' at the root. Distinct: by (tree, path)."),
        assumptions: crate::checks::c02::runtime_assumptions(),
        exhaustive: false,
    }
}
