//! C10 — output routing: mode choice and destination table are right.

use crate::files::FileRec;
use crate::gen;
use crate::policy::{self, CompileOutcome};
use crate::speceval::{self, Dest};
use crate::term;
use crate::tree::*;
use crate::util::*;
use proptest::prelude::*;
use serde_json::{json, Value};
use std::collections::BTreeSet;

/// (destination, terminator) pairs requested through generated printers, in first-occurrence order
pub fn requested_targets(e: &E) -> Vec<(Dest, Option<char>)> {
    let mut out: Vec<(Dest, Option<char>)> = vec![];
    for l in e.leaves() {
        let t = match l {
            E::A(Act::Print) => Some((Dest::Stdout, Some('\n'))),
            E::A(Act::Print0) => Some((Dest::Stdout, Some('\0'))),
            E::A(Act::Printf(_)) => Some((Dest::Stdout, None)),
            E::A(Act::FPrint(f)) => Some((Dest::File(f.clone()), Some('\n'))),
            E::A(Act::FPrint0(f)) => Some((Dest::File(f.clone()), Some('\0'))),
            E::A(Act::FPrintf(f, _)) => Some((Dest::File(f.clone()), None)),
            _ => None,
        };
        if let Some(t) = t {
            if !out.contains(&t) {
                out.push(t);
            }
        }
    }
    out
}

/// The cheap part of the oracle, for very large expressions: the program reads, the table has one
/// entry per requested (destination, terminator) pair, every key of the table is a character
/// (it is written into the program as one) and occurs in the program as a character literal.
pub fn judge_tags(tree: &E) -> Verdict {
    let comp = match policy::compile_tree(tree, None, "/") {
        CompileOutcome::Ok(c) => c,
        CompileOutcome::Err(e) => return Verdict::Fail(format!("compile failed: {e}")),
        CompileOutcome::Panic(p) => return Verdict::Fail(format!("compile panicked: {p}")),
    };
    let Some(map) = &comp.io_map else { return Verdict::Fail("framed output requested, but there is no destination table".into()) };
    for k in map.keys() {
        if char::from_u32(*k).is_none() {
            return Verdict::Fail(format!("tag {k} is not a character"));
        }
    }
    let forms = match crate::sx::read_all(&comp.text) {
        Ok(f) => f,
        Err(e) => return Verdict::Fail(format!("the emitted program does not read: {e}")),
    };
    let mut chars = std::collections::BTreeSet::new();
    for f in &forms {
        f.walk(&mut |n| {
            if let crate::sx::Sx::Char(c) = n {
                chars.insert(*c as u32);
            }
        });
    }
    let mut want: Vec<(Dest, Option<char>)> = vec![];
    for t in requested_targets(tree) {
        if !want.contains(&t) {
            want.push(t);
        }
    }
    if map.len() != want.len() {
        return Verdict::Fail(format!("the table has {} entries for {} requested (destination, terminator) pairs", map.len(), want.len()));
    }
    for (k, v) in map {
        if !chars.contains(k) {
            return Verdict::Fail(format!("key {k} of the table is no character literal of the program"));
        }
        if !want.contains(v) {
            return Verdict::Fail(format!("table entry {k} -> {v:?} was not requested"));
        }
    }
    Verdict::Pass { nt: true, class: "very large expression: program and table inspected" }
}

pub fn judge(tree: &E) -> Verdict {
    judge_with_threads(tree, None)
}

pub fn judge_with_threads(tree: &E, threads: Option<u32>) -> Verdict {
    // a quarter of the trees also go through their command-line text: an expression that is valid
    // must get its mode and table through parse as well (what the text means is C01/C05's business,
    // that it is answered and routed alike is this one's)
    if stable_hash(tree) % 4 == 0 {
        if let Some(text) = crate::render::canonical(tree) {
            match catch(|| lipe_find_parser::parse(&text)) {
                Err(p) => return Verdict::Fail(format!("parse panicked on {text:?}: {p}")),
                Ok(Err(e)) => return Verdict::Fail(format!("{text:?} is the command line of {tree:?}, but it was rejected ({e}): no output mode and no destination table for a valid expression")),
                Ok(Ok((o, x))) => {
                    if from_ast(&x) == *tree {
                        let a = catch(|| lipe_find_parser::compile(&x, &o).map(|c| c.io_map().map(|m| m.len())).map_err(|e| e.to_string()));
                        let b = catch(|| lipe_find_parser::compile(&to_ast(tree), &o).map(|c| c.io_map().map(|m| m.len())).map_err(|e| e.to_string()));
                        if a != b {
                            return Verdict::Fail(format!("{text:?}: the parsed tree and the equal hand-built tree get different output modes / tables: {a:?} vs {b:?}"));
                        }
                    }
                }
            }
        }
    }
    let comp = match policy::compile_tree(tree, threads, "/") {
        CompileOutcome::Ok(c) => c,
        CompileOutcome::Err(_) => return Verdict::Skip("does not compile (C12)"),
        CompileOutcome::Panic(p) => return Verdict::Fail(format!("compile panicked on {tree:?}: {p}")),
    };
    let want_frames = speceval::needs_frames(tree);
    let targets = requested_targets(tree);
    match (&comp.io_map, want_frames) {
        (None, true) => return Verdict::Fail(format!("{tree:?} writes to a file, NUL-terminates or prints a format not ending in a newline escape, but plain output was selected (no destination table)\n{}", comp.text)),
        (Some(m), false) => return Verdict::Fail(format!("{tree:?} needs no framing but framed output was selected; destination table {m:?}")),
        _ => {}
    }
    let has_fid = tree.leaves().iter().any(|l| matches!(l, E::A(Act::PrintFid)));
    if let Some(m) = &comp.io_map {
        // bijection between tags and the distinct (destination, terminator) pairs requested
        let vals: Vec<&(Dest, Option<char>)> = m.values().collect();
        let set: BTreeSet<String> = vals.iter().map(|v| format!("{v:?}")).collect();
        if set.len() != vals.len() {
            return Verdict::Fail(format!("{tree:?}: two tags of the destination table name the same (destination, terminator): {m:?}"));
        }
        let want: BTreeSet<String> = targets.iter().map(|v| format!("{v:?}")).collect();
        if set != want {
            return Verdict::Fail(format!("{tree:?}: destination table {m:?} does not consist of exactly the requested (destination, terminator) pairs {targets:?}"));
        }
        for k in m.keys() {
            if char::from_u32(*k).is_none() {
                return Verdict::Fail(format!("tag {k} is not a character"));
            }
        }
    }
    // run: every byte belongs to a frame, each frame's tag names the producing action's destination
    let base = FileRec::base(comp.now);
    let files = vec![base.with_name("a"), base.with_name("b"), base.with_name("foo.c")];
    let run = match policy::run_policy(&comp, files.clone()) {
        Ok(r) => r,
        Err(e) => return Verdict::Fail(format!("{tree:?}: {e}")),
    };
    if let Some(e) = &run.error {
        return Verdict::Fail(format!("{tree:?}: program fails at run time: {e}\n{}", comp.text));
    }
    let mut known_f13 = false;
    let mut outputs = 0;
    for (i, f) in files.iter().enumerate() {
        let mut obs = policy::observe(&run, &comp, i);
        outputs += obs.outs.len();
        if comp.io_map.is_some() && !obs.unframed_direct.is_empty() {
            // signature of finding F13: the only stream problems are complete FID records written by the runtime-direct printer
            let only_direct = obs.stream_errors.len() == obs.unframed_direct.len() && obs.unframed_direct.iter().all(|p| *p == f.fid);
            if only_direct && has_fid && Findings::load_cached().is_active("C10", "F13") {
                known_f13 = true;
                obs.stream_errors.clear();
            }
        }
        match policy::spec_eval_matching(tree, f, comp.now, &obs) {
            Err(_) => continue,
            Ok(Ok(())) => {}
            Ok(Err(diff)) => return Verdict::Fail(format!("{tree:?} on file {:?}: {diff}\ndestination table: {:?}\nprogram:\n{}", f.rel_path, comp.io_map, comp.text)),
        }
        if comp.io_map.is_some() {
            for o in &obs.outs {
                if !o.framed && !(known_f13 && o.direct) {
                    return Verdict::Fail(format!("{tree:?}: output {o:?} was written outside any frame in framed mode"));
                }
            }
        }
    }
    if known_f13 {
        return Verdict::Known("F13", "-print-file-fid is emitted as a direct runtime print: in framed mode its record is written to the shared port outside any frame, e.g. '-print-file-fid -fprint a'".into());
    }
    // non-trivial: sharing and non-sharing both matter
    let dests: BTreeSet<String> = targets.iter().map(|t| format!("{:?}", t.0)).collect();
    let shared_dest = targets.len() > dests.len();
    let nt = (shared_dest || dests.len() >= 3 || targets.len() >= 3) && outputs > 0;
    Verdict::Pass { nt, class: if comp.io_map.is_some() { "framed mode" } else { "plain mode" } }
}

fn case_json(t: &E) -> Value {
    json!({"kind": "tree", "tree": term::encode_expr(t), "text": crate::render::canonical(t)})
}
pub fn replay(case: &Value) -> Result<Verdict, String> {
    if case["kind"] == "matchers-before" && case.get("tree").is_none() {
        // (the tree has tens of thousands of leaves: rebuilt from its description)
        let m = case["matchers"].as_u64().ok_or("matchers")? as usize;
        fn bal(l: &[E]) -> E {
            if l.len() == 1 {
                return l[0].clone();
            }
            let (a, b) = l.split_at(l.len() / 2);
            E::or(bal(a), bal(b))
        }
        let names: Vec<E> = (0..m).map(|i| E::T(Tst::Name(format!("p{i}")))).collect();
        let mut e = bal(&names);
        let tail = if case["tail"].as_u64() == Some(1) { vec![Act::Print0] } else { vec![Act::FPrint("a".into()), Act::FPrint0("b".into()), Act::FPrint("c".into())] };
        for a in tail {
            e = E::and(e, E::A(a));
        }
        return Ok(judge(&e));
    }
    Ok(judge_with_threads(&term::decode_expr(case["tree"].as_str().ok_or("no tree")?)?, case["threads_option"].as_u64().map(|t| t as u32)))
}

fn routing_action() -> BoxedStrategy<Act> {
    let f = || prop_oneof![6 => prop::sample::select(vec!["a", "b", "c"]).prop_map(|s| s.to_string()), 1 => prop::sample::select(vec!["/a", "./a", "a/", "a//b", "a/b", "/a/b", "A"]).prop_map(|s| s.to_string()), 1 => prop::sample::select(crate::dict::paths())];
    let fmt = || {
        prop_oneof![
            Just(vec![FEl::F(Fld::NameNoStart), FEl::E(Esc::Newline)]),
            Just(vec![FEl::F(Fld::NameNoStart)]),
            Just(vec![FEl::F(Fld::Basename), FEl::Lit(",".into()), FEl::F(Fld::UserId), FEl::E(Esc::Newline)]),
            Just(vec![FEl::Lit("x".into()), FEl::E(Esc::Null)]),
            Just(vec![]),
            Just(vec![FEl::E(Esc::Newline), FEl::Lit("y".into())]),
            Just(vec![FEl::F(Fld::NameNoStart), FEl::E(Esc::Ascii(0o1012))]),
            Just(vec![FEl::F(Fld::NameNoStart), FEl::E(Esc::Ascii(0o412))]),
            Just(vec![FEl::Lit("constant line".into()), FEl::E(Esc::Newline)]),
        ]
    };
    prop_oneof![
        3 => Just(Act::Print),
        2 => Just(Act::Print0),
        3 => fmt().prop_map(Act::Printf),
        3 => f().prop_map(Act::FPrint),
        2 => f().prop_map(Act::FPrint0),
        3 => (f(), fmt()).prop_map(|(n, e)| Act::FPrintf(n, e)),
        1 => Just(Act::PrintFid),
        1 => Just(Act::Quit),
    ]
    .boxed()
}

/// chain `-fprint f0 -a -fprint0 f1 -a ...` with `n` distinct destinations, optionally preceded by matchers that shift the tag numbering
fn chain(n: usize, matchers: usize) -> E {
    let mut e: Option<E> = None;
    let mut push = |x: E| {
        e = Some(match e.take() {
            None => x,
            Some(p) => E::and(p, x),
        })
    };
    for i in 0..matchers {
        push(E::or(E::T(Tst::Name(format!("m{i}"))), E::T(Tst::True)));
    }
    for i in 0..n {
        let name = format!("out{i}");
        push(E::A(match i % 3 {
            0 => Act::FPrint(name),
            1 => Act::FPrint0(name),
            _ => Act::FPrintf(name, vec![FEl::F(Fld::NameNoStart), FEl::Lit(":".into())]),
        }));
    }
    e.unwrap()
}

pub fn run(ctx: &Ctx) -> Report {
    let mut total = Stats::new();
    // chains with many destinations: tags cross 0x1e, 0x22, 0x5c, 0x7f, 0xff, 0x100
    let sizes: Vec<(usize, usize)> = ctx.tier.pick(vec![(1, 0), (2, 0), (27, 0), (28, 0), (29, 1), (33, 0), (60, 3), (95, 0), (130, 2), (260, 0), (300, 5)], (1..=310).map(|n| (n, n % 4)).collect());
    let ch = run_shards(sizes.len(), |i| {
        let mut st = Stats::new();
        let t = chain(sizes[i].0, sizes[i].1);
        let v = judge(&t);
        st.record(&v, stable_hash(&t), true, || json!({"kind": "chain", "destinations": sizes[i].0, "matchers_before": sizes[i].1}));
        if let Verdict::Fail(m) = &v {
            st.failures.last_mut().map(|f| f.case = case_json(&t));
            let _ = m;
        }
        st
    });
    total.merge(ch);
    total.exhaustive_parts.push("chains of up to 300 (quick: 11 sizes, thorough: every size 1..310) distinct file destinations with all three terminators".into());
    // printers before and after 127 distinct matchers (identifier numbers 256 apart), and file
    // names only a hand-built tree can carry (empty)
    let mut st0 = Stats::new();
    for n in [100usize, 126, 127, 128, 129, 254, 255, 256] {
        let mut e = E::and(E::A(Act::FPrint("first.out".into())), E::A(Act::FPrint("second.out".into())));
        for i in 0..n {
            e = E::or(E::and(e, E::T(Tst::False)), E::T(Tst::Name(format!("pattern-{i}.*"))));
        }
        e = E::and(e, E::A(Act::FPrint("last.out".into())));
        e = E::and(e, E::A(Act::Print0));
        let v = judge(&e);
        st0.record(&v, stable_hash(&e), true, || json!({"kind": "sandwich", "matchers_between_printers": n}));
    }
    for t in [
        E::and(E::and(E::A(Act::Print), E::A(Act::FPrint(String::new()))), E::and(E::A(Act::Print0), E::A(Act::FPrint0(String::new())))),
        E::and(E::A(Act::FPrintf(String::new(), vec![FEl::F(Fld::NameNoStart)])), E::A(Act::Printf(vec![FEl::F(Fld::NameNoStart)]))),
    ] {
        let v = judge(&t);
        st0.record(&v, stable_hash(&t), true, || case_json(&t));
    }
    // destinations that a fingerprint, a path normaliser or a shell would identify: they are
    // different strings, hence different destinations, each with its own tag
    let mut pairs: Vec<(String, String)> = fingerprint_twins("out", ".txt");
    for (a, b) in [("a", "./a"), ("a", "a/"), ("a/b", "a//b"), ("d/f", "d/./f"), ("log", "log/."), ("~/x", "/root/x"), ("~/x", "x"), ("$HOME/x", "/root/x"), ("a", "A"), ("a ", "a"), ("é", "e\u{301}")] {
        pairs.push((a.to_string(), b.to_string()));
    }
    if let Ok(h) = std::env::var("HOME") {
        pairs.push(("~/x".to_string(), format!("{h}/x")));
        pairs.push(("~/x".to_string(), format!("{}/x", h.trim_end_matches('/'))));
    }
    for (a, b) in &pairs {
        for t in [
            E::and(E::A(Act::FPrint(a.clone())), E::A(Act::FPrint(b.clone()))),
            E::or(E::A(Act::FPrint0(b.clone())), E::A(Act::FPrint0(a.clone()))),
            E::list(E::A(Act::FPrintf(a.clone(), vec![FEl::F(Fld::NameNoStart)])), E::and(E::A(Act::FPrint(a.clone())), E::A(Act::FPrintf(b.clone(), vec![FEl::F(Fld::NameNoStart)])))),
        ] {
            let v = judge(&t);
            st0.record(&v, stable_hash(&t), true, || case_json(&t));
        }
    }
    total.merge(st0);
    // long chains and deep nesting whose output is all plain: the mode must stay plain
    let mut st = Stats::new();
    for n in [10usize, 63, 64, 65, 66, 100, 129, 300] {
        for (k, act) in [Act::Print, Act::Printf(vec![FEl::F(Fld::NameNoStart), FEl::E(Esc::Newline)]), Act::Print0, Act::FPrint("a".into())].into_iter().enumerate() {
            for op in 0..3 {
                let mut e = E::T(Tst::Uid(Cmp::Eq, 1));
                for i in 1..n {
                    let leaf = if i == n - 1 { E::A(act.clone()) } else if i % 7 == 0 { E::T(Tst::Name("a".into())) } else { E::T(Tst::True) };
                    e = match op {
                        0 => E::and(e, leaf),
                        1 => E::or(e, leaf),
                        _ => E::list(e, leaf),
                    };
                }
                let v = judge(&e);
                st.record(&v, stable_hash(&e), true, || json!({"kind": "long-chain", "operands": n, "action": k, "operator": op, "tree": term::encode_expr(&e)}));
            }
            if n <= 100 {
                let mut e = E::A(act.clone());
                for _ in 0..n {
                    e = E::not(e);
                }
                let v = judge(&e);
                st.record(&v, stable_hash(&e), true, || json!({"kind": "nested-not", "depth": n, "action": k, "tree": term::encode_expr(&e)}));
            }
        }
    }
    total.merge(st);
    total.exhaustive_parts.push("chains of 10..300 operands and 10..100 nested negations ending in each kind of action (mode choice must not depend on the size of the tree)".into());
    // every number of distinct matchers (each takes two generated numbers) before the first printers:
    // the printer numbers and tags then take every value 2..150, and the values around 256 and 512
    let mut stm = Stats::new();
    let mut ms: Vec<usize> = (0..=72).collect();
    ms.extend([125, 126, 127, 128, 129, 253, 254, 255, 256, 257]);
    for m in ms {
        for tail in [vec![Act::FPrint("first.out".into()), Act::FPrint0("second.out".into())], vec![Act::Print0, Act::FPrint("f".into())], vec![Act::Printf(vec![FEl::F(Fld::NameNoStart)]), Act::Print]] {
            let mut e = E::T(Tst::False);
            for i in 0..m {
                e = E::or(e, E::T(if i % 3 == 0 { Tst::IName(format!("m{i}")) } else { Tst::Name(format!("m{i}*")) }));
            }
            e = E::or(e, E::T(Tst::True));
            for a in &tail {
                e = E::and(e, E::A(a.clone()));
            }
            let v = judge(&e);
            stm.record(&v, stable_hash(&e), true, || json!({"kind": "matchers-before", "matchers": m, "tree": term::encode_expr(&e)}));
        }
    }
    // tens of thousands of distinct matchers before the first printer: the printer number, which is
    // written into the program as a character, then passes 0xD800..0xDFFF (no characters there)
    fn balanced_or(leaves: &[E]) -> E {
        if leaves.len() == 1 {
            return leaves[0].clone();
        }
        let (l, r) = leaves.split_at(leaves.len() / 2);
        E::or(balanced_or(l), balanced_or(r))
    }
    for m in if scale_factor() < 1.0 { vec![27_647usize] } else { ctx.tier.pick(vec![27_647usize, 28_670], vec![27_646usize, 27_647, 27_648, 28_000, 28_670, 28_671]) } {
        let names: Vec<E> = (0..m).map(|i| E::T(Tst::Name(format!("p{i}")))).collect();
        for tail in [vec![Act::Print0], vec![Act::FPrint("a".into()), Act::FPrint0("b".into()), Act::FPrint("c".into())]] {
            let mut e = balanced_or(&names);
            for a in &tail {
                e = E::and(e, E::A(a.clone()));
            }
            // (quick tier: the program and the table are inspected, not executed - a policy with
            // tens of thousands of matchers takes the runtime model half a minute)
            let v = if ctx.tier == Tier::Quick { judge_tags(&e) } else { judge(&e) };
            // the same with one, two or three printers registered first (printers take one number,
            // matchers two: the counter then reaches the range with the other parity)
            if tail.len() == 1 {
                for first in 1..=3usize {
                    let mut e2 = E::A(Act::FPrint("early0".into()));
                    for k in 1..first {
                        e2 = E::and(e2, E::A(Act::FPrint0(format!("early{k}"))));
                    }
                    e2 = E::and(E::or(e2, E::T(Tst::True)), balanced_or(&names));
                    for a in [Act::FPrint("late1".into()), Act::Print0, Act::FPrint("late2".into())] {
                        e2 = E::and(e2, E::A(a));
                    }
                    let v2 = judge_tags(&e2);
                    stm.record(&v2, stable_hash(&(m, first, "parity")), true, || json!({"kind": "matchers-before", "matchers": m, "printers_first": first}));
                    if let Verdict::Fail(_) = v2 {
                        stm.failures.last_mut().map(|f| f.case = case_json(&e2));
                    }
                }
            }
            stm.record(&v, stable_hash(&(m, &tail)), true, || json!({"kind": "matchers-before", "matchers": m, "actions": format!("{tail:?}")}));
            if let Verdict::Fail(_) = v {
                stm.failures.last_mut().map(|f| f.case = json!({"kind": "matchers-before", "matchers": m, "tail": tail.len()}));
            }
        }
    }
    stm.samples.truncate(1);
    total.merge(stm);
    // chains nested to the left and to the right, the only action at a chosen operand position
    let spines = crate::combo::spine_trees(ctx.tier.pick(300, 1000));
    let sp = run_shards(16, |shard| {
        let mut st = Stats::new();
        for (i, (t, what)) in spines.iter().enumerate().filter(|(i, _)| i % 16 == shard) {
            let v = judge(t);
            st.record(&v, stable_hash(t), true, || json!({"kind": "tree", "what": what, "tree": term::encode_expr(t)}));
        }
        st.samples.truncate(1);
        st
    });
    total.merge(sp);
    // requests that a registry keyed by a concatenation of their parts would take for one
    let mut twins = crate::combo::concat_twin_trees();
    twins.extend(crate::combo::escape_twin_trees());
    twins.extend(crate::combo::long_prefix_twin_trees());
    let tw = run_shards(16, |shard| {
        let mut st = Stats::new();
        for (i, t) in twins.iter().enumerate().filter(|(i, _)| i % 16 == shard) {
            let v = judge(t);
            st.record(&v, stable_hash(t), true, || case_json(t));
        }
        st.samples.truncate(1);
        st
    });
    total.merge(tw);
    crate::fuzzrun::replay_policy_trees(&mut total, judge);
    // interaction triples: three leaf kinds under every operator skeleton
    let tr = crate::combo::run_triples(ctx.seed, &crate::combo::supported_kinds(), ctx.tier.pick(48, 3), judge, case_json);
    total.merge(tr);
    let cases = ctx.tier.pick(160_000u32, 1_600_000u32);
    let rnd = run_shards(16, |shard| {
        let mut st = Stats::new();
        let leaf = prop_oneof![5 => routing_action().prop_map(E::A), 1 => Just(E::T(Tst::True)), 1 => Just(E::T(Tst::False)), 1 => Just(E::T(Tst::Name("a".into()))), 1 => Just(E::T(Tst::IName("*.C".into())))];
        let strat = (gen::related(gen::expr_over(leaf.boxed(), 4, 12, true), true), prop_oneof![3 => Just(None), 1 => Just(Some(0u32)), 1 => Just(Some(1u32)), 1 => Just(Some(2u32)), 1 => gen::count_u32().prop_map(Some)]);
        run_prop(&mut st, ctx.seed, "C10", shard as u64, cases / 16, &strat, |(t, th)| judge_with_threads(t, *th), |(t, th)| {
            let mut j = case_json(t);
            j["threads_option"] = json!(th);
            j
        });
        st
    });
    total.merge(rnd);
    Report {
        stats: total,
        rule: "random operator trees over up to ~6 output actions drawn from {-print, -print0, -printf F\\n, -printf F, -fprint f, -fprint0 f, -fprintf f F, -print-file-fid, -quit} with f in {a,b,c} (so sharing and non-sharing both occur) and a few tests, executed on three files, compiled without and with a -threads option; plus chains with up to 300 distinct destinations, and pairs of destinations that a truncated fingerprint, a path normaliser or a shell would identify (hash twins, a vs ./a vs a/, ~/x vs $HOME/x, a vs A). A quarter of the trees also go through their canonical command line: it must be accepted, and when it parses to the same tree the output mode and the size of the table must equal those of the hand-built tree. Oracle: framed mode iff some action writes to a file, NUL-terminates or prints a format whose last element is not the newline escape (computed on the specification side); plain mode has no destination table; in framed mode the table is a bijection between tags and the distinct requested (destination, terminator) pairs, the stdout stream of every file parses completely into frames, every tag is a key of the table, and aligning the frames with the outputs find's rules produce, table[tag] is the producing action's (destination, terminator). Also: interaction triples, chains nested to the left and to the right, every number 0..72 (and ~127, ~255) of distinct matchers before the printers, tens of thousands of them (printer numbers around 0xD800, with either parity; quick tier: program and table inspected, thorough: executed), requests that a concatenated key would confuse, escape twins, names that agree in their first 64..65536 bytes, the trees of the policy fuzz corpus. Non-trivial: >=3 requested pairs or a destination shared by different terminators, with at least one output produced. Distinct: by tree.".into(),
        assumptions: crate::checks::c02::runtime_assumptions(),
        exhaustive: false,
    }
}
