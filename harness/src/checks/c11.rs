//! C11 — generated identifiers: bound once, before use, never captured;
//! every reference reaches the resource created for that very request.

use crate::files::FileRec;
use crate::gen::{self, NAME_POOL};
use crate::policy::{self, CompileOutcome};
use crate::scope::{self, Analysis};
use crate::speceval::Dest;
use crate::sx::{self, Sx};
use crate::term;
use crate::tree::*;
use crate::util::*;
use proptest::prelude::*;
use serde_json::{json, Value};
use std::collections::HashMap;

#[derive(Debug, Clone, PartialEq, Eq, Hash)]
enum Req {
    /// (pattern, case-insensitive)
    Matcher(String, bool),
    Printer(Dest, Option<char>),
}

fn requests(e: &E) -> Vec<Req> {
    let mut out = vec![];
    for l in e.leaves() {
        match l {
            E::T(Tst::Name(p)) | E::T(Tst::Path(p)) => out.push(Req::Matcher(p.clone(), false)),
            E::T(Tst::IName(p)) | E::T(Tst::IPath(p)) => out.push(Req::Matcher(p.clone(), true)),
            E::A(Act::Print) => out.push(Req::Printer(Dest::Stdout, Some('\n'))),
            E::A(Act::Print0) => out.push(Req::Printer(Dest::Stdout, Some('\0'))),
            E::A(Act::Printf(_)) => out.push(Req::Printer(Dest::Stdout, None)),
            E::A(Act::FPrint(f)) => out.push(Req::Printer(Dest::File(f.clone()), Some('\n'))),
            E::A(Act::FPrint0(f)) => out.push(Req::Printer(Dest::File(f.clone()), Some('\0'))),
            E::A(Act::FPrintf(f, _)) => out.push(Req::Printer(Dest::File(f.clone()), None)),
            _ => {}
        }
    }
    out
}

fn has_glob(p: &str) -> bool {
    p.contains('*') || p.contains('?') || p.contains('[')
}

/// Does the binding `name` denote the resource `req`?
fn binding_is(an: &Analysis, name: &str, req: &Req, io_map: &Option<std::collections::BTreeMap<u32, (Dest, Option<char>)>>) -> Result<(), String> {
    let b = an.binding(name).ok_or_else(|| format!("{name} is not bound"))?;
    match req {
        Req::Matcher(pat, ci) => {
            // (lambda (v) (<fn>? "<pattern>" v))
            let l = b.init.list().ok_or("matcher is not a lambda")?;
            let ok = l.len() == 3 && l[0].is_sym("lambda");
            let param = l.get(1).and_then(|p| p.list()).and_then(|p| p.first()).and_then(|p| p.sym());
            let call = l.get(2).and_then(|c| c.list());
            let (Some(param), Some(call), true) = (param, call, ok) else { return Err(format!("{name} is bound to {:?}, not to a one-argument matcher", b.init)) };
            let want_fn = match (has_glob(pat), ci) {
                (true, true) => "fnmatch-ci?",
                (false, true) => "streq-ci?",
                (true, false) => "fnmatch?",
                (false, false) => "streq?",
            };
            if call.len() != 3 || !call[0].is_sym(want_fn) || call[1] != Sx::Str(pat.clone()) || !call[2].is_sym(param) {
                return Err(format!("{name} is bound to {:?}; the request is ({want_fn} {pat:?} <string>)", b.init));
            }
            Ok(())
        }
        Req::Printer(dest, term) => match io_map {
            None => {
                // (make-printer PORT MUTEX TERM)
                let l = b.init.list().ok_or("printer is not a call")?;
                if l.len() != 4 || !l[0].is_sym("make-printer") {
                    return Err(format!("{name} is bound to {:?}, not to (make-printer port mutex term)", b.init));
                }
                let want_term = match term {
                    None => Sx::Bool(false),
                    Some(c) => Sx::Char(*c),
                };
                if l[3] != want_term {
                    return Err(format!("{name}: terminator {:?}, requested {term:?}", l[3]));
                }
                let port = l[1].sym().and_then(|p| an.binding(p)).ok_or("printer port is not a generated binding")?;
                let mutex = l[2].sym().and_then(|p| an.binding(p)).ok_or("printer mutex is not a generated binding")?;
                if mutex.init.head() != Some("make-mutex") {
                    return Err(format!("{name}: mutex binding is {:?}", mutex.init));
                }
                match dest {
                    Dest::Stdout => {
                        if port.init.head() != Some("current-output-port") {
                            return Err(format!("{name}: port is {:?}, requested stdout", port.init));
                        }
                    }
                    Dest::File(f) => {
                        let ok = port.init.list().map(|p| p.len() == 3 && p[0].is_sym("open-file") && p[1] == Sx::Str(f.clone())).unwrap_or(false);
                        if !ok {
                            return Err(format!("{name}: port is {:?}, requested file {f:?}", port.init));
                        }
                    }
                }
                Ok(())
            }
            Some(map) => {
                // (lambda (line) (%lf3:frame:2 line #\xTAG))
                let l = b.init.list().ok_or("printer is not a lambda")?;
                let call = l.get(2).and_then(|c| c.list()).ok_or_else(|| format!("{name} is bound to {:?}", b.init))?;
                let tag = match call.get(2) {
                    Some(Sx::Char(c)) => *c as u32,
                    other => return Err(format!("{name}: no tag in {:?} ({other:?})", b.init)),
                };
                let frame = call[0].sym().and_then(|f| an.binding(f)).ok_or("frame procedure is not bound")?;
                if frame.index >= b.index {
                    return Err("frame procedure bound after the printer".into());
                }
                match map.get(&tag) {
                    Some((d, t)) if d == dest && t == term => Ok(()),
                    other => Err(format!("{name} carries tag {tag}; the destination table says {other:?}, the request was ({dest:?}, {term:?})")),
                }
            }
        },
    }
}

/// The same expression through its command line, in a layout variant (other separators, quoting,
/// blanks left out next to punctuation): when that text is accepted, every resource must still be
/// requested for the very pattern / destination that was written.
fn text_path(tree: &E) -> Option<Verdict> {
    if stable_hash(tree) % 4 != 1 {
        return None;
    }
    let canon = crate::render::canonical(tree)?;
    // only trees whose plain command line comes back as the same tree are compared
    match catch(|| lipe_find_parser::parse(&canon)) {
        Ok(Ok((_, x))) if from_ast(&x) == *tree => {}
        _ => return None,
    }
    let h = stable_hash(&(tree, 11u8));
    let choices: Vec<u16> = (0..60u32).map(|i| (h.rotate_left(i * 7 % 64) as u16) ^ (i as u16).wrapping_mul(40503)).collect();
    let mut ch = crate::render::Stream::new(&choices, crate::render::ALL_LAYOUT | crate::render::Cat::Glue as u32);
    let text = crate::render::variant(tree, &mut ch)?;
    match catch(|| lipe_find_parser::parse(&text)) {
        Err(p) => Some(Verdict::Fail(format!("parse panicked on {text:?}: {p}"))),
        Ok(Err(_)) if ch.glued || ch.blank_after_bare => None,
        Ok(Err(e)) => Some(Verdict::Fail(format!("{text:?} is a layout variant of {canon:?}, which is accepted, but it was rejected: {e}"))),
        Ok(Ok((_, x))) => {
            let got = from_ast(&x);
            if got != *tree {
                let (a, b) = (resources_of(tree), resources_of(&got));
                if a != b {
                    return Some(Verdict::Fail(format!("{text:?} is a layout variant of {canon:?}, but the resources requested differ: written {a:?}, parsed {b:?}")));
                }
            }
            None
        }
    }
}

/// the (kind, string) requests of a tree in textual order
fn resources_of(e: &E) -> Vec<String> {
    e.leaves()
        .iter()
        .filter_map(|l| match l {
            E::T(Tst::Name(p)) => Some(format!("name {p:?}")),
            E::T(Tst::IName(p)) => Some(format!("iname {p:?}")),
            E::T(Tst::Path(p)) => Some(format!("path {p:?}")),
            E::T(Tst::IPath(p)) => Some(format!("ipath {p:?}")),
            E::A(Act::FPrint(f)) => Some(format!("fprint {f:?}")),
            E::A(Act::FPrint0(f)) => Some(format!("fprint0 {f:?}")),
            E::A(Act::FPrintf(f, _)) => Some(format!("fprintf {f:?}")),
            _ => None,
        })
        .collect()
}

pub fn judge(tree: &E) -> Verdict {
    judge_with(tree, true)
}

/// `behaviour` off: the structural part only (for expressions with tens of thousands of resources)
pub fn judge_with(tree: &E, behaviour: bool) -> Verdict {
    if behaviour {
        if let Some(v) = text_path(tree) {
            return v;
        }
    }
    let comp = match policy::compile_tree(tree, None, "/") {
        CompileOutcome::Ok(c) => c,
        CompileOutcome::Err(_) => return Verdict::Skip("does not compile (C12)"),
        CompileOutcome::Panic(p) => return Verdict::Fail(format!("compile panicked: {p}")),
    };
    let forms = match sx::read_all(&comp.text) {
        Ok(f) => f,
        Err(e) => return Verdict::Fail(format!("program does not read: {e}\n{}", truncate(&comp.text, 2000))),
    };
    let an = scope::analyse(&forms);
    if let Some(p) = an.problems.first() {
        return Verdict::Fail(format!("{tree:?}: {p}\n{}", truncate(&comp.text, 3000)));
    }
    let Some(thunk) = &an.thunk else { return Verdict::Fail("no scan thunk".into()) };
    // references of the body in evaluation order versus the requests of the leaves in the same order
    let reqs = requests(tree);
    let mut refs = vec![];
    thunk.walk(&mut |n| {
        if let Sx::Sym(s) = n {
            if s.starts_with("%lf3:match:") || s.starts_with("%lf3:print:") {
                refs.push(s.clone());
            }
        }
    });
    if refs.len() != reqs.len() {
        return Verdict::Fail(format!("{tree:?}: the body references {} generated matchers/printers, the expression requests {}\n{}", refs.len(), reqs.len(), truncate(&comp.text, 3000)));
    }
    let mut by_req: HashMap<&Req, &String> = HashMap::new();
    let mut by_name: HashMap<&String, &Req> = HashMap::new();
    for (r, q) in refs.iter().zip(reqs.iter()) {
        if let Err(e) = binding_is(&an, r, q, &comp.io_map) {
            return Verdict::Fail(format!("{tree:?}: reference {r} for request {q:?}: {e}\n{}", truncate(&comp.text, 3000)));
        }
        if let Some(prev) = by_req.insert(q, r) {
            if prev != r {
                return Verdict::Fail(format!("identical requests {q:?} use two different identifiers {prev} and {r}"));
            }
        }
        if let Some(prev) = by_name.insert(r, q) {
            if prev != q {
                return Verdict::Fail(format!("different requests {prev:?} and {q:?} share the identifier {r}"));
            }
        }
    }
    if !behaviour {
        return Verdict::Pass { nt: true, class: "very large expression: structure only" };
    }
    // every generated binding is used or is infrastructure (port/mutex/frame); none is bound but unreferenced twice
    // behavioural sample: files that each match exactly one pattern
    let mut files = vec![];
    let base = FileRec::base(comp.now);
    for q in &reqs {
        if let Req::Matcher(p, _) = q {
            let inst = crate::files::instance_of(p);
            if !inst.is_empty() && files.len() < 12 {
                let mut f = base.with_name(inst.rsplit('/').next().unwrap_or("x"));
                if inst.contains('/') {
                    f.rel_path = inst.clone();
                }
                files.push(f);
            }
        }
    }
    files.push(base.clone());
    let run = match policy::run_policy(&comp, files.clone()) {
        Ok(r) => r,
        Err(e) => return Verdict::Fail(format!("{tree:?}: {e}")),
    };
    if let Some(e) = &run.error {
        return Verdict::Fail(format!("{tree:?}: program fails at run time: {e}\n{}", truncate(&comp.text, 3000)));
    }
    for (i, f) in files.iter().enumerate() {
        let mut obs = policy::observe(&run, &comp, i);
        obs.stream_errors.retain(|s| !s.contains("outside any frame"));
        match policy::spec_eval_matching(tree, f, comp.now, &obs) {
            Err(_) => {}
            Ok(Ok(())) => {}
            Ok(Err(d)) => return Verdict::Fail(format!("{tree:?} on {:?}: {d}\n{}", f.rel_path, truncate(&comp.text, 3000))),
        }
    }
    let kinds = reqs.iter().any(|r| matches!(r, Req::Matcher(..))) as u8 + reqs.iter().any(|r| matches!(r, Req::Printer(..))) as u8;
    let distinct: std::collections::HashSet<&Req> = reqs.iter().collect();
    let nt = kinds == 2 && distinct.len() < reqs.len();
    Verdict::Pass { nt, class: if comp.io_map.is_some() { "framed mode" } else { "plain mode" } }
}

fn case_json(t: &E) -> Value {
    json!({"kind": "tree", "tree": term::encode_expr(t), "requests": requests(t).len()})
}
pub fn replay(case: &Value) -> Result<Verdict, String> {
    Ok(judge(&term::decode_expr(case["tree"].as_str().ok_or("no tree")?)?))
}

fn resource_leaf(framed: bool) -> BoxedStrategy<E> {
    let pat = || {
        prop_oneof![
            4 => prop::sample::select(NAME_POOL.to_vec()).prop_map(|s| s.to_string()),
            1 => "[a-c*?]{1,3}",
            // strings that are special to the code under test (template holes, generated names)
            1 => prop::sample::select(crate::dict::names()),
            1 => (0u32..400).prop_map(|i| format!("n{i}")),
            // a string and its escaped spelling, with and without glob characters
            1 => prop::sample::select(vec!["src", "src/i", "a/i", "foo/i", "foo", "*.c/i", "*.c", "x|i", "x"]).prop_map(|s| s.to_string()),
            1 => prop::sample::select(vec!["a\"b", "a\\\"b", "x\\y", "x\\\\y", "draft\\?", "draft\\\\?", "q\"*", "q\\\"*"]).prop_map(|s| s.to_string()),
        ]
    };
    let file = || prop_oneof![
        4 => prop::sample::select(vec!["a", "b", "c"]).prop_map(|s| s.to_string()),
        3 => (0u32..300).prop_map(|i| format!("o{i}")),
        // names that differ only in spelling of the same path are still different requests
        2 => prop::sample::select(vec!["/a/b", "a/b", "./a/b", "a//b", "a/./b", "a/b/", "A/B"]).prop_map(|s| s.to_string()),
        1 => prop::sample::select(crate::dict::paths()),
    ];
    let fmt = prop_oneof![Just(vec![FEl::F(Fld::NameNoStart), FEl::E(Esc::Newline)]), Just(vec![FEl::F(Fld::Basename), FEl::Lit("~".into()), FEl::E(Esc::Newline)])];
    let fmt2 = fmt.clone();
    if framed {
        prop_oneof![
            3 => pat().prop_map(|p| E::T(Tst::Name(p))),
            3 => pat().prop_map(|p| E::T(Tst::IName(p))),
            1 => pat().prop_map(|p| E::T(Tst::Path(p))),
            1 => pat().prop_map(|p| E::T(Tst::IPath(p))),
            1 => Just(E::A(Act::Print)),
            1 => Just(E::A(Act::Print0)),
            1 => fmt.prop_map(|f| E::A(Act::Printf(f))),
            2 => file().prop_map(|f| E::A(Act::FPrint(f))),
            2 => file().prop_map(|f| E::A(Act::FPrint0(f))),
            1 => (file(), fmt2).prop_map(|(n, f)| E::A(Act::FPrintf(n, f))),
        ]
        .boxed()
    } else {
        prop_oneof![
            3 => pat().prop_map(|p| E::T(Tst::Name(p))),
            3 => pat().prop_map(|p| E::T(Tst::IName(p))),
            1 => pat().prop_map(|p| E::T(Tst::Path(p))),
            1 => pat().prop_map(|p| E::T(Tst::IPath(p))),
            2 => Just(E::A(Act::Print)),
            2 => fmt.prop_map(|f| E::A(Act::Printf(f))),
            1 => Just(E::T(Tst::True)),
        ]
        .boxed()
    }
}

/// long chain in random first-occurrence order
pub fn chain_strategy(max: usize) -> BoxedStrategy<E> {
    (any::<bool>(), 0..max)
        .prop_flat_map(|(framed, n)| proptest::collection::vec((resource_leaf(framed), 0u8..3), n.max(1)))
        .prop_map(|leaves| {
            let mut it = leaves.into_iter();
            let (first, _) = it.next().unwrap();
            it.fold(first, |acc, (l, op)| match op {
                0 => E::and(acc, l),
                1 => E::or(acc, l),
                _ => E::and(acc, E::not(l)),
            })
        })
        .boxed()
}

pub fn run(ctx: &Ctx) -> Report {
    let cases = ctx.tier.pick(32_000u32, 320_000u32);
    let mut total = run_shards(16, |shard| {
        let mut st = Stats::new();
        let strat = gen::related(prop_oneof![3 => chain_strategy(40), 1 => chain_strategy(300), 2 => (any::<bool>()).prop_flat_map(|f| gen::expr_over(resource_leaf(f), 6, 40, true))].boxed(), true);
        run_prop(&mut st, ctx.seed, "C11", shard as u64, cases / 16, &strat, judge, case_json);
        st
    });
    // patterns and destinations that a truncated fingerprint (32 bits of the std hasher, fed in any
    // of the usual ways; byte sum; length) cannot tell apart: different requests never share
    let mut st = Stats::new();
    let mut pairs = fingerprint_twins("file", ".dat");
    pairs.extend(fingerprint_twins("*/", ""));
    for (a, b) in &pairs {
        for t in [
            E::or(E::T(Tst::Name(a.clone())), E::T(Tst::Name(b.clone()))),
            E::or(E::T(Tst::IName(b.clone())), E::T(Tst::IName(a.clone()))),
            E::and(E::or(E::T(Tst::Path(a.clone())), E::T(Tst::IPath(b.clone()))), E::or(E::T(Tst::Path(b.clone())), E::T(Tst::IPath(a.clone())))),
            E::and(E::or(E::T(Tst::Name(a.clone())), E::T(Tst::Name(b.clone()))), E::A(Act::Print0)),
            E::and(E::and(E::A(Act::FPrint(a.clone())), E::A(Act::FPrint(b.clone()))), E::or(E::T(Tst::IName(a.clone())), E::T(Tst::IName(b.clone())))),
        ] {
            let v = judge(&t);
            st.record(&v, stable_hash(&t), true, || case_json(&t));
        }
    }
    st.samples.truncate(2);
    total.merge(st);
    // requests that a registry keyed by a concatenation of their parts would take for one
    let mut twins = crate::combo::concat_twin_trees();
    twins.extend(crate::combo::escape_twin_trees());
    twins.extend(crate::combo::long_prefix_twin_trees());
    let tw = run_shards(16, |shard| {
        let mut st = Stats::new();
        for (i, t) in twins.iter().enumerate().filter(|(i, _)| i % 16 == shard) {
            let v = judge(t);
            st.record(&v, stable_hash(t), true, || case_json(t));
        }
        st.samples.truncate(1);
        st
    });
    total.merge(tw);
    // 33 000 distinct matchers, then early and late ones again (an identifier stored in 16 bits, a
    // registry that degrades with size), in plain and in framed mode
    fn balanced(leaves: &[E]) -> E {
        if leaves.len() == 1 {
            return leaves[0].clone();
        }
        let (l, r) = leaves.split_at(leaves.len() / 2);
        E::or(balanced(l), balanced(r))
    }
    let mut stb = Stats::new();
    for (n, framed) in if scale_factor() < 1.0 { vec![] } else { vec![(33_000usize, false), (33_000, true), (33_001, true)] } {
        let mut names: Vec<E> = (0..n).map(|i| E::T(if i % 2 == 0 { Tst::Name(format!("p{i}")) } else { Tst::IName(format!("p{i}")) })).collect();
        for again in [2usize, 40, 32_766, 32_768, 32_770, 32_999] {
            names.push(E::T(if again % 2 == 0 { Tst::Name(format!("p{again}")) } else { Tst::IName(format!("p{again}")) }));
        }
        let mut t = balanced(&names);
        if n % 2 == 1 {
            // one printer first: every later number has the other parity
            t = E::and(E::or(E::A(Act::FPrint("early.out".into())), E::T(Tst::True)), t);
        }
        t = E::and(t, E::A(if framed { Act::FPrint0("big.out".into()) } else { Act::Print }));
        let t0 = std::time::Instant::now();
        let v = judge_with(&t, false);
        stb.notes.push(format!("structural judgement of {n} matchers took {:.1} s", t0.elapsed().as_secs_f64()));
        stb.record(&v, stable_hash(&(n, framed, "big")), true, || json!({"kind": "many-matchers", "matchers": n, "framed": framed}));
    }
    total.merge(stb);
    crate::fuzzrun::replay_policy_trees(&mut total, judge);
    // interaction triples: three leaf kinds under every operator skeleton
    let tr = crate::combo::run_triples(ctx.seed, &crate::combo::supported_kinds(), ctx.tier.pick(48, 3), judge, case_json);
    total.merge(tr);
    Report {
        stats: total,
        rule: "expressions with 0..300 matcher requests (-name/-iname/-path/-ipath over a pool with deliberate repeats, case-only twins, literal/pattern pairs) and printer requests (stdout and files x three terminators) in random first-occurrence order, in plain and framed mode. Oracle: scope analysis of the program read by the independent reader: every let* name bound once, every use resolves to an earlier let* binding, an enclosing lambda parameter or the runtime vocabulary; the generated references of the policy body, zipped in evaluation order with the tree's leaves, must resolve to that leaf's resource (matcher: (lambda (v) (fn? \"pattern\" v)) with fn chosen by glob/case and the decoded pattern; printer: port/terminator in plain mode, tag -> destination table in framed mode); identical requests share an identifier, different ones never do; plus a behavioural run on files matching one pattern each. A quarter of the trees whose canonical command line parses back to the same tree are also rendered in a layout variant (separators, quoting, blanks left out next to punctuation): if that text is accepted, the requests it makes (kind and string, in order) must be the ones written. Also pairs of patterns/destinations whose std-hasher values agree in the low 32 bits (birthday search at run time, six ways of feeding the hasher) or that weak fingerprints confuse. Also: interaction triples, concatenation / escape / long-prefix twins, strings of two leaves related (equal string as pattern and file name, prefix, suffix, other case, escaped form), 33 000 distinct matchers followed by requests for early and late ones again (structure only), the trees of the policy fuzz corpus. Non-trivial: both resource kinds present and at least one repeated request. Distinct: by tree.".into(),
        assumptions: crate::checks::c02::runtime_assumptions(),
        exhaustive: false,
    }
}
