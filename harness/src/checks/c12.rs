//! C12 — unsupported constructs are refused, never silently dropped.

use crate::gen;
use crate::interp::{RUNTIME_GLOBALS, SPECIAL_FORMS};
use crate::policy::{self, CompileOutcome};
use crate::scope;
use crate::sx::{self, Sx};
use crate::term;
use crate::tree::*;
use crate::util::*;
use proptest::prelude::*;
use serde_json::{json, Value};

/// names (as spelled in the public `ast` types) of the unsupported constructs of a tree
pub fn unsupported_names(e: &E) -> Vec<String> {
    let mut out = vec![];
    for l in e.leaves() {
        match l {
            E::T(Tst::U(u)) => out.push(
                match u {
                    UTest::AccessNewer(_) => "AccessNewer",
                    UTest::ChangeNewer(_) => "ChangeNewer",
                    UTest::ModifyNewer(_) => "ModifyNewer",
                    UTest::FsType(_) => "FsType",
                    UTest::Group(_) => "Group",
                    UTest::User(_) => "User",
                    UTest::ILName(_) => "InsensitiveLinkName",
                    UTest::LName(_) => "LinkName",
                    UTest::IRegex(_) => "InsensitiveRegex",
                    UTest::Regex(_) => "Regex",
                    UTest::Samefile(_) => "Samefile",
                    UTest::NoGroup => "NoGroup",
                    UTest::NoUser => "NoUser",
                }
                .to_string(),
            ),
            E::A(Act::Ls) => out.push("List".into()),
            E::A(Act::Fls(_)) => out.push("FileList".into()),
            E::A(Act::Prune) => out.push("Prune".into()),
            E::A(Act::Printf(f)) | E::A(Act::FPrintf(_, f)) => {
                for el in f {
                    if let FEl::F(fl) = el {
                        if !fl.supported() {
                            out.push(fl.variant_name().to_string());
                        }
                    }
                }
            }
            E::Pos => out.push("XDev".into()),
            _ => {}
        }
    }
    out
}

#[derive(Debug, PartialEq)]
enum Sk {
    And(Box<Sk>, Box<Sk>),
    Or(Box<Sk>, Box<Sk>),
    Not(Box<Sk>),
    Leaf(Option<bool>),
}

fn tree_skeleton(e: &E) -> Sk {
    match e {
        E::And(a, b) | E::List(a, b) => Sk::And(Box::new(tree_skeleton(a)), Box::new(tree_skeleton(b))),
        E::Or(a, b) => Sk::Or(Box::new(tree_skeleton(a)), Box::new(tree_skeleton(b))),
        E::Not(a) => Sk::Not(Box::new(tree_skeleton(a))),
        E::Prec(a) => tree_skeleton(a),
        E::T(Tst::True) => Sk::Leaf(Some(true)),
        E::T(Tst::False) => Sk::Leaf(Some(false)),
        // a type list of several letters is emitted as (or ...): treated as a leaf below
        _ => Sk::Leaf(None),
    }
}

/// skeleton of the emitted body, guided by the tree (so that leaf-internal and/or/not stay leaves)
fn body_matches(x: &Sx, sk: &Sk) -> Result<(), String> {
    match sk {
        Sk::And(a, b) | Sk::Or(a, b) => {
            let want = if matches!(sk, Sk::And(..)) { "and" } else { "or" };
            match x.list() {
                Some([h, l, r]) if h.is_sym(want) => {
                    body_matches(l, a)?;
                    body_matches(r, b)
                }
                _ => Err(format!("expected ({want} _ _), found {x:?}")),
            }
        }
        Sk::Not(a) => match x.list() {
            Some([h, l]) if h.is_sym("not") => body_matches(l, a),
            _ => Err(format!("expected (not _), found {x:?}")),
        },
        Sk::Leaf(Some(b)) => {
            if *x == Sx::Bool(*b) {
                Ok(())
            } else {
                Err(format!("expected the constant {}, found {x:?}", if *b { "#t" } else { "#f" }))
            }
        }
        Sk::Leaf(None) => match x {
            Sx::List(l) if !l.is_empty() => Ok(()),
            other => Err(format!("a test or action was replaced by the constant/atom {other:?}")),
        },
    }
}

pub fn judge(tree: &E) -> Verdict {
    // the same expression written as text must meet the same fate (the refusal must not depend on
    // how the tree was obtained)
    if let Some(text) = crate::render::canonical(tree) {
        if stable_hash(&text) % 4 == 0 {
            if let Ok(Ok((opts, x))) = catch(|| lipe_find_parser::parse(&text)) {
                let has_unsup = !unsupported_names(tree).is_empty();
                match catch(|| lipe_find_parser::compile(&x, &opts).map(|c| c.scheme("/"))) {
                    Err(p) => return Verdict::Fail(format!("compile panicked on the parsed form of {text:?}: {p}")),
                    Ok(Ok(prog)) if has_unsup => return Verdict::Fail(format!("{text:?} contains unsupported constructs {:?} but its parsed form compiled to\n{prog}", unsupported_names(tree))),
                    Ok(Err(e)) if !has_unsup => return Verdict::Fail(format!("{text:?} is made only of supported constructs but its parsed form fails to compile: {e}")),
                    _ => {}
                }
            }
        }
    }
    let unsup = unsupported_names(tree);
    let first_leaf_unsup = tree.leaves().first().map(|l| !unsupported_names(l).is_empty()).unwrap_or(false);
    match policy::compile_tree(tree, None, "/") {
        CompileOutcome::Panic(p) => Verdict::Fail(format!("compile panicked on {tree:?}: {p}")),
        CompileOutcome::Err(msg) => {
            if unsup.is_empty() {
                return Verdict::Fail(format!("{tree:?} is made only of supported constructs but compile failed: {msg}"));
            }
            if !unsup.iter().any(|n| msg.contains(n.as_str())) {
                return Verdict::Fail(format!("{tree:?}: the error does not name any of the unsupported constructs {unsup:?}: {msg:?}"));
            }
            Verdict::Pass { nt: !first_leaf_unsup || tree.n_operators() > 0, class: "refused, error names the construct" }
        }
        CompileOutcome::Ok(c) => {
            if !unsup.is_empty() {
                return Verdict::Fail(format!("{tree:?} contains unsupported constructs {unsup:?} but compiled to\n{}", c.text));
            }
            let forms = match sx::read_all(&c.text) {
                Ok(f) => f,
                Err(e) => return Verdict::Fail(format!("program does not read: {e}\n{}", c.text)),
            };
            let an = scope::analyse(&forms);
            let allowed = |s: &str| RUNTIME_GLOBALS.contains(&s) || SPECIAL_FORMS.contains(&s);
            if let Some(u) = an.unknown_symbols.iter().find(|s| !allowed(s)) {
                return Verdict::Fail(format!("{tree:?}: emitted program uses the symbol {u}, which is not part of the runtime vocabulary (placeholder?)\n{}", c.text));
            }
            // (what a supported expression is translated into is C02's business; here: it compiles,
            // and nothing outside the runtime vocabulary - a placeholder - is left in the program)
            Verdict::Pass { nt: tree.n_operators() >= 2, class: "supported: compiles, no placeholder" }
        }
    }
}

fn case_json(t: &E) -> Value {
    json!({"kind": "tree", "tree": term::encode_expr(t), "text": crate::render::canonical(t)})
}
pub fn replay(case: &Value) -> Result<Verdict, String> {
    Ok(judge(&term::decode_expr(case["tree"].as_str().ok_or("no tree")?)?))
}

pub fn full_leaf() -> BoxedStrategy<E> {
    prop_oneof![
        10 => gen::supported_leaf(),
        2 => gen::unsupported_test().prop_map(E::T),
        1 => gen::unsupported_action().prop_map(E::A),
        1 => gen::fmt_elements(false, true, 6).prop_map(|f| E::A(Act::Printf(f))),
        1 => (gen::file_name(), gen::fmt_elements(false, true, 6)).prop_map(|(n, f)| E::A(Act::FPrintf(n, f))),
        1 => Just(E::Pos),
        1 => Just(E::T(Tst::U(UTest::LName("x".into())))),
    ]
    .boxed()
}

pub fn run(ctx: &Ctx) -> Report {
    let mut total = Stats::new();
    // every unsupported construct alone and in fixed positions
    let mut st = Stats::new();
    let mut singles: Vec<E> = vec![E::Pos, E::A(Act::Ls), E::A(Act::Prune), E::A(Act::Fls("f".into())), E::T(Tst::U(UTest::LName("x".into())))];
    for l in crate::checks::c05::leaf_per_keyword() {
        if !unsupported_names(&l).is_empty() {
            singles.push(l);
        }
    }
    for f in gen::unsupported_fields() {
        for pos in 0..3 {
            let mut els = vec![FEl::Lit("a".into()), FEl::F(Fld::Name), FEl::E(Esc::Newline)];
            els.insert(pos.min(els.len()), FEl::F(f.clone()));
            singles.push(E::A(Act::Printf(els.clone())));
            singles.push(E::A(Act::FPrintf("out".into(), els)));
        }
        singles.push(E::A(Act::Printf(vec![FEl::E(Esc::Clear), FEl::F(f.clone())])));
    }
    // formats with several \c: an unsupported directive between them, after the last one, before the first
    for f in gen::unsupported_fields() {
        singles.push(E::A(Act::Printf(vec![FEl::F(Fld::Name), FEl::E(Esc::Clear), FEl::Lit(" ".into()), FEl::F(f.clone()), FEl::E(Esc::Clear), FEl::E(Esc::Newline)])));
        singles.push(E::A(Act::Printf(vec![FEl::E(Esc::Clear), FEl::E(Esc::Clear), FEl::F(f.clone())])));
        singles.push(E::A(Act::FPrintf("o".into(), vec![FEl::E(Esc::Clear), FEl::F(f.clone()), FEl::E(Esc::Clear), FEl::E(Esc::Clear)])));
    }
    // every unsupported string-valued test with every word of the dictionary taken from the sources
    // under test (an argument that is special to the code must not turn the refusal off)
    // ... and with long arguments whose multi-byte characters straddle every byte offset up to 130
    // (messages that shorten the argument), numerals of other scripts, and plain numbers
    let mut special_words: Vec<String> = vec![];
    for mb in ["é", "日", "😀"] {
        for pad in 0..=130usize {
            if pad % 3 == 0 || pad < 70 {
                special_words.push(format!("{}{}", "a".repeat(pad), mb.repeat(40)));
            }
        }
    }
    for w in ["42", "0", "٣٤", "²", "½", "Ⅷ", "１２", "७", "1000", "-1", "root", "rööt"] {
        special_words.push(w.to_string());
    }
    for w in crate::dict::words().into_iter().chain(crate::dict::paths()).chain(special_words) {
        for t in [
            UTest::AccessNewer(w.clone()),
            UTest::ChangeNewer(w.clone()),
            UTest::ModifyNewer(w.clone()),
            UTest::FsType(w.clone()),
            UTest::Group(w.clone()),
            UTest::User(w.clone()),
            UTest::ILName(w.clone()),
            UTest::LName(w.clone()),
            UTest::IRegex(w.clone()),
            UTest::Regex(w.clone()),
            UTest::Samefile(w.clone()),
        ] {
            let t = E::and(E::T(Tst::True), E::T(Tst::U(t)));
            let v = judge(&t);
            st.record(&v, stable_hash(&t), true, || case_json(&t));
        }
        let t = E::A(Act::Fls(w.clone()));
        let v = judge(&t);
        st.record(&v, stable_hash(&t), true, || case_json(&t));
    }
    // long command lines: an unsupported construct after 100..300 supported clauses must still be refused
    for n in [100usize, 128, 129, 130, 255, 256, 257, 300] {
        for (unsup, name) in [("-ls", "List"), ("-regex x", "Regex"), ("-printf '%p %M\\n'", "PermissionsSymbolic"), ("-fls f", "FileList")] {
            for op in [" ", " -a ", " -o "] {
                let text = format!("{}{op}{unsup}", (0..n).map(|i| format!("-uid {i}")).collect::<Vec<_>>().join(op));
                let v = match catch(|| lipe_find_parser::parse(&text)) {
                    Ok(Ok((o, x))) => match catch(|| lipe_find_parser::compile(&x, &o).map(|c| c.scheme("/"))) {
                        Ok(Err(e)) if e.to_string().contains(name) => Verdict::Pass { nt: true, class: "refused, error names the construct" },
                        Ok(Err(e)) => Verdict::Fail(format!("{n} clauses then {unsup}: the error does not name {name}: {e}")),
                        Ok(Ok(_)) => Verdict::Fail(format!("{n} supported clauses joined by {op:?} then {unsup}: compiled although {name} cannot be expressed")),
                        Err(p) => Verdict::Fail(format!("compile panicked: {p}")),
                    },
                    Ok(Err(e)) => Verdict::Fail(format!("{n} clauses then {unsup}: rejected by parse: {e}")),
                    Err(p) => Verdict::Fail(format!("parse panicked: {p}")),
                };
                st.record(&v, stable_hash(&text), true, || json!({"kind": "long-text", "clauses": n, "unsupported": unsup, "operator": op}));
            }
        }
    }
    for u in &singles {
        let shapes = vec![
            u.clone(),
            E::not(u.clone()),
            E::and(E::T(Tst::False), u.clone()),
            E::or(E::T(Tst::True), u.clone()),
            E::and(u.clone(), E::A(Act::Print)),
            E::list(E::A(Act::Print), E::not(E::or(E::T(Tst::Name("a".into())), u.clone()))),
        ];
        for t in shapes {
            let v = judge(&t);
            st.record(&v, stable_hash(&t), true, || case_json(&t));
        }
    }
    total.merge(st);
    total.exhaustive_parts.push("every unsupported test, action, format directive (first/middle/last position, after \\c) and the positional option, alone, negated, in dead branches and nested".into());
    crate::fuzzrun::replay_policy_trees(&mut total, judge);
    // supported expressions with many resources (0..72, ~127, ~255, 1000 distinct matchers before
    // plain or framed printers; many destinations): they compile whatever the numbers become
    let mut stm = Stats::new();
    let mut ms: Vec<usize> = (0..=72).step_by(3).collect();
    ms.extend([13, 14, 15, 29, 30, 31, 125, 126, 127, 128, 129, 253, 254, 255, 256, 257, 1000]);
    for m in ms {
        for tail in [vec![Act::Print], vec![Act::Print0], vec![Act::FPrint("a".into()), Act::FPrint0("b".into())], vec![Act::Printf(vec![FEl::F(Fld::NameNoStart)]), Act::FPrintf("c".into(), vec![FEl::F(Fld::Name), FEl::E(Esc::Newline)])]] {
            let mut e = E::T(Tst::True);
            for i in 0..m {
                e = E::or(e, E::T(if i % 2 == 0 { Tst::Name(format!("m{i}")) } else { Tst::IPath(format!("*/m{i}/*")) }));
            }
            for a in &tail {
                e = E::and(e, E::A(a.clone()));
            }
            let v = judge(&e);
            stm.record(&v, stable_hash(&e), true, || json!({"kind": "many-resources", "matchers": m, "tree": term::encode_expr(&e)}));
        }
    }
    let mut e = E::A(Act::FPrint("d0".into()));
    for i in 1..300 {
        e = E::and(e, E::A(if i % 2 == 0 { Act::FPrint(format!("d{i}")) } else { Act::FPrint0(format!("d{i}")) }));
        if [100, 127, 128, 254, 255, 256, 299].contains(&i) {
            let v = judge(&e);
            stm.record(&v, stable_hash(&e), true, || json!({"kind": "many-resources", "destinations": i + 1, "tree": term::encode_expr(&e)}));
        }
    }
    stm.samples.truncate(1);
    total.merge(stm);
    // two formatted prints in one expression: a supported format, and the same format followed by \\c
    // and a directive the target cannot express (a cache keyed by the printed part must not let the
    // second one through), in both orders, under every operator, to stdout and to files
    let mut stf = Stats::new();
    for printed in [vec![FEl::F(Fld::Name), FEl::E(Esc::Newline)], vec![FEl::Lit("x".into())], vec![FEl::F(Fld::Bytes), FEl::Lit(" ".into()), FEl::F(Fld::NameNoStart)], vec![]] {
        for bad in crate::gen::unsupported_fields() {
            for tail in [vec![FEl::E(Esc::Clear), FEl::F(bad.clone())], vec![FEl::E(Esc::Clear), FEl::Lit("y".into()), FEl::F(bad.clone()), FEl::E(Esc::Newline)], vec![FEl::F(bad.clone())]] {
                let mut full = printed.clone();
                full.extend(tail);
                if printed.is_empty() && !matches!(full.first(), Some(FEl::E(Esc::Clear))) {
                    continue;
                }
                let goods = [E::A(Act::Printf(printed.clone())), E::A(Act::FPrintf("o".into(), printed.clone()))];
                let bads = [E::A(Act::Printf(full.clone())), E::A(Act::FPrintf("o".into(), full.clone())), E::A(Act::FPrintf("p".into(), full.clone()))];
                for g in &goods {
                    if printed.is_empty() {
                        continue;
                    }
                    for b in &bads {
                        for tr in [E::and(g.clone(), b.clone()), E::or(g.clone(), b.clone()), E::list(b.clone(), g.clone()), E::and(E::and(g.clone(), g.clone()), b.clone()), E::and(E::T(Tst::True), E::list(g.clone(), E::not(b.clone())))] {
                            let v = judge(&tr);
                            stf.record(&v, stable_hash(&tr), true, || case_json(&tr));
                        }
                    }
                }
            }
        }
    }
    stf.samples.truncate(1);
    total.merge(stf);
    // a pair of tests that no file can satisfy together (or that every file satisfies), then a
    // construct the target cannot express: it is refused all the same - a shortcut for dead
    // branches must not swallow it
    let mut std_ = Stats::new();
    let t = |x: Tst| E::T(x);
    let dead_pairs: Vec<(E, E)> = vec![
        (t(Tst::Links(Cmp::Gt, 9)), t(Tst::Links(Cmp::Lt, 2))),
        (t(Tst::Uid(Cmp::Gt, 1000)), t(Tst::Uid(Cmp::Lt, 10))),
        (t(Tst::Gid(Cmp::Eq, 1)), t(Tst::Gid(Cmp::Eq, 2))),
        (t(Tst::Inum(Cmp::Gt, 5)), t(Tst::Inum(Cmp::Lt, 5))),
        (t(Tst::Size(Cmp::Gt, 2, SUnit::M)), t(Tst::Size(Cmp::Lt, 1, SUnit::K))),
        (t(Tst::Size(Cmp::Gt, 2, SUnit::K)), t(Tst::Size(Cmp::Lt, 1, SUnit::K))),
        (t(Tst::Time(Which::M, Cmp::Gt, 9, TUnit::D)), t(Tst::Time(Which::M, Cmp::Lt, 2, TUnit::D))),
        (t(Tst::MirrorCount(Cmp::Gt, 3)), t(Tst::MirrorCount(Cmp::Lt, 1))),
        (t(Tst::StripeCount(Cmp::Eq, 3)), t(Tst::StripeCount(Cmp::Eq, 4))),
        (t(Tst::Type(vec![FT::F])), t(Tst::Type(vec![FT::D]))),
        (t(Tst::Perm(PKind::Equal, 0o644)), t(Tst::Perm(PKind::Equal, 0o600))),
        (t(Tst::Name("a".into())), t(Tst::Name("b".into()))),
        (t(Tst::False), t(Tst::True)),
        (t(Tst::Uid(Cmp::Lt, 0)), t(Tst::True)),
    ];
    for (a, b) in &dead_pairs {
        for u in crate::combo::unsupported_leaves() {
            for (x, y) in [(a, b), (b, a)] {
                for tr in [
                    E::and(E::and(x.clone(), y.clone()), u.clone()),
                    E::and(x.clone(), E::and(y.clone(), u.clone())),
                    E::list(E::and(x.clone(), y.clone()), u.clone()),
                    E::or(E::or(E::not(x.clone()), E::not(y.clone())), u.clone()),
                    E::and(E::and(E::and(x.clone(), y.clone()), E::A(Act::Print)), u.clone()),
                    E::and(E::and(x.clone(), y.clone()), E::or(E::T(Tst::True), u.clone())),
                ] {
                    let v = judge(&tr);
                    std_.record(&v, stable_hash(&tr), true, || case_json(&tr));
                }
            }
        }
    }
    std_.samples.truncate(1);
    total.merge(std_);
    // interaction triples: three leaf kinds (supported and unsupported) under every operator skeleton
    let tr = crate::combo::run_triples(ctx.seed, &crate::combo::all_kinds(), ctx.tier.pick(32, 2), judge, case_json);
    total.merge(tr);
    let cases = ctx.tier.pick(300_000u32, 3_000_000u32);
    let rnd = run_shards(16, |shard| {
        let mut st = Stats::new();
        let strat = gen::related(gen::expr_over(full_leaf(), 5, 20, true), true);
        run_prop(&mut st, ctx.seed, "C12", shard as u64, cases / 16, &strat, judge, case_json);
        st
    });
    total.merge(rnd);
    Report {
        stats: total,
        rule: "random trees built from the public constructors over the full vocabulary (node kinds the parser can return: tests, actions, operators, the positional option) with unsupported constructs at random positions, every unsupported construct alone and in fixed dead/negated/nested positions, and all-supported trees. Oracle: support partition written from ast.rs ('not supported in the final scheme output') -> compile is Err iff the tree contains an unsupported construct and the message contains that construct's variant name; for Ok no symbol outside the runtime vocabulary (a placeholder) occurs in the program; what a supported expression is translated into is decided by C02. Also: interaction triples with unsupported leaves in every position, a pair of tests with an empty (or constant) answer followed by each unsupported construct, supported expressions with 0..1000 matchers and up to 300 destinations (they must compile). Non-trivial: unsupported construct not at the root / not the first leaf; or a supported tree with >=2 operators. Distinct: by tree.".into(),
        assumptions: vec!["Global/Precedence nodes are excluded: parse never returns them (C01, C13 check exactly that)".into()],
        exhaustive: false,
    }
}
