//! C13 — global options are honoured wherever they appear.

use crate::gen;
use crate::render::{self, Cat, Stream, ALL_LAYOUT};
use crate::sx::{self, Sx};
use crate::term;
use crate::tree::*;
use crate::util::*;
use lipe_find_parser::{compile, parse};
use proptest::prelude::*;
use serde_json::{json, Value};

fn replace_options(e: &E) -> E {
    match e {
        E::G(_) => E::T(Tst::True),
        E::Not(a) => E::not(replace_options(a)),
        E::Prec(a) => E::prec(replace_options(a)),
        E::And(a, b) => E::and(replace_options(a), replace_options(b)),
        E::Or(a, b) => E::or(replace_options(a), replace_options(b)),
        E::List(a, b) => E::list(replace_options(a), replace_options(b)),
        o => o.clone(),
    }
}

/// The command line of a case: the leading run and the expression, both through the variant
/// grammar (layout, operator spellings, zero-padded numbers). Second value: a blank next to
/// punctuation was left out somewhere.
fn build_text(leading: &[Glob], tree: &Option<E>, choices: &[u16]) -> Option<(String, bool)> {
    let mut ch = Stream::new(choices, ALL_LAYOUT | Cat::Glue as u32 | Cat::ArgSpell as u32);
    let mut words: Vec<String> = vec![];
    for g in leading {
        words.push(render::primary_words(&E::G(g.clone()), &mut ch)?.iter().map(|t| t.text.clone()).collect::<Vec<_>>().join(" "));
    }
    let mut text = words.join(" ");
    if let Some(t) = tree {
        let body = render::variant(t, &mut ch)?;
        if !text.is_empty() {
            // sometimes no blank between the leading run and a '(' or '!' that starts the expression
            let first_punct = body.starts_with('(') || body.starts_with('!');
            if first_punct && choices.first().map(|c| c % 5 == 4).unwrap_or(false) {
                ch.glued = true;
            } else {
                text.push(' ');
            }
        }
        text.push_str(&body);
    } else if !text.is_empty() {
        // a command line made of options only: blanks around it change nothing
        let k = choices.first().copied().unwrap_or(0) as usize;
        text = format!("{}{text}{}", render::EDGES[k % render::EDGES.len()], render::EDGES[(k / render::EDGES.len()) % render::EDGES.len()]);
    }
    Some((text, ch.glued))
}

pub fn judge(leading: &[Glob], tree: &Option<E>, choices: &[u16]) -> Verdict {
    if let Some(t) = tree {
        if matches!(t.leaves().first(), Some(E::G(_))) {
            return Verdict::Skip("expression starts with an option word (that is part of the leading run)");
        }
    }
    if leading.is_empty() && tree.is_none() {
        return Verdict::Skip("empty input");
    }
    let Some((text, glued)) = build_text(leading, tree, choices) else { return Verdict::Skip("tree has no text form") };
    // the model: textual order = leading run, then the leaves of the expression left to right
    let mut all: Vec<Glob> = leading.to_vec();
    if let Some(t) = tree {
        for l in t.leaves() {
            if let E::G(g) = l {
                all.push(g.clone());
            }
        }
    }
    let exp_depth = all.iter().any(|g| *g == Glob::Depth);
    let exp_threads = all.iter().rev().find_map(|g| if let Glob::Threads(n) = g { Some(*n) } else { None });
    let depth_limits: Vec<u32> = all.iter().filter_map(|g| if let Glob::MaxDepth(n) | Glob::MinDepth(n) = g { Some(*n) } else { None }).collect();
    let exp_tree = tree.as_ref().map(replace_options).unwrap_or(E::T(Tst::True));
    let in_expr = all.len() > leading.len();
    let repeated = all.iter().filter(|g| matches!(g, Glob::Threads(_))).count() >= 2 || all.iter().filter(|g| **g == Glob::Depth).count() >= 2;
    let nt = in_expr || repeated;

    let parsed = match catch(|| parse(&text)) {
        Ok(r) => r,
        Err(p) => return Verdict::Fail(format!("parse panicked on {text:?}: {p}")),
    };
    if !depth_limits.is_empty() {
        return match parsed {
            Err(_) => Verdict::Pass { nt, class: "-maxdepth/-mindepth: rejected with an error" },
            Ok((o, _)) => {
                let dbg = format!("{o:?}");
                // accepted: then every limit must be visible in the returned options
                let reflected = dbg.to_lowercase().contains("depth:") && depth_limits.iter().all(|n| dbg.split(|c: char| !c.is_ascii_digit()).any(|tok| tok == n.to_string()));
                if reflected && (dbg.contains("max_depth") || dbg.contains("min_depth")) {
                    Verdict::Pass { nt, class: "-maxdepth/-mindepth: reflected in the options" }
                } else {
                    Verdict::Fail(format!("{text:?}: -maxdepth/-mindepth accepted but silently ignored; options {dbg}"))
                }
            }
        };
    }
    let (opts, x) = match parsed {
        Ok(r) => r,
        Err(_) if glued => return Verdict::Skip("a spelling without blank next to punctuation was rejected (not asserted either way)"),
        Err(e) => return Verdict::Fail(format!("{text:?} (options {all:?}) rejected: {e}")),
    };
    let got = from_ast(&x);
    if opts.depth != exp_depth || opts.threads != exp_threads {
        return Verdict::Fail(format!("{text:?}: expected depth={exp_depth} threads={exp_threads:?} (last occurrence wins), got {opts:?}"));
    }
    if got != exp_tree {
        return Verdict::Fail(format!("{text:?}: expected tree {exp_tree:?} (leading run removed, other options as -true), got {got:?}"));
    }
    // the emitted scan call uses the requested thread count
    match catch(|| compile(&x, &opts).map(|c| c.scheme("/"))) {
        Err(p) => return Verdict::Fail(format!("{text:?}: compile panicked: {p}")),
        Ok(Err(_)) => {}
        Ok(Ok(prog)) => {
            let forms = match sx::read_all(&prog) {
                Ok(f) => f,
                Err(e) => return Verdict::Fail(format!("{text:?}: program does not read: {e}")),
            };
            let mut arg = None;
            for f in &forms {
                f.walk(&mut |n| {
                    if n.head() == Some("lipe-scan") {
                        arg = n.list().and_then(|l| l.get(5)).cloned();
                    }
                });
            }
            let ok = match (&arg, exp_threads) {
                (Some(Sx::Int(_, d)), Some(n)) => *d == n.to_string(),
                (Some(l), None) => l.list().map(|l| l.len() == 1 && l[0].is_sym("lipe-getopt-thread-count")).unwrap_or(false),
                _ => false,
            };
            if !ok {
                return Verdict::Fail(format!("{text:?}: fifth argument of the scan call is {arg:?}, expected {}", exp_threads.map(|n| n.to_string()).unwrap_or("(lipe-getopt-thread-count)".into())));
            }
        }
    }
    // the same parsed tree compiled again with another thread count: the scan call must follow
    // the options of *this* call (nothing may be remembered from the previous one)
    let mut other = lipe_find_parser::RunOptions::default();
    other.threads = match opts.threads {
        Some(n) => Some(n ^ 1),
        None => Some(7),
    };
    if let Ok(Ok(prog)) = catch(|| compile(&x, &other).map(|c| c.scheme("/"))) {
        if let Ok(forms) = sx::read_all(&prog) {
            let mut arg = None;
            for f in &forms {
                f.walk(&mut |n| {
                    if n.head() == Some("lipe-scan") {
                        arg = n.list().and_then(|l| l.get(5)).cloned();
                    }
                });
            }
            let want = other.threads.unwrap().to_string();
            if !matches!(&arg, Some(Sx::Int(_, d)) if *d == want) {
                return Verdict::Fail(format!("{text:?}: compiled a second time with threads={want}, the scan call carries {arg:?}"));
            }
        }
    }
    Verdict::Pass { nt, class: if in_expr { "option inside the expression" } else { "leading run only" } }
}

fn case_json(leading: &[Glob], tree: &Option<E>, choices: &[u16]) -> Value {
    let text = build_text(leading, tree, choices).map(|x| x.0).unwrap_or_default();
    json!({"kind": "options", "leading": leading.iter().map(|g| format!("{:?}", E::G(g.clone()))).collect::<Vec<_>>(), "tree": tree.as_ref().map(term::encode_expr), "choices": choices, "input": text.trim()})
}

pub fn replay(case: &Value) -> Result<Verdict, String> {
    let leading: Vec<Glob> = case["leading"]
        .as_array()
        .ok_or("leading")?
        .iter()
        .map(|v| match term::decode_expr(v.as_str().unwrap_or("")) {
            Ok(E::G(g)) => Ok(g),
            other => Err(format!("bad option {other:?}")),
        })
        .collect::<Result<_, _>>()?;
    let tree = match case["tree"].as_str() {
        Some(t) => Some(term::decode_expr(t)?),
        None => None,
    };
    let choices: Vec<u16> = case["choices"].as_array().map(|a| a.iter().map(|v| v.as_u64().unwrap_or(0) as u16).collect()).unwrap_or_default();
    Ok(judge(&leading, &tree, &choices))
}

pub fn option() -> BoxedStrategy<Glob> {
    prop_oneof![
        4 => Just(Glob::Depth),
        4 => gen::count_u32().prop_map(Glob::Threads),
        // a tiny value set so that a value comes back after being overridden (A, B, A)
        3 => prop::sample::select(vec![2u32, 4, 8]).prop_map(Glob::Threads),
        1 => prop_oneof![(0u32..100).prop_map(Glob::MaxDepth), (0u32..100).prop_map(Glob::MinDepth)],
    ]
    .boxed()
}

pub fn run(ctx: &Ctx) -> Report {
    let cases = ctx.tier.pick(400_000u32, 4_000_000u32);
    let shards = 16;
    let mut total = run_shards(shards, |shard| {
        let mut st = Stats::new();
        poison_parses(40);
        let leaf = prop_oneof![6 => gen::supported_leaf(), 1 => gen::text_leaf(), 3 => option().prop_map(E::G)];
        let strat = (
            prop_oneof![4 => proptest::collection::vec(option(), 0..4), 1 => proptest::collection::vec(option(), 4..10)],
            prop_oneof![1 => Just(None), 9 => gen::related(gen::expr_over(leaf.boxed(), 5, 16, true), true).prop_map(|t| {
                // an option as first word would belong to the leading run: put a test in front
                if matches!(t.leaves().first(), Some(E::G(_))) { Some(E::and(E::T(Tst::Name("first".into())), t)) } else { Some(t) }
            })],
            prop_oneof![2 => Just(vec![]), 1 => gen::choice_stream(40)],
        );
        run_prop(&mut st, ctx.seed, "C13", shard as u64, cases / shards as u32, &strat, |(l, t, c)| judge(l, t, c), |(l, t, c)| case_json(l, t, c));
        st
    });
    // many options inside one expression (5..300), their values changing along the way: the last
    // occurrence wins however many came before it, each becomes -true
    let mut stn = Stats::new();
    for n in [5usize, 8, 15, 16, 17, 18, 31, 32, 33, 64, 65, 100, 255, 256, 257, 300] {
        for variant in 0..4usize {
            let mut t = E::T(Tst::Name("first".into()));
            for i in 0..n {
                let opt = match (i + variant) % 4 {
                    0 => E::G(Glob::Threads((i % 7) as u32 + 1)),
                    1 if variant % 2 == 0 || i == n - 2 => E::G(Glob::Depth),
                    1 => E::G(Glob::Threads(9)),
                    2 => E::G(Glob::Threads((n - i) as u32)),
                    _ => E::T(Tst::Uid(Cmp::Eq, i as u32)),
                };
                t = match (i + variant) % 3 {
                    0 => E::and(t, opt),
                    1 => E::or(t, opt),
                    _ => E::and(t, E::not(opt)),
                };
            }
            let leading = if variant == 3 { vec![Glob::Threads(77)] } else { vec![] };
            let choices: Vec<u16> = vec![];
            let v = judge(&leading, &Some(t.clone()), &choices);
            stn.record(&v, stable_hash(&(n, variant)), true, || json!({"kind": "options", "what": format!("{n} operands of which three quarters are options, variant {variant}"), "leading": leading.iter().map(|g| format!("{:?}", E::G(g.clone()))).collect::<Vec<_>>(), "tree": term::encode_expr(&t), "choices": choices}));
        }
    }
    stn.samples.truncate(1);
    total.merge(stn);
    // interaction triples: three leaf kinds (every kind of primary, options too) under every operator
    // skeleton, after no leading run or a short one, canonical or in a layout variant
    let mut kinds = crate::combo::all_kinds();
    kinds.push(E::G(Glob::Depth));
    kinds.push(E::G(Glob::Threads(4)));
    kinds.push(E::G(Glob::Threads(0)));
    let case_of = |t: &E| -> (Vec<Glob>, Option<E>, Vec<u16>) {
        let h = stable_hash(t);
        let t = if matches!(t.leaves().first(), Some(E::G(_))) { E::and(E::T(Tst::Name("first".into())), t.clone()) } else { t.clone() };
        let leading = match h % 4 {
            0 => vec![Glob::Threads(2)],
            1 => vec![Glob::Depth, Glob::Threads(9)],
            _ => vec![],
        };
        let choices: Vec<u16> = if (h >> 8) % 2 == 0 { vec![] } else { (0..40u32).map(|i| (stable_hash(&(h, i)) & 0xffff) as u16).collect() };
        (leading, Some(t), choices)
    };
    let tr = crate::combo::run_triples(ctx.seed, &kinds, ctx.tier.pick(64, 4), |t| { let (l, t, c) = case_of(t); judge(&l, &t, &c) }, |t| { let (l, t, c) = case_of(t); case_json(&l, &t, &c) });
    total.merge(tr);
    crate::fuzzrun::replay_corpus("spell", &mut total);
    if ctx.tier == Tier::Thorough {
        crate::fuzzrun::campaign("spell", ctx.seed.wrapping_add(13), 100_000, 8, 400, &mut total);
    }
    Report {
        stats: total,
        rule: "random expressions over the keyword vocabulary in which -depth, -threads N, -maxdepth N, -mindepth N also occur as leaves (middle, inside parentheses, after '!', last), preceded by a leading run of 0..9 options, rendered canonically or through the layout variant grammar (separators, operator spellings, quoting, zero-padded numbers - also in the leading run; three-value pool so that a value returns after being overridden: A, B, A). Model: depth = any -depth; threads = value of the last -threads in textual order; expected tree = expression with every option leaf replaced by -true (a leading run leaves it untouched; only options -> -true); no option node in the returned tree; fifth argument of the emitted lipe-scan = N or (lipe-getopt-thread-count). Any -maxdepth/-mindepth: the input must be rejected with an error or the limit must show in the returned options; never a panic, never silently ignored. Non-trivial: an option outside the leading run, or a repeated option. Distinct: by (leading run, tree, layout choices).".into(),
        assumptions: vec!["an expression whose first word is an option is not generated separately: that word belongs to the leading run by definition".into()],
        exhaustive: false,
    }
}
