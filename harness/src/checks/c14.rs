//! C14 — format strings are segmented exactly as the printf mini-language says.

use crate::fmtscan;
use crate::tree::*;
use crate::util::*;
use lipe_find_parser::parse;
use proptest::prelude::*;
use serde_json::{json, Value};

const ALPHABET: [char; 17] = ['%', '\\', '{', '}', ':', 'p', 'A', 'q', 'n', '0', '1', '7', '8', '@', 'x', ' ', 'f'];

pub fn judge(s: &str) -> Verdict {
    let v = judge_quoted(s);
    // the same format given as an unquoted word (when it can be one) must segment identically
    if let Verdict::Pass { .. } = v {
        if crate::render::bare_ok(s) {
            let q = catch(|| parse(&format!("-printf '{s}'"))).ok().and_then(|r| r.ok()).map(|r| from_ast(&r.1));
            let b = catch(|| parse(&format!("-printf {s}"))).ok().and_then(|r| r.ok()).map(|r| from_ast(&r.1));
            if q != b {
                return Verdict::Fail(format!("format {s:?}: quoted it gives {q:?}, as an unquoted word it gives {b:?}"));
            }
        }
    }
    v
}

fn judge_quoted(s: &str) -> Verdict {
    if s.is_empty() {
        return Verdict::Skip("empty format is not expressible as an argument word");
    }
    if s.contains('\'') {
        return Verdict::Skip("contains the quote used to delimit the argument");
    }
    if fmtscan::has_undocumented_xattr_name(s) {
        return Verdict::Skip("%{xattr:NAME} with a NAME outside the documented (letters) alphabet");
    }
    let text = format!("-printf '{s}'");
    let expected = fmtscan::scan(s);
    let got = match catch(|| parse(&text)) {
        Ok(r) => r,
        Err(p) => return Verdict::Fail(format!("parse panicked on {text:?}: {p}")),
    };
    match (expected, got) {
        (Err(_), Err(_)) => {
            // rejected; non-trivial when something valid precedes the bad directive
            let first_pct = s.find('%').unwrap_or(0);
            Verdict::Pass { nt: first_pct > 0, class: "rejected (unknown directive)" }
        }
        (Err(why), Ok((_, tree))) => Verdict::Fail(format!("format {s:?} has an undocumented '%' directive ({why}) but was accepted as {:?}", from_ast(&tree))),
        (Ok(alts), Err(e)) => Verdict::Fail(format!("format {s:?} is valid (expected {:?}) but parse returned Err({e})", alts[0])),
        (Ok(alts), Ok((_, tree))) => {
            let got = match from_ast(&tree) {
                E::A(Act::Printf(l)) => l,
                other => return Verdict::Fail(format!("-printf {s:?} parsed to {other:?}")),
            };
            for (i, e) in got.iter().enumerate() {
                if let FEl::Lit(l) = e {
                    if l.is_empty() {
                        return Verdict::Fail(format!("format {s:?}: empty literal element in {got:?}"));
                    }
                    if i > 0 && matches!(got[i - 1], FEl::Lit(_)) {
                        return Verdict::Fail(format!("format {s:?}: two adjacent literals in {got:?}"));
                    }
                }
            }
            if !alts.contains(&got) {
                return Verdict::Fail(format!("format {s:?}: expected segmentation {:?}, got {got:?}", alts[0]));
            }
            let nonlit = got.iter().filter(|e| !matches!(e, FEl::Lit(_))).count();
            let class = if alts.len() > 1 { "accepted (1-2 digit octal: two readings allowed)" } else { "accepted" };
            Verdict::Pass { nt: nonlit >= 1, class }
        }
    }
}

/// The same format after (and before) other primaries: its segmentation is the one it has alone
/// (nothing an earlier primary said - an attribute name, a pattern, a file name - may leak into it).
pub fn judge_in_context(s: &str, context: &str, after: bool) -> Verdict {
    if s.is_empty() || s.contains('\'') || fmtscan::has_undocumented_xattr_name(s) {
        return Verdict::Skip("not a quoted format of the documented alphabet");
    }
    if fmtscan::scan(s).is_err() {
        // a format with an undocumented directive is rejected wherever it stands
        let text = if after { format!("{context} -printf '{s}'") } else { format!("-printf '{s}' {context}") };
        return match catch(|| parse(&text)) {
            Err(p) => Verdict::Fail(format!("parse panicked on {text:?}: {p}")),
            Ok(Err(_)) => Verdict::Pass { nt: true, class: "invalid format next to other primaries: rejected" },
            Ok(Ok((_, t))) => Verdict::Fail(format!("{text:?}: the format has an undocumented '%' directive, yet the input was accepted as {:?}", from_ast(&t))),
        };
    }
    let alone = match catch(|| parse(&format!("-printf '{s}'"))) {
        Ok(Ok((_, t))) => from_ast(&t),
        _ => return Verdict::Skip("rejected alone (decided by the plain part)"),
    };
    let text = if after { format!("{context} -printf '{s}'") } else { format!("-printf '{s}' {context}") };
    match catch(|| parse(&text)) {
        Err(p) => Verdict::Fail(format!("parse panicked on {text:?}: {p}")),
        Ok(Err(e)) => Verdict::Fail(format!("{text:?}: the format is valid alone but rejected here: {e}")),
        Ok(Ok((_, t))) => {
            let tree = from_ast(&t);
            let found = tree.leaves().iter().any(|l| **l == alone);
            if found {
                Verdict::Pass { nt: true, class: "format next to other primaries: same segmentation" }
            } else {
                Verdict::Fail(format!("{text:?}: alone the format gives {alone:?}; here the tree is {tree:?}"))
            }
        }
    }
}

fn case_json(s: &str) -> Value {
    json!({"kind": "format", "format": s, "input": format!("-printf '{s}'")})
}

pub fn replay(case: &Value) -> Result<Verdict, String> {
    if case["kind"] == "format-history" {
        let (a, ab) = (case["format"].as_str().ok_or("format")?, case["extension"].as_str().ok_or("extension")?);
        for s in [a, ab, a] {
            if let Verdict::Fail(m) = judge(s) {
                return Ok(Verdict::Fail(m));
            }
        }
        return Ok(Verdict::Pass { nt: true, class: "history" });
    }
    if case["kind"] == "format-context" {
        return Ok(judge_in_context(case["format"].as_str().ok_or("format")?, case["context"].as_str().ok_or("context")?, case["after"].as_bool().unwrap_or(true)));
    }
    if case["kind"] == "fuzz-input" {
        return crate::fuzzrun::replay(case);
    }
    Ok(judge(case["format"].as_str().ok_or("no format")?))
}

/// every documented directive and escape, alone and between literals
pub fn documented_elements() -> Vec<String> {
    let mut v: Vec<String> = vec![];
    for d in "%abcdDfFgGhHiklmMnpPsStuUyYZ".chars() {
        v.push(format!("%{d}"));
    }
    for k in "@HMSYmdjTcDFk+".chars() {
        for a in ['A', 'C', 'T'] {
            v.push(format!("%{a}{k}"));
        }
    }
    for b in ["fid", "projid", "mirror-count", "stripe-count", "stripe-size", "xattr:user", "xattr:a"] {
        v.push(format!("%{{{b}}}"));
    }
    // attribute names made of letters that are words of the sources under test (fid, projid, ...)
    for w in crate::dict::words() {
        if w.chars().all(|c| c.is_ascii_alphabetic()) && w.len() <= 12 {
            v.push(format!("%{{xattr:{w}}}"));
        }
    }
    // any one character may follow %A / %C / %T
    for k in ['\t', '\n', '\r', '\u{7f}', '\u{85}', '\u{a0}', '\u{1}', 'é', '😀', ' ', '%', '\\', '{'] {
        for a in ['A', 'C', 'T'] {
            v.push(format!("%{a}{k}"));
        }
    }
    for e in "abcfnrtv0\\".chars() {
        v.push(format!("\\{e}"));
    }
    for o in ["000", "001", "012", "101", "177", "377", "777", "400"] {
        v.push(format!("\\{o}"));
    }
    v
}

pub fn gen_format() -> BoxedStrategy<String> {
    let piece = prop_oneof![
        4 => prop::sample::select(documented_elements()),
        2 => "[a-z ,:=0-9]{1,4}",
        1 => prop::sample::select(vec!["é", "日本", "ü ", "😀", "à:", "\u{a0}"]).prop_map(|s| s.to_string()),
        1 => prop::sample::select(vec!["%", "\\", "%{", "}", "%{fid", "%{xattr:", "%q", "%1", "\\1", "\\12", "\\1234", "\\8", "\\q", "%A", "{", "\\777777"]).prop_map(|s| s.to_string()),
        1 => "[%\\\\{}:pAqn0178@xf ]{1,3}",
    ];
    proptest::collection::vec(piece, 1..14).prop_map(|v| v.concat()).boxed()
}

pub fn run(ctx: &Ctx) -> Report {
    let mut total = Stats::new();
    let n = ALPHABET.len();
    let max_len = ctx.tier.pick(5usize, 6usize);
    // exhaustive: all strings of length 1..=max_len; sharded by the first two symbols
    let ex = run_shards(n * n + 1, |shard| {
        let mut st = Stats::new();
        let mut run_one = |s: &str, st: &mut Stats| {
            let v = judge(s);
            st.record(&v, stable_hash(s), true, || case_json(s));
        };
        if shard == n * n {
            for a in 0..n {
                run_one(&ALPHABET[a].to_string(), &mut st);
                for b in 0..n {
                    run_one(&format!("{}{}", ALPHABET[a], ALPHABET[b]), &mut st);
                }
            }
            return st;
        }
        let (a, b) = (shard / n, shard % n);
        for len in 3..=max_len {
            let rest = len - 2;
            let total_n = n.pow(rest as u32);
            for mut k in 0..total_n {
                let mut s = String::with_capacity(len);
                s.push(ALPHABET[a]);
                s.push(ALPHABET[b]);
                for _ in 0..rest {
                    s.push(ALPHABET[k % n]);
                    k /= n;
                }
                run_one(&s, &mut st);
                if st.failures.len() >= MAX_FAILURES {
                    return st;
                }
            }
        }
        st
    });
    total.merge(ex);
    total.exhaustive_parts.push(format!("all strings of length 1..={max_len} over the 17-symbol alphabet {:?}", ALPHABET.iter().collect::<String>()));

    // every documented element alone, between literals, and pairwise adjacent
    let mut st = Stats::new();
    let els = documented_elements();
    for e in &els {
        for s in [e.clone(), format!("ab{e}"), format!("{e}cd"), format!("ab{e}cd"), format!("{e}{e}")] {
            let v = judge(&s);
            st.record(&v, stable_hash(&s), true, || case_json(&s));
        }
    }
    for a in &els {
        for b in &els {
            let s = format!("{a}{b}");
            let v = judge(&s);
            st.record(&v, stable_hash(&s), true, || case_json(&s));
        }
    }
    total.merge(st);
    total.exhaustive_parts.push("every documented directive/escape alone, between literals, and every ordered pair".into());

    // runs of octal escapes that spell the bytes of a multi-byte UTF-8 character (every ordered pair
    // of values 0200..0377, every pair with one value below; sampled three- and four-byte sequences):
    // each escape stays an element of its own, whatever the values next to it mean together
    let oct = run_shards(16, |shard| {
        let mut st = Stats::new();
        for a in 0o200u32..=0o377 {
            if a as usize % 16 != shard {
                continue;
            }
            for b in 0u32..=0o377 {
                for s in [format!("\\{a:03o}\\{b:03o}"), format!("x\\{b:03o}\\{a:03o}y")] {
                    if b < 0o200 && s.starts_with('x') && b == 0x1e {
                        continue;
                    }
                    let v = judge(&s);
                    st.record(&v, stable_hash(&s), true, || case_json(&s));
                }
            }
        }
        if shard == 0 {
            for ch in ['é', 'ß', '€', '日', '\u{800}', '\u{ffff}', '😀', '\u{10000}', '\u{10ffff}', '\u{7ff}', '\u{80}'] {
                let mut buf = [0u8; 4];
                let esc: String = ch.encode_utf8(&mut buf).bytes().map(|b| format!("\\{b:03o}")).collect();
                for s in [esc.clone(), format!("a{esc}b"), format!("{esc}{esc}"), format!("%p{esc}\\n"), format!("{ch}{esc}")] {
                    let v = judge(&s);
                    st.record(&v, stable_hash(&s), true, || case_json(&s));
                }
            }
        }
        st
    });
    total.merge(oct);
    total.exhaustive_parts.push("every ordered pair of octal escapes with a value 0200..0377 on one side, and the escape spellings of the UTF-8 bytes of two-, three- and four-byte characters".into());
    // several directives with an argument in one format, their names differing in case only or not at all
    let mut stx = Stats::new();
    let names = ["Owner", "owner", "OWNER", "tag", "Tag", "user", "USER", "fid", "FID", "a", "A"];
    for a in names {
        for b in names {
            for sep in ["", "=", " ", "%p", "\\n"] {
                for s in [format!("%{{xattr:{a}}}{sep}%{{xattr:{b}}}"), format!("%{{xattr:{a}}}{sep}%{{xattr:{b}}}{sep}%{{xattr:{a}}}")] {
                    let v = judge(&s);
                    stx.record(&v, stable_hash(&s), true, || case_json(&s));
                }
            }
        }
    }
    total.merge(stx);

    // look-alikes: non-ASCII characters whose low byte equals that of '%', '\\', a digit, a letter of a
    // directive: they are ordinary literal text
    let mut stk = Stats::new();
    for e in &els {
        for k in 0..4 {
            let all = lookalike_string(e, k);
            let rest: String = e.chars().take(1).chain(lookalike_string(&e.chars().skip(1).collect::<String>(), k).chars()).collect();
            for s in [all.clone(), rest, format!("x{all}y"), format!("\\{all}"), format!("%p{all}\\n")] {
                let v = judge(&s);
                stk.record(&v, stable_hash(&s), true, || case_json(&s));
            }
        }
    }
    total.merge(stk);
    // non-ASCII literal text around every documented element (byte/char offsets), and pairs of
    // formats of which one is a prefix of the other, parsed back to back in both orders (a result
    // must not depend on the previous call)
    let mut st = Stats::new();
    for e in &els {
        for s in [format!("é{e}"), format!("日本{e}ü"), format!("{e}é{e}"), format!("profondità: {e}\\n"), format!("😀{e}")] {
            let v = judge(&s);
            st.record(&v, stable_hash(&s), true, || case_json(&s));
        }
        for suffix in ["%p", "x", " %s\\n", "%%", "\\", "%q"] {
            let (a, b) = (e.clone(), format!("{e}{suffix}"));
            for s in [&a, &b, &a, &b, &b, &a] {
                let v = judge(s);
                st.record(&v, stable_hash(&(s, "history")), true, || case_json(s));
            }
        }
    }
    total.merge(st);

    // every documented element (and a few longer formats) after and before primaries that carry
    // strings related to it: attribute tests whose name ends with, begins with or equals the name
    // of an attribute directive, patterns and files spelled like directives
    let mut stc = Stats::new();
    let contexts = ["-xattr trusted.lov", "-xattr lov", "-xattr user.tag", "-xattr-match trusted.fid v", "-xattr-match user x.user", "-name %p", "-name '%{fid}'", "-pool fid", "-fprint %p", "-fprintf f '%{xattr:lov}'", "-printf '%{xattr:trustedlov}'", "-iname 'A\\101'", "-name x -o -xattr a", "( -xattr user -o -xattr tag )", "-printf '%p\\c'", "-size 5k", "-true", "-quit", "-print", "-print0", "-prune", "-ls", "-depth", "-false", "-empty", "-nouser", "-print-file-fid", "-threads 2", "-quit -o -print", "! -quit"];
    let mut formats: Vec<String> = els.clone();
    for f in ["%{xattr:lov}\\n", "%{xattr:tag}=%{xattr:user}", "%p %{xattr:a}", "%{xattr:fid}", "%{fid}", "%p\\n", "%%%p", "\\101%Ak", "%z", "%", "%p%", "%{fid", "%A", "x%q\\n", "%{bogus}"] {
        formats.push(f.to_string());
    }
    for f in &formats {
        for c in contexts {
            for after in [true, false] {
                let v = judge_in_context(f, c, after);
                stc.record(&v, stable_hash(&(f, c, after)), true, || json!({"kind": "format-context", "format": f, "context": c, "after": after}));
            }
        }
    }
    stc.samples.truncate(1);
    total.merge(stc);
    // two long formats of equal length in one command line that differ in a single character, at
    // every position in turn (a cache keyed by a sampled fingerprint of the text): each action keeps
    // its own segmentation
    let mut st2 = Stats::new();
    for base in ["%p,%U,%G,%m,%s,%A@,%C@,%T@,%{projid},%{fid},%u,%g,%n,%i,%b,%k,%f,%h,%y\\n", "name=%f size=%s owner=%u group=%g mode=%m links=%n inode=%i blocks=%b kilos=%k type=%y path=%p\\n"] {
        let cs: Vec<char> = base.chars().collect();
        for i in 0..cs.len() {
            for repl in ['u', 'U', 'x', '%'] {
                if cs[i] == repl {
                    continue;
                }
                let mut v = cs.clone();
                v[i] = repl;
                let variant: String = v.into_iter().collect();
                for (a, b) in [(base.to_string(), variant.clone()), (variant.clone(), base.to_string())] {
                    // (the format that serves as context must itself be valid)
                    if fmtscan::scan(&a).is_err() || fmtscan::has_undocumented_xattr_name(&a) {
                        continue;
                    }
                    let v = judge_in_context(&b, &format!("-printf '{a}'"), true);
                    st2.record(&v, stable_hash(&(&a, &b)), true, || json!({"kind": "format-context", "format": b, "context": format!("-printf '{a}'"), "after": true}));
                }
            }
        }
    }
    st2.samples.truncate(1);
    total.merge(st2);
    // every single-character edit of every documented element (replace by a neighbouring spelling
    // character, delete, duplicate, swap): an almost-directive is what the reference scanner says
    // it is, never the directive it resembles
    let edits = run_shards(16, |shard| {
        let mut st = Stats::new();
        let alphabet: Vec<char> = "_-. :{}%\\aAzZ09".chars().collect();
        for (n, e) in els.iter().enumerate() {
            if n % 16 != shard {
                continue;
            }
            let cs: Vec<char> = e.chars().collect();
            let mut variants: Vec<String> = vec![];
            for i in 0..cs.len() {
                for a in &alphabet {
                    if *a != cs[i] {
                        let mut v = cs.clone();
                        v[i] = *a;
                        variants.push(v.iter().collect());
                    }
                }
                let mut v = cs.clone();
                v.remove(i);
                variants.push(v.iter().collect());
                let mut v = cs.clone();
                v.insert(i, cs[i]);
                variants.push(v.iter().collect());
                if i + 1 < cs.len() {
                    let mut v = cs.clone();
                    v.swap(i, i + 1);
                    variants.push(v.iter().collect());
                }
                // case flip
                let mut v = cs.clone();
                v[i] = if cs[i].is_ascii_lowercase() { cs[i].to_ascii_uppercase() } else { cs[i].to_ascii_lowercase() };
                if v != cs {
                    variants.push(v.iter().collect());
                }
            }
            for s in variants {
                for t in [s.clone(), format!("x{s}y")] {
                    let v = judge(&t);
                    st.record(&v, stable_hash(&(&t, "edit")), true, || case_json(&t));
                }
            }
        }
        st
    });
    total.merge(edits);
    // literal runs whose byte length sits at a power of two (length fields narrowed to 8 or 16 bits),
    // before a directive, before an escape, between two elements and at the end
    let mut stl = Stats::new();
    for unit in ["a", "é", "日"] {
        for bytes in [255usize, 256, 257, 65535, 65536, 65537, 131072] {
            let n = bytes / unit.len();
            if n * unit.len() != bytes && unit != "a" {
                // keep the byte length exact: pad with one-byte characters
            }
            let mut run = unit.repeat(n);
            while run.len() < bytes {
                run.push('b');
            }
            for s in [format!("{run}%p"), format!("{run}\\n"), format!("%p{run}%s"), format!("%p{run}"), format!("{run}%%{run}\\t")] {
                let v = judge_quoted(&s);
                stl.record(&v, stable_hash(&s), true, || case_json(&s));
            }
        }
    }
    // the one directive with a variable-length part: `%{xattr:NAME}` with names of every length around
    // the powers of two (a bound borrowed from XATTR_NAME_MAX or a narrowed length field would cut them)
    for n in [1usize, 2, 15, 16, 17, 31, 32, 33, 63, 64, 65, 127, 128, 129, 254, 255, 256, 257, 511, 512, 513, 1023, 1024, 1025, 4095, 4096, 4097, 65535, 65536, 65537] {
        for unit in ["a", "Zq", "userTrusted"] {
            let mut name = unit.repeat(n / unit.len());
            while name.len() < n {
                name.push('x');
            }
            for s in [format!("%{{xattr:{name}}}"), format!("x%{{xattr:{name}}}\\n"), format!("%{{xattr:{name}}}%{{xattr:{name}}}"), format!("%p %{{xattr:{name}}} %{{fid}}\\n")] {
                let v = judge_quoted(&s);
                stl.record(&v, stable_hash(&s), true, || case_json(&s));
            }
        }
    }
    stl.samples.clear();
    total.merge(stl);

    let cases = ctx.tier.pick(400_000u32, 4_000_000u32);
    let shards = 16;
    let rnd = run_shards(shards, |shard| {
        let mut st = Stats::new();
        run_prop(&mut st, ctx.seed, "C14", shard as u64, cases / shards as u32, &gen_format(), |s| match judge(s) {
            Verdict::Pass { nt, class: "accepted" } => Verdict::Pass { nt, class: "random: accepted" },
            Verdict::Pass { nt, class } if class.starts_with("rejected") => Verdict::Pass { nt, class: "random: rejected" },
            o => o,
        }, |s| case_json(s));
        // histories: a format, then an extension of it, then the format again
        let hist = (gen_format(), gen_format());
        run_prop(&mut st, ctx.seed, "C14-history", shard as u64, cases / (8 * shards as u32), &hist, |(a, b)| {
            let ab = format!("{a}{b}");
            for s in [a, &ab, a] {
                if let Verdict::Fail(m) = judge(s) {
                    return Verdict::Fail(format!("after parsing the formats {a:?} and {ab:?} in sequence: {m}"));
                }
            }
            Verdict::Pass { nt: true, class: "history: format, extension, format" }
        }, |(a, b)| json!({"kind": "format-history", "format": a, "extension": format!("{a}{b}")}));
        st
    });
    total.merge(rnd);

    // coverage-guided part: replay of the committed corpus (quick), libFuzzer campaign (thorough)
    crate::fuzzrun::replay_corpus("fmtdiff", &mut total);
    if ctx.tier == Tier::Thorough && ctx.part.is_none() {
        crate::fuzzrun::campaign("fmtdiff", ctx.seed, 600_000, 8, 120, &mut total);
    }
    Report {
        stats: total,
        rule: format!("formats reach the parser as -printf '<s>'; exhaustive over all strings of length 1..={max_len} on a 17-symbol alphabet, all documented elements alone/embedded/pairwise, random strings (<=60 chars) from a directive-biased grammar. Oracle: independent linear scanner (directive table, escape table, octal escape of exactly three digits with the 1-2 digit reading of find(1) also accepted, lone backslash stands for itself, maximal literals) -> the returned element list must equal an acceptable segmentation, or Err for an undocumented '%' directive; plus invariants: no empty literal, no adjacent literals. Also literal runs of 255..131072 bytes around the elements and %{{xattr:NAME}} with names of 1..65537 letters (every length around the powers of two). Non-trivial: accepted string with at least one directive/escape element, or rejected string with valid text before the bad directive. Distinct: by string."),
        assumptions: vec![
            "%{xattr:NAME}: only letter NAMEs are asserted (NAME's alphabet is undocumented)".into(),
            "one/two-digit octal escapes: both the ast.rs reading (\\NNN only) and the find(1) reading (1-3 digits) are accepted".into(),
        ],
        exhaustive: false,
    }
}
