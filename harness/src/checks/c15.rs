//! C15 — parsing and compiling are deterministic functions of their input.

use crate::gen;
use crate::render;
use crate::sx::{self, Sx};
use crate::term;
use crate::tree::*;
use crate::util::*;
use lipe_find_parser::{compile, parse, RunOptions};
use proptest::prelude::*;
use serde_json::{json, Value};
use std::io::Write;

/// the wall-clock seconds embedded by time tests: `(- <epoch> (atime|ctime|mtime))`
pub fn embedded_epochs(forms: &[Sx]) -> Vec<i128> {
    let mut out = vec![];
    for f in forms {
        f.walk(&mut |n| {
            if let Some(l) = n.list() {
                if l.len() == 3 && l[0].is_sym("-") {
                    if let (Some(v), Some(h)) = (l[1].int(), l[2].head()) {
                        if matches!(h, "atime" | "ctime" | "mtime") {
                            out.push(v);
                        }
                    }
                }
            }
        });
    }
    out
}

/// replace the embedded epochs by NOW (textually) so that programs compiled in different seconds compare equal
pub fn normalise(text: &str) -> String {
    let mut out = String::with_capacity(text.len());
    let mut rest = text;
    while let Some(p) = rest.find("(- ") {
        out.push_str(&rest[..p + 3]);
        rest = &rest[p + 3..];
        let digits = rest.chars().take_while(|c| c.is_ascii_digit()).count();
        let after = &rest[digits..];
        if digits > 0 && (after.starts_with(" (atime))") || after.starts_with(" (ctime))") || after.starts_with(" (mtime))")) {
            out.push_str("NOW");
            rest = after;
        }
    }
    out.push_str(rest);
    out
}

fn sorted_map<K: Ord + Clone, V: std::fmt::Debug>(m: Option<std::collections::HashMap<K, V>>) -> Option<Vec<(K, String)>> {
    m.map(|m| {
        let mut v: Vec<(K, String)> = m.iter().map(|(k, t)| (k.clone(), format!("{t:?}"))).collect();
        v.sort_by(|a, b| a.0.cmp(&b.0));
        v
    })
}

/// canonical record of what parse+compile return for `text` (program normalised)
pub fn record(text: &str) -> String {
    match catch(|| parse(text)) {
        Err(p) => format!("PARSE-PANIC {p}"),
        Ok(Err(e)) => format!("PARSE-ERR {e}"),
        Ok(Ok((o, t))) => {
            let head = format!("PARSE-OK {o:?} {t:?}");
            match catch(|| compile(&t, &o).map(|c| (c.scheme("/dev/x"), c.io_map()))) {
                Err(p) => format!("{head} COMPILE-PANIC {p}"),
                Ok(Err(e)) => format!("{head} COMPILE-ERR {e}"),
                Ok(Ok((prog, map))) => format!("{head} PROGRAM {} MAP {:?}", normalise(&prog), sorted_map(map)),
            }
        }
    }
}

pub fn judge(tree: &E, other: &E) -> Verdict {
    let Some(text) = render::canonical(tree) else { return Verdict::Skip("no text form") };
    // (a) parse twice
    let p1 = crate::checks::c06::parse_pair(&text);
    let p2 = crate::checks::c06::parse_pair(&text);
    if p1 != p2 {
        return Verdict::Fail(format!("parsing {text:?} twice gave {p1:?} and then {p2:?}"));
    }
    let (x1, x2) = (to_ast(tree), to_ast(other));
    let opts = RunOptions::default();
    let mut results = vec![];
    let mut epochs_ok = true;
    let mut epoch_msg = String::new();
    for x in [&x1, &x2, &x1] {
        let t0 = now_secs() as i128;
        let r = match catch(|| compile(x, &opts).map(|c| (c.scheme("/dev/x"), c.io_map()))) {
            Ok(r) => r,
            Err(p) => return Verdict::Fail(format!("compile panicked: {p}")),
        };
        let t1 = now_secs() as i128;
        if let Ok((prog, _)) = &r {
            // (c) every embedded epoch lies between the clock readings around the call
            match sx::read_all(prog) {
                Ok(forms) => {
                    let eps = embedded_epochs(&forms);
                    for e in &eps {
                        if *e < t0 || *e > t1 {
                            epochs_ok = false;
                            epoch_msg = format!("embedded second {e} is outside the compile call [{t0}, {t1}]");
                        }
                    }
                    // the shape of the program is a function of the tree alone: one reference second per time test
                    let src = if std::ptr::eq(x, &x2) { other } else { tree };
                    let want = src.leaves().iter().filter(|l| matches!(l, E::T(Tst::Time(..)))).count();
                    if eps.len() != want {
                        return Verdict::Fail(format!("{src:?}: {want} time tests in the tree but {} reference seconds in the program (its shape depends on something else than the tree, e.g. on the clock)", eps.len()));
                    }
                }
                Err(e) => return Verdict::Fail(format!("program does not read: {e}")),
            }
        }
        results.push(r.map(|(p, m)| (normalise(&p), sorted_map(m))).map_err(|e| e.to_string()));
    }
    if !epochs_ok {
        return Verdict::Fail(format!("{tree:?}: {epoch_msg}"));
    }
    if results[0] != results[2] {
        return Verdict::Fail(format!("compiling the same expression twice (with an unrelated compilation in between) gave different results\nfirst: {:?}\nthird: {:?}", results[0], results[2]));
    }
    let resources = crate::checks::c10::requested_targets(tree).len() + tree.leaves().iter().filter(|l| matches!(l, E::T(Tst::Name(_)) | E::T(Tst::IName(_)) | E::T(Tst::Path(_)) | E::T(Tst::IPath(_)))).count();
    Verdict::Pass { nt: resources >= 8, class: if results[0].is_ok() { "compiles" } else { "compile error (also deterministic)" } }
}

fn case_json(t: &E, o: &E) -> Value {
    json!({"kind": "pair", "tree": term::encode_expr(t), "other": term::encode_expr(o)})
}
/// Compile one expression `reps` times: the program and the table must be the same every time.
pub fn judge_repeat(t: &E, reps: usize) -> Verdict {
    let x = to_ast(t);
    let opts = lipe_find_parser::RunOptions::default();
    let rec = |c: &lipe_find_parser::ast::Expression| -> Result<String, String> {
        catch(|| lipe_find_parser::compile(c, &opts).map(|p| (normalise(&p.scheme("/dev/x")), sorted_map(p.io_map()))).map_err(|e| e.to_string())).map(|r| format!("{r:?}"))
    };
    let first = rec(&x);
    for k in 1..reps {
        let again = rec(&x);
        if again != first {
            return Verdict::Fail(format!("{t:?}: compilation number {} differs from the first one (nothing but the per-map hash keys changed)\nfirst: {}\nnow:   {}", k + 1, truncate(&format!("{first:?}"), 1500), truncate(&format!("{again:?}"), 1500)));
        }
    }
    Verdict::Pass { nt: true, class: "one expression compiled many hundreds of times: always the same program and table" }
}

pub fn replay(case: &Value) -> Result<Verdict, String> {
    match case["kind"].as_str() {
        Some("history") => {
            let steps = case["steps"].as_array().ok_or("steps")?.iter().map(|s| match s.as_str() {
                Some("next-second") => Ok(Step::NextSecond),
                Some(t) => term::decode_expr(t).map(Step::Compile),
                None => Err("bad step".to_string()),
            }).collect::<Result<Vec<_>, _>>()?;
            Ok(judge_history(&steps))
        }
        Some("repeat") => {
            let t = term::decode_expr(case["tree"].as_str().ok_or("tree")?)?;
            Ok(judge_repeat(&t, case["times"].as_u64().unwrap_or(5000) as usize))
        }
        Some("cross-process") => {
            let text = case["input"].as_str().ok_or("input")?;
            let r = cross_process(&[text.to_string()], 3);
            Ok(match r {
                Ok(_) => Verdict::Pass { nt: true, class: "cross-process" },
                Err(m) => Verdict::Fail(m),
            })
        }
        _ => Ok(judge(&term::decode_expr(case["tree"].as_str().ok_or("tree")?)?, &term::decode_expr(case["other"].as_str().ok_or("other")?)?)),
    }
}

fn resource_rich() -> BoxedStrategy<E> {
    // biased to 8..40 distinct matchers/printers so that hash-table order would show
    let leaf = prop_oneof![
        4 => "[a-z]{1,3}[*?]?".prop_map(|p| E::T(Tst::Name(p))),
        3 => "[a-zA-Z]{1,3}".prop_map(|p| E::T(Tst::IName(p))),
        1 => "[a-z/]{1,4}".prop_map(|p| E::T(Tst::Path(p))),
        3 => "[a-z]{1,2}".prop_map(|f| E::A(Act::FPrint(f))),
        1 => prop::sample::select(crate::dict::paths()).prop_map(|f| E::A(Act::FPrint(f))),
        1 => prop::sample::select(vec!["/dev/stdout", "/dev/stderr"]).prop_map(|f| E::A(Act::FPrintf(f.to_string(), vec![FEl::F(Fld::NameNoStart), FEl::E(Esc::Newline)]))),
        2 => "[a-z]{1,2}".prop_map(|f| E::A(Act::FPrint0(f))),
        1 => Just(E::A(Act::Print)),
        1 => Just(E::A(Act::Print0)),
        2 => gen::supported_test().prop_map(E::T),
        1 => gen::supported_action().prop_map(E::A),
    ];
    prop_oneof![
        3 => proptest::collection::vec((leaf.clone(), 0u8..3), 8..40).prop_map(|v| {
            let mut it = v.into_iter();
            let (first, _) = it.next().unwrap();
            it.fold(first, |acc, (l, op)| match op { 0 => E::and(acc, l), 1 => E::or(acc, l), _ => E::list(acc, l) })
        }),
        1 => gen::related(gen::expr_over(leaf.boxed(), 5, 30, true), true),
    ]
    .boxed()
}

/// order in which process number `variant` handles the texts: 0 = as given, 1 = reversed,
/// 2.. = rotated/strided (results must not depend on what was parsed or compiled before)
pub fn visiting_order(n: usize, variant: usize) -> Vec<usize> {
    let mut idx: Vec<usize> = (0..n).collect();
    match variant {
        0 => {}
        1 => idx.reverse(),
        v => {
            // stride coprime with n
            let mut step = 7919 + v;
            while n > 0 && gcd(step, n) != 1 {
                step += 1;
            }
            idx = (0..n).map(|i| (i * step + v) % n.max(1)).collect();
        }
    }
    idx
}
fn gcd(a: usize, b: usize) -> usize {
    if b == 0 {
        a
    } else {
        gcd(b, a % b)
    }
}

/// `ffv dump c15`: records for the texts in `input_file`, one per line (in input order), computed
/// in the visiting order selected by FFV_C15_ORDER
pub fn dump(texts: &[String], out: &str) -> i32 {
    let variant: usize = std::env::var("FFV_C15_ORDER").ok().and_then(|v| v.parse().ok()).unwrap_or(0);
    let mut hashes = vec![String::new(); texts.len()];
    for i in visiting_order(texts.len(), variant) {
        hashes[i] = format!("{:016x}", stable_hash(&record(&texts[i])));
    }
    let mut f = match std::fs::File::create(out) {
        Ok(f) => f,
        Err(_) => return 2,
    };
    for h in hashes {
        if writeln!(f, "{h}").is_err() {
            return 2;
        }
    }
    0
}

/// (b) fresh processes must produce identical records; returns the number of texts compared
pub fn cross_process(texts: &[String], procs: usize) -> Result<usize, String> {
    let scratch = std::env::var("FFV_SCRATCH").unwrap_or_else(|_| format!("{}/harness/target/scratch", verif_dir()));
    let _ = std::fs::create_dir_all(&scratch);
    let exe = std::env::current_exe().map_err(|e| e.to_string())?;
    let input = format!("{scratch}/c15-in-{}.json", std::process::id());
    std::fs::write(&input, serde_json::to_string(texts).unwrap()).map_err(|e| e.to_string())?;
    let own: Vec<String> = texts.iter().map(|t| format!("{:016x}", stable_hash(&record(t)))).collect();
    let mut result = Ok(texts.len());
    for p in 0..procs {
        let out = format!("{scratch}/c15-out-{}-{p}.txt", std::process::id());
        let st = std::process::Command::new(&exe).args(["dump", "c15", "--in", &input, "--out", &out]).env("FFV_C15_ORDER", (p + 1).to_string()).status();
        if !matches!(&st, Ok(s) if s.code() == Some(0)) {
            result = Err(format!("INFRA: dump process failed: {st:?}"));
            break;
        }
        let lines: Vec<String> = std::fs::read_to_string(&out).unwrap_or_default().lines().map(|s| s.to_string()).collect();
        let _ = std::fs::remove_file(&out);
        if lines.len() != own.len() {
            result = Err(format!("INFRA: dump produced {} lines for {} inputs", lines.len(), own.len()));
            break;
        }
        if let Some(i) = (0..own.len()).find(|i| own[*i] != lines[*i]) {
            result = Err(format!("input {:?}: a fresh process returns a different parse/compile result than this process (record hash {} vs {})\nthis process: {}", texts[i], lines[i], own[i], truncate(&record(&texts[i]), 1500)));
            break;
        }
    }
    let _ = std::fs::remove_file(&input);
    result
}

#[derive(Debug, Clone, Hash)]
pub enum Step {
    Compile(E),
    /// wait until the wall clock has moved into the next second
    NextSecond,
}

/// One history on one thread: compile calls (some failing after a time test was emitted) with
/// the wall clock advancing in between. Every embedded second must lie inside its own call.
pub fn judge_history(steps: &[Step]) -> Verdict {
    let opts = RunOptions::default();
    let mut crossed = false;
    let mut after_failure = false;
    let mut failed_with_time_before = false;
    for (i, st) in steps.iter().enumerate() {
        match st {
            Step::NextSecond => {
                let t = now_secs();
                while now_secs() == t {
                    std::thread::sleep(std::time::Duration::from_millis(20));
                }
                std::thread::sleep(std::time::Duration::from_millis(30));
                crossed = true;
                if failed_with_time_before {
                    after_failure = true;
                }
            }
            Step::Compile(e) => {
                let x = to_ast(e);
                let t0 = now_secs() as i128;
                let r = match catch(|| compile(&x, &opts).map(|c| c.scheme("/dev/x"))) {
                    Ok(r) => r,
                    // a tree with an option node is outside compile's domain (parse never returns one):
                    // whatever that call does, the calls after it must be unaffected
                    Err(_) if e.leaves().iter().any(|l| matches!(l, E::G(_))) => {
                        if e.leaves().iter().any(|l| matches!(l, E::T(Tst::Time(..)))) {
                            failed_with_time_before = true;
                        }
                        continue;
                    }
                    Err(p) => return Verdict::Fail(format!("compile panicked at step {i}: {p}")),
                };
                let t1 = now_secs() as i128;
                match r {
                    Err(_) => {
                        if e.leaves().iter().any(|l| matches!(l, E::T(Tst::Time(..)))) {
                            failed_with_time_before = true;
                        }
                    }
                    Ok(prog) => {
                        let forms = match sx::read_all(&prog) {
                            Ok(f) => f,
                            Err(e) => return Verdict::Fail(format!("program does not read: {e}")),
                        };
                        for ep in embedded_epochs(&forms) {
                            if ep < t0 || ep > t1 {
                                return Verdict::Fail(format!(
                                    "history step {i}: the embedded second {ep} lies outside its compile call [{t0}, {t1}] (history: {} compile calls, clock advanced: {crossed}, an earlier compile with a time test had failed: {failed_with_time_before})",
                                    steps.iter().filter(|s| matches!(s, Step::Compile(_))).count()
                                ));
                            }
                        }
                    }
                }
            }
        }
    }
    Verdict::Pass { nt: crossed && after_failure, class: "history with the clock advancing between compile calls" }
}

/// Time tests whose age lies within a few units of the current time since the epoch, compiled in
/// several consecutive seconds: apart from the embedded second the program must stay the same.
pub fn near_now_part(st: &mut Stats) {
    let opts = RunOptions::default();
    let start = now_secs();
    let mut trees: Vec<E> = vec![];
    for u in TUnit::ALL {
        for d in -2i64..=4 {
            let n = (start / u.secs()) as i64 + d;
            for c in [Cmp::Gt, Cmp::Eq, Cmp::Lt] {
                for w in [Which::A, Which::M] {
                    trees.push(E::and(E::T(Tst::Time(w, c, n.max(0) as u64, u)), E::A(Act::Print)));
                }
            }
        }
    }
    let compile_all = |trees: &[E]| -> Vec<Result<String, String>> {
        trees
            .iter()
            .map(|t| {
                let x = to_ast(t);
                match catch(|| compile(&x, &opts).map(|c| c.scheme("/dev/x"))) {
                    Ok(Ok(p)) => Ok(normalise(&p)),
                    Ok(Err(e)) => Err(format!("error: {e}")),
                    Err(p) => Err(format!("panic: {p}")),
                }
            })
            .collect()
    };
    let first = compile_all(&trees);
    let mut bad: Vec<Option<String>> = vec![None; trees.len()];
    for round in 1..=4 {
        let t = now_secs();
        while now_secs() == t {
            std::thread::sleep(std::time::Duration::from_millis(20));
        }
        let again = compile_all(&trees);
        for i in 0..trees.len() {
            if bad[i].is_none() && again[i] != first[i] {
                bad[i] = Some(format!("{:?}: compiled at second {start} and again {round} s later, the programs differ in more than the embedded second\nfirst: {:?}\nlater: {:?}", trees[i], first[i], again[i]));
            }
        }
    }
    for (i, t) in trees.iter().enumerate() {
        let v = match &bad[i] {
            Some(m) => Verdict::Fail(m.clone()),
            None => Verdict::Pass { nt: true, class: "age within a few units of the time since the epoch, compiled in 5 consecutive seconds" },
        };
        st.record(&v, stable_hash(&(i, "near-now")), true, || json!({"kind": "near-now", "tree": term::encode_expr(t), "compiled_at": start}));
    }
}

fn history_json(steps: &[Step]) -> Value {
    json!({"kind": "history", "steps": steps.iter().map(|s| match s { Step::NextSecond => json!("next-second"), Step::Compile(e) => json!(term::encode_expr(e)) }).collect::<Vec<_>>()})
}

fn history_strategy() -> BoxedStrategy<Vec<Step>> {
    let time_test = || (gen::which(), gen::cmp(), 0u64..100, gen::tunit()).prop_map(|(w, c, n, u)| E::T(Tst::Time(w, c, n, u)));
    let ok_with_time = (time_test(), gen::supported_leaf()).prop_map(|(t, l)| E::and(t, l));
    // (a compilation that ends in an error value, or - for a hand-built tree with an option node,
    // which compile does not expect - in a panic that the caller catches)
    let failing_after_time = prop_oneof![3 => (time_test(), gen::unsupported_test()).prop_map(|(t, u)| E::and(t, E::T(u))), 1 => time_test().prop_map(|t| E::and(t, E::G(Glob::Depth)))];
    let any = prop_oneof![2 => ok_with_time.clone(), 1 => failing_after_time.clone(), 1 => crate::checks::c12::full_leaf()];
    (proptest::collection::vec(any.clone(), 1..4), prop::bool::weighted(0.7), failing_after_time, proptest::collection::vec(prop_oneof![3 => ok_with_time, 1 => any], 2..5))
        .prop_map(|(pre, end_with_failure, failing, post)| {
            let mut steps: Vec<Step> = pre.into_iter().map(Step::Compile).collect();
            if end_with_failure {
                steps.push(Step::Compile(failing));
            }
            steps.push(Step::NextSecond);
            steps.extend(post.into_iter().map(Step::Compile));
            steps
        })
        .boxed()
}

pub fn run(ctx: &Ctx) -> Report {
    let cases = ctx.tier.pick(24_000u32, 240_000u32);
    let mut total = run_shards(16, |shard| {
        let mut st = Stats::new();
        let strat = (resource_rich(), resource_rich());
        run_prop(&mut st, ctx.seed, "C15", shard as u64, cases / 16, &strat, |(a, b)| judge(a, b), |(a, b)| case_json(a, b));
        st
    });
    // printers before and after ~127 distinct matchers: tables built from hash maps must not depend on iteration order
    let mut stp = Stats::new();
    for n in [126usize, 127, 128, 255] {
        let mut e = E::and(E::A(Act::FPrint("first.out".into())), E::A(Act::FPrint("second.out".into())));
        for i in 0..n {
            e = E::or(e, E::T(Tst::Name(format!("pattern-{i}.*"))));
        }
        e = E::and(e, E::A(Act::FPrint("last.out".into())));
        for _ in 0..4 {
            let v = judge(&e, &E::A(Act::Print0));
            stp.record(&v, stable_hash(&(n, "sandwich")), false, || json!({"kind": "sandwich", "matchers": n}));
        }
    }
    total.merge(stp);
    // the same expression compiled many hundreds of times: every hash map of the standard library
    // gets its own random keys, so an outcome that depends on them (bucket order, an Eq that is wider
    // than its Hash and is only consulted when two hashes fall into one bucket) shows in a fraction
    // of the compilations only
    let reps = ctx.tier.pick(700usize, 5000usize);
    let twin_trees: Vec<E> = {
        let f = |n: &str| E::A(Act::FPrint(n.into()));
        let f0 = |n: &str| E::A(Act::FPrint0(n.into()));
        let nm = |p: &str| E::T(Tst::Name(p.into()));
        let inm = |p: &str| E::T(Tst::IName(p.into()));
        let ip = |p: &str| E::T(Tst::IPath(p.into()));
        vec![
            E::or(f("./a"), f("a")),
            E::or(E::or(f("a"), f("a/")), E::or(f("./a"), f("a//"))),
            E::and(E::or(f0("out"), f0("./out")), E::or(f("out"), f("OUT"))),
            E::or(E::or(inm("core"), inm("CORE")), E::or(inm("Core"), inm("cORE"))),
            E::and(E::or(ip("*/Src/*"), ip("*/src/*")), E::A(Act::Print0)),
            E::or(E::or(nm("a"), nm("A")), E::or(inm("a"), inm("A"))),
            E::and(E::or(E::or(nm("x*"), nm("x?")), E::or(nm("x"), inm("x"))), E::and(f("x"), f0("x"))),
            E::or(E::A(Act::FPrintf("a".into(), vec![FEl::F(Fld::Name)])), E::or(f("a"), E::A(Act::FPrintf("./a".into(), vec![FEl::F(Fld::Name)])))),
            E::and(E::or(E::T(Tst::Pool("ssd".into())), E::T(Tst::Pool("SSD".into()))), E::or(E::T(Tst::Xattr("user.a".into())), E::T(Tst::Xattr("USER.A".into())))),
            // one format that prints several attributes (and other fields) more than once
            E::A(Act::Printf(vec![FEl::F(Fld::XAttr("owner".into())), FEl::Lit("/".into()), FEl::F(Fld::XAttr("site".into())), FEl::Lit(" ".into()), FEl::F(Fld::Name), FEl::Lit(" ".into()), FEl::F(Fld::XAttr("owner".into())), FEl::Lit("/".into()), FEl::F(Fld::XAttr("site".into())), FEl::F(Fld::XAttr("tag".into())), FEl::F(Fld::XAttr("tag".into())), FEl::E(Esc::Newline)])),
            E::and(E::A(Act::FPrintf("o".into(), vec![FEl::F(Fld::UserId), FEl::F(Fld::GroupId), FEl::F(Fld::UserId), FEl::F(Fld::GroupId), FEl::F(Fld::Bytes), FEl::F(Fld::Bytes)])), E::A(Act::Printf(vec![FEl::F(Fld::XAttr("b".into())), FEl::F(Fld::XAttr("a".into())), FEl::F(Fld::XAttr("b".into())), FEl::F(Fld::XAttr("a".into()))]))),
            // many leaves of every kind, several of them twice
            E::and(E::or(E::or(E::T(Tst::Size(Cmp::Gt, 1, SUnit::K)), E::T(Tst::Size(Cmp::Gt, 1024, SUnit::C))), E::or(E::T(Tst::Uid(Cmp::Eq, 1)), E::T(Tst::Uid(Cmp::Eq, 1)))), E::and(E::or(E::T(Tst::Type(vec![FT::F, FT::D])), E::T(Tst::Type(vec![FT::D, FT::F]))), E::or(E::T(Tst::Perm(PKind::Any, 0o111)), E::T(Tst::Perm(PKind::Any, 0o111))))),
        ]
    };
    let rep = run_shards(twin_trees.len(), |i| {
        let mut st = Stats::new();
        let t = &twin_trees[i];
        let v = judge_repeat(t, reps);
        st.record(&v, stable_hash(t), true, || json!({"kind": "repeat", "times": reps, "tree": crate::term::encode_expr(t)}));
        st
    });
    total.merge(rep);
    // histories with the wall clock advancing (one sleep of at most ~1 s each, run in parallel)
    let per_thread = ctx.tier.pick(2usize, 12usize);
    let hist = run_shards(16, |shard| {
        let mut st = Stats::new();
        for h in sample_values(ctx.seed, "C15-history", shard as u64, per_thread, &history_strategy()) {
            let v = judge_history(&h);
            st.record(&v, stable_hash(&h), false, || history_json(&h));
        }
        st
    });
    total.merge(hist);
    let mut stn = Stats::new();
    near_now_part(&mut stn);
    stn.samples.truncate(1);
    total.merge(stn);
    // (b) fresh processes
    let n = ctx.tier.pick(2_000usize, 30_000usize);
    let trees = sample_values(ctx.seed, "C15-cross", 0, n, &resource_rich());
    let mut texts: Vec<String> = trees.iter().filter_map(render::canonical).collect();
    texts.extend(crate::corpus::grammar_texts(ctx.seed, n / 2));
    // near-duplicates: the same words with other blanks inside quotes, formats that are prefixes of
    // one another, strings with quote/backslash (a result must not depend on earlier calls or on
    // per-process hash seeds)
    for w in ["a b", "a  b", "a\tb", "a   b", "say \"hi\"", "a\\b", "a\"b\\c", "it's", "x\\\"y"] {
        for kw in ["-name", "-iname", "-path", "-pool", "-xattr", "-fprint"] {
            if let Some(t) = render::spell_string(w, &mut render::Canon) {
                texts.push(format!("{kw} {}", t.text));
            }
        }
    }
    for f in sample_values(ctx.seed, "C15-fmt", 0, n / 8 + 8, &crate::checks::c14::gen_format()) {
        if !f.contains('\'') && !f.is_empty() {
            for suffix in ["", "%p", " %s\\n", "\\n", "x", "%%"] {
                texts.push(format!("-printf '{f}{suffix}'"));
            }
        }
    }
    // every prefix of some texts (cut at each character, so also inside quotes and numbers), in
    // increasing length: this process meets them shortest first, the reversed child longest first -
    // what an earlier call saw of the same text must not matter
    let mut with_prefixes: Vec<String> = vec![];
    for t in texts.iter().filter(|t| (t.contains('\'') || t.contains('"')) && t.chars().count() <= 60).take(ctx.tier.pick(40, 400)) {
        let idx: Vec<usize> = t.char_indices().map(|(i, _)| i).skip(1).collect();
        for i in idx {
            with_prefixes.push(t[..i].to_string());
        }
        with_prefixes.push(t.clone());
    }
    for t in ["-name 'it s' -uid x", "-name \"a b\" -print", "-fprint 'out 1.txt' -o -name 'it''s'", "-printf '%p %s\\n' -name x"] {
        for (i, _) in t.char_indices().skip(1) {
            with_prefixes.push(t[..i].to_string());
        }
        with_prefixes.push(t.to_string());
    }
    texts.extend(with_prefixes);
    match cross_process(&texts, 3) {
        Ok(k) => {
            total.evaluations += k as u64;
            total.bump_by("cross-process: 3 fresh processes agree", k as u64);
            total.nt_enum += trees.iter().filter(|t| t.leaves().len() >= 8).count() as u64;
            total.extra.insert("cross_process_inputs".into(), json!(k));
        }
        Err(m) if m.starts_with("INFRA") => total.oracle_bugs.push(m),
        Err(m) => {
            let input = m.split('"').nth(1).unwrap_or("").to_string();
            total.failures.push(Failure { case: json!({"kind": "cross-process", "input": input}), msg: m })
        }
    }
    total.samples.truncate(6);
    Report {
        stats: total,
        rule: "random expressions biased to 8..40 distinct matchers/printers (so that hash-table iteration order would show). (a) in one process: parsing the text twice gives equal results; compiling e1, an unrelated e2, then e1 again gives byte-identical programs (embedded epoch normalised) and equal destination tables; (b) the same texts (plus near-duplicates: other blanks inside quotes, formats that are prefixes of one another, strings with quotes/backslashes; every prefix of 40 texts in increasing length) are parsed and compiled in three fresh processes (fresh hash seeds), each visiting them in a different order (reversed, strided), and the canonical records must be identical to this process's; (a') nine expressions made of path twins, case twins and literal/pattern twins are compiled 700 (quick) / 5000 (thorough) times each and must give the same program and table every time (outcomes that depend on the per-map hash keys); (c) every wall-clock second embedded by a time test lies between clock readings taken around the compile call, also in histories of compile calls on one thread in which earlier calls fail after a time test was emitted and the wall clock moves into the next second in between (32 such histories in the quick tier); the number of reference seconds in a program equals the number of time tests of its tree; time tests whose age is within -2..+4 units (s, min, h, d) of the current time since the epoch are compiled in five consecutive seconds and must give the same program up to the embedded second. Non-trivial: >=8 matcher/printer requests. Distinct: by (tree pair) / input text.".into(),
        assumptions: vec!["the embedded second is recognised as the first operand of (- N (atime|ctime|mtime))".into()],
        exhaustive: false,
    }
}
