//! C16 — concurrent scanner threads never tear or mix output records
//! (owned-schedule exploration of the emitted printer procedures).

use crate::files::FileRec;
use crate::gen;
use crate::interp::Event;
use crate::policy::{self, CompileOutcome};
use crate::term;
use crate::tree::*;
use crate::util::*;
use proptest::prelude::*;
use serde_json::{json, Value};
use std::collections::{HashSet, VecDeque};

#[derive(Debug, Clone, PartialEq, Eq, Hash)]
pub enum Step {
    Lock(usize),
    Unlock(usize),
    /// write to `port`, belonging to record `unit`; `last` closes the record; `direct` = runtime-direct printer
    Write { port: usize, unit: usize, last: bool, direct: bool },
}

/// Turn the events of one policy invocation into atomic steps. `units` numbers the records.
fn steps_of(events: &[Event], framed: bool, units: &mut usize, out: &mut Vec<Step>) {
    // pending raw text per port (to find where a frame is complete)
    let mut pending: std::collections::HashMap<usize, (usize, String)> = Default::default();
    let mut open_raw: std::collections::HashMap<usize, (usize, usize)> = Default::default();
    for ev in events {
        match ev {
            Event::Lock(m) => out.push(Step::Lock(*m)),
            Event::Unlock(m) => out.push(Step::Unlock(*m)),
            Event::Record { port, term, direct, .. } => {
                let u = *units;
                *units += 1;
                if *direct || term.is_none() {
                    out.push(Step::Write { port: *port, unit: u, last: true, direct: *direct });
                } else {
                    // runtime printer: payload, then terminator (two writes under its mutex)
                    out.push(Step::Write { port: *port, unit: u, last: false, direct: false });
                    out.push(Step::Write { port: *port, unit: u, last: true, direct: false });
                }
            }
            Event::Raw { port, text } => {
                if framed && *port == 0 {
                    let e = pending.entry(*port).or_insert_with(|| {
                        let u = *units;
                        *units += 1;
                        (u, String::new())
                    });
                    e.1.push_str(text);
                    let cs: Vec<char> = e.1.chars().collect();
                    // a frame is complete when the text ends with separator + one tag character
                    let complete = cs.len() >= 2 && cs[cs.len() - 2] == '\u{1e}';
                    let u = e.0;
                    out.push(Step::Write { port: *port, unit: u, last: complete, direct: false });
                    if complete {
                        pending.remove(port);
                    }
                } else {
                    // a record written piece by piece with plain `display` calls (payload, then the
                    // terminator): the pieces up to a line end or NUL, or up to the end of this
                    // invocation, are one record
                    let u = match open_raw.get(port) {
                        Some((u, _)) => *u,
                        None => {
                            let u = *units;
                            *units += 1;
                            u
                        }
                    };
                    let closes = text.ends_with('\n') || text.ends_with('\0');
                    out.push(Step::Write { port: *port, unit: u, last: closes, direct: false });
                    if closes {
                        open_raw.remove(port);
                    } else {
                        open_raw.insert(*port, (u, out.len() - 1));
                    }
                }
            }
            Event::Break(_) | Event::ClosePort(_) => {}
        }
    }
    // what is still open when the policy returns is complete as far as this invocation goes
    for (_, (_, idx)) in open_raw {
        if let Step::Write { last, .. } = &mut out[idx] {
            *last = true;
        }
    }
}

#[derive(Debug, Default)]
pub struct Explored {
    pub states: u64,
    pub transitions: u64,
    pub blocked_states: u64,
    pub violation: Option<String>,
}

/// Exhaustive exploration of all interleavings of the threads' step lists with
/// blocking mutex semantics. `tolerate_direct`: writes of runtime-direct printers
/// do not count as tearing (signature of finding F13).
pub fn explore(threads: &[Vec<Step>], tolerate_direct: bool) -> Explored {
    #[derive(Clone, PartialEq, Eq, Hash)]
    struct St {
        pc: Vec<usize>,
        /// open record per port: (port, thread, unit)
        open: Vec<(usize, usize, usize)>,
    }
    let mut ex = Explored::default();
    let n = threads.len();
    let owners = |pc: &Vec<usize>| -> std::collections::HashMap<usize, usize> {
        // mutex owner is a function of the program counters (locks are properly nested per thread)
        let mut m = std::collections::HashMap::new();
        for t in 0..n {
            let mut held: Vec<usize> = vec![];
            for s in &threads[t][..pc[t]] {
                match s {
                    Step::Lock(x) => held.push(*x),
                    Step::Unlock(x) => {
                        if let Some(p) = held.iter().rposition(|h| h == x) {
                            held.remove(p);
                        }
                    }
                    _ => {}
                }
            }
            for h in held {
                m.insert(h, t);
            }
        }
        m
    };
    let start = St { pc: vec![0; n], open: vec![] };
    let mut seen: HashSet<St> = HashSet::new();
    let mut queue = VecDeque::new();
    seen.insert(start.clone());
    queue.push_back(start);
    while let Some(st) = queue.pop_front() {
        ex.states += 1;
        let own = owners(&st.pc);
        let mut enabled = 0;
        let mut unfinished = 0;
        let mut blocked = false;
        for t in 0..n {
            if st.pc[t] >= threads[t].len() {
                continue;
            }
            unfinished += 1;
            let step = &threads[t][st.pc[t]];
            let mut next = st.clone();
            match step {
                Step::Lock(m) => {
                    if own.contains_key(m) {
                        blocked = true;
                        continue; // held (by another thread, or by itself: never released)
                    }
                }
                Step::Unlock(_) => {}
                Step::Write { port, unit, last, direct } => {
                    if let Some((_, t2, u2)) = st.open.iter().find(|(p, _, _)| p == port) {
                        if (*t2 != t || *u2 != *unit) && !(tolerate_direct && *direct) {
                            ex.violation = Some(format!(
                                "torn record: thread {t} writes{} to port {port} while record #{u2} of thread {t2} is incomplete (schedule prefix pcs {:?})",
                                if *direct { " (runtime-direct printer)" } else { "" },
                                st.pc
                            ));
                            return ex;
                        }
                    }
                    if !(tolerate_direct && *direct) {
                        next.open.retain(|(p, _, _)| p != port);
                        if !*last {
                            next.open.push((*port, t, *unit));
                        }
                    }
                }
            }
            enabled += 1;
            ex.transitions += 1;
            next.pc[t] += 1;
            if seen.insert(next.clone()) {
                queue.push_back(next);
            }
        }
        if blocked {
            ex.blocked_states += 1;
        }
        if unfinished > 0 && enabled == 0 {
            ex.violation = Some(format!("deadlock: {unfinished} unfinished threads, all blocked at pcs {:?}", st.pc));
            return ex;
        }
    }
    ex
}

#[derive(Debug, Clone, Hash)]
pub struct Case {
    pub tree: E,
    /// the -threads option given to compile
    pub threads: Option<u32>,
    /// thread -> file indices (into the fixed file set)
    pub assignment: Vec<Vec<u8>>,
}

fn file_set(now: u64) -> Vec<FileRec> {
    let b = FileRec::base(now);
    vec![b.with_name("a"), b.with_name("b"), b.with_name("foo.c"), b.with_name("A")]
}

fn has_clear(e: &E) -> bool {
    e.leaves().iter().any(|l| match l {
        E::A(Act::Printf(f)) | E::A(Act::FPrintf(_, f)) => f.iter().any(|x| matches!(x, FEl::E(Esc::Clear))),
        _ => false,
    })
}

pub fn judge(c: &Case) -> (Verdict, u64, u64) {
    let comp = match policy::compile_tree(&c.tree, c.threads, "/") {
        CompileOutcome::Ok(c) => c,
        CompileOutcome::Err(_) => return (Verdict::Skip("does not compile (C12)"), 0, 0),
        CompileOutcome::Panic(p) => return (Verdict::Fail(format!("compile panicked: {p}")), 0, 0),
    };
    let files = file_set(comp.now);
    let run = match policy::run_policy(&comp, files.clone()) {
        Ok(r) => r,
        Err(e) => return (Verdict::Fail(format!("{:?}: {e}", c.tree)), 0, 0),
    };
    if let Some(e) = &run.error {
        return (Verdict::Fail(format!("{:?}: program fails at run time: {e}", c.tree)), 0, 0);
    }
    let framed = comp.io_map.is_some();
    // how many scanner threads does the emitted scan call allow?
    match run.world.scan.as_ref().map(|s| s.threads.clone()) {
        Some(crate::interp::V::Int(1)) => return (Verdict::Skip("the scan call asks for exactly one thread"), 0, 0),
        Some(crate::interp::V::Int(0)) => return (Verdict::Skip("thread count 0: meaning defined by the runtime, not explored"), 0, 0),
        _ => {}
    }
    let mut units = 0usize;
    let mut threads: Vec<Vec<Step>> = vec![];
    for fs in &c.assignment {
        let mut steps = vec![];
        for fi in fs {
            let idx = *fi as usize % files.len();
            let fr = &run.world.runs[idx];
            if let Some(e) = &fr.error {
                return (Verdict::Fail(format!("{:?}: policy fails at run time: {e}", c.tree)), 0, 0);
            }
            steps_of(&fr.events, framed, &mut units, &mut steps);
        }
        threads.push(steps);
    }
    // plain mode: what arrives on the standard output must split into whole terminated lines, so
    // every record written there ends with the line terminator (a format cut short by `\c` is the
    // user's own request for an unterminated record and is left out)
    if !framed && !has_clear(&c.tree) {
        for fs in &c.assignment {
            for fi in fs {
                let fr = &run.world.runs[*fi as usize % files.len()];
                for ev in &fr.events {
                    let (port, bytes) = match ev {
                        Event::Record { port, payload, term, .. } => (*port, format!("{payload}{}", term.map(|t| t.to_string()).unwrap_or_default())),
                        Event::Raw { port, text } => (*port, text.clone()),
                        _ => continue,
                    };
                    if matches!(run.world.ports.get(port), Some(crate::interp::PortKind::Stdout)) && !bytes.is_empty() && !bytes.ends_with('\n') {
                        return (
                            Verdict::Fail(format!("{:?}: plain (unframed) mode, yet a record written to the shared standard output does not end with a line terminator: {bytes:?} - the stream of several threads cannot be split back into whole lines\nprogram:\n{}", c.tree, comp.text)),
                            0,
                            0,
                        );
                    }
                }
            }
        }
    }
    let total_steps: usize = threads.iter().map(|t| t.len()).sum();
    let writers = threads.iter().filter(|t| t.iter().any(|s| matches!(s, Step::Write { .. }))).count();
    let mut ex = explore(&threads, false);
    let (st, tr) = (ex.states, ex.transitions);
    if ex.violation.is_none() && framed && threads.iter().flatten().any(|s| matches!(s, Step::Write { direct: true, port: 0, .. })) {
        ex.violation = Some("framed mode: a runtime-direct printer writes a record to the shared port that is not a frame".into());
    }
    if let Some(v) = &ex.violation {
        let has_direct = threads.iter().flatten().any(|s| matches!(s, Step::Write { direct: true, .. }));
        if has_direct && Findings::load_cached().is_active("C16", "F13") {
            let ex2 = explore(&threads, true);
            if ex2.violation.is_none() {
                return (Verdict::Known("F13", "the runtime-direct printer of -print-file-fid writes to the shared port without the generated mutex: its record can land inside another thread's record (framed: between payload and tag)".into()), st + ex2.states, tr + ex2.transitions);
            }
        }
        return (Verdict::Fail(format!("{:?} with threads {:?} ({} steps): {v}\nsteps: {:?}\nprogram:\n{}", c.tree, c.assignment, total_steps, threads, comp.text)), st, tr);
    }
    let nt = writers >= 2 && (ex.blocked_states > 0 || units >= 2);
    (Verdict::Pass { nt, class: if framed { "framed mode" } else { "plain mode" } }, st, tr)
}

fn case_json(c: &Case) -> Value {
    json!({"kind": "schedule-space", "threads_option": c.threads, "tree": term::encode_expr(&c.tree), "text": crate::render::canonical(&c.tree), "threads": c.assignment})
}
pub fn replay(case: &Value) -> Result<Verdict, String> {
    let tree = term::decode_expr(case["tree"].as_str().ok_or("no tree")?)?;
    let assignment = case["threads"].as_array().ok_or("threads")?.iter().map(|t| t.as_array().map(|a| a.iter().map(|v| v.as_u64().unwrap_or(0) as u8).collect()).unwrap_or_default()).collect();
    Ok(judge(&Case { tree, threads: case["threads_option"].as_u64().map(|t| t as u32), assignment }).0)
}

pub fn run(ctx: &Ctx) -> Report {
    let cases = ctx.tier.pick(80_000u32, 800_000u32);
    let states = std::sync::atomic::AtomicU64::new(0);
    let transitions = std::sync::atomic::AtomicU64::new(0);
    let mut total = run_shards(16, |shard| {
        let mut st = Stats::new();
        let action = prop_oneof![
            3 => Just(Act::Print),
            2 => Just(Act::Print0),
            2 => Just(Act::Printf(vec![FEl::F(Fld::NameNoStart), FEl::E(Esc::Newline)])),
            2 => Just(Act::Printf(vec![FEl::F(Fld::Basename)])),
            2 => Just(Act::Printf(vec![FEl::Lit("skipped".into()), FEl::E(Esc::Newline)])),
            1 => Just(Act::Printf(vec![FEl::Lit("no newline".into())])),
            // formats cut short by \\c: at the very start (nothing is printed), after some text, after the newline
            1 => prop::sample::select(vec![
                vec![FEl::E(Esc::Clear)],
                vec![FEl::E(Esc::Clear), FEl::F(Fld::Basename), FEl::E(Esc::Newline)],
                vec![FEl::Lit("cut".into()), FEl::E(Esc::Clear)],
                vec![FEl::F(Fld::Basename), FEl::E(Esc::Newline), FEl::E(Esc::Clear)],
                vec![FEl::E(Esc::Clear), FEl::E(Esc::Clear)],
            ]).prop_map(Act::Printf),
            1 => prop::sample::select(vec![vec![FEl::E(Esc::Clear)], vec![FEl::E(Esc::Clear), FEl::F(Fld::Basename)], vec![FEl::F(Fld::Basename), FEl::E(Esc::Clear), FEl::E(Esc::Newline)]]).prop_map(|f| Act::FPrintf("a".into(), f)),
            // hand-built octal escapes as last element: only code 10 written as the newline escape ends a line
            1 => prop_oneof![prop::sample::select(vec![0o012u16, 0o412, 0o1012, 0o2012, 0o7012, 0x010a, 0x0a0a, 0xff0a, 0o1156, 0x2028, 0x85]), 1u16..0xd7ff]
                .prop_map(|c| Act::Printf(vec![FEl::F(Fld::Basename), FEl::E(Esc::Ascii(c))])),
            2 => prop::sample::select(vec!["a", "b"]).prop_map(|f| Act::FPrint(f.to_string())),
            1 => prop::sample::select(vec!["a", "b"]).prop_map(|f| Act::FPrint0(f.to_string())),
            // special files and path-like tokens of the sources under test as destinations (a name that
            // is special to the code must still be written under the lock like any other)
            1 => (prop::sample::select(crate::dict::paths()), 0u8..3).prop_map(|(f, k)| match k {
                0 => Act::FPrint(f),
                1 => Act::FPrint0(f),
                _ => Act::FPrintf(f, vec![FEl::F(Fld::Basename), FEl::E(Esc::Newline)]),
            }),
            1 => Just(Act::PrintFid),
        ];
        let leaf = prop_oneof![5 => action.prop_map(E::A), 1 => Just(E::T(Tst::True)), 1 => Just(E::T(Tst::Name("a".into()))), 1 => Just(E::T(Tst::IName("A".into())))];
        let threads = prop_oneof![3 => Just(None), 1 => Just(Some(0u32)), 1 => Just(Some(1u32)), 1 => Just(Some(2u32)), 1 => gen::count_u32().prop_map(Some)];
        let strat = (gen::expr_over(leaf.boxed(), 3, 7, false), threads, proptest::collection::vec(proptest::collection::vec(0u8..4, 1..3), 2..4)).prop_map(|(tree, threads, assignment)| Case { tree, threads, assignment });
        run_prop(
            &mut st,
            ctx.seed,
            "C16",
            shard as u64,
            cases / 16,
            &strat,
            |c| {
                let (v, s, t) = judge(c);
                states.fetch_add(s, std::sync::atomic::Ordering::Relaxed);
                transitions.fetch_add(t, std::sync::atomic::Ordering::Relaxed);
                v
            },
            case_json,
        );
        st
    });
    // interaction triples: three leaf kinds under every operator skeleton, two and three threads
    let tr = crate::combo::run_triples(
        ctx.seed,
        &crate::combo::small_kinds(),
        ctx.tier.pick(12, 1),
        |t| {
            let c = Case { tree: t.clone(), threads: None, assignment: if stable_hash(t) % 2 == 0 { vec![vec![0u8], vec![1]] } else { vec![vec![0u8, 2], vec![1], vec![3]] } };
            let (v, s, tr) = judge(&c);
            states.fetch_add(s, std::sync::atomic::Ordering::Relaxed);
            transitions.fetch_add(tr, std::sync::atomic::Ordering::Relaxed);
            v
        },
        |t| case_json(&Case { tree: t.clone(), threads: None, assignment: if stable_hash(t) % 2 == 0 { vec![vec![0u8], vec![1]] } else { vec![vec![0u8, 2], vec![1], vec![3]] } }),
    );
    total.merge(tr);
    // many matchers before the printers: identifier and tag numbers beyond 255
    let mut st = Stats::new();
    for n in [0usize, 100, 126, 127, 128, 130, 200] {
        for acts in [vec![Act::Print0], vec![Act::FPrint("a".into()), Act::Print0], vec![Act::Print, Act::Printf(vec![FEl::F(Fld::Basename), FEl::E(Esc::Newline)])], vec![Act::FPrint("a".into()), Act::FPrint("b".into()), Act::FPrint0("a".into())]] {
            let mut e = E::T(Tst::True);
            for i in 0..n {
                e = E::or(E::T(Tst::Name(format!("m{i}"))), e);
            }
            for a in &acts {
                e = E::and(e, E::A(a.clone()));
            }
            for assignment in [vec![vec![0u8], vec![1]], vec![vec![0, 1], vec![2], vec![3]]] {
                let c = Case { tree: e.clone(), threads: None, assignment };
                let (v, s, t) = judge(&c);
                states.fetch_add(s, std::sync::atomic::Ordering::Relaxed);
                transitions.fetch_add(t, std::sync::atomic::Ordering::Relaxed);
                st.record(&v, stable_hash(&c), true, || json!({"kind": "schedule-space", "matchers_before": n, "actions": format!("{acts:?}"), "threads": c.assignment, "tree": term::encode_expr(&c.tree)}));
            }
        }
    }
    // constructs the target cannot express, inside an alternative, between printers and after 0..5
    // matchers: refused today (skipped here, C12 decides that) - but should such an expression ever
    // compile, its printers are explored like any others
    for u in [UTest::NoUser, UTest::NoGroup, UTest::User("u".into()), UTest::Group("g".into()), UTest::Regex("r".into()), UTest::LName("l".into()), UTest::FsType("lustre".into()), UTest::Samefile("f".into())] {
        for m in 0..=5usize {
            for (first, last) in [(Act::Print, Act::Print), (Act::Print, Act::Printf(vec![FEl::F(Fld::Basename), FEl::E(Esc::Newline)])), (Act::Print0, Act::FPrint("a".into())), (Act::FPrint("a".into()), Act::Print0)] {
                let mut e = E::T(Tst::False);
                for i in 0..m {
                    e = E::or(e, E::T(if i % 2 == 0 { Tst::Name(format!("m{i}")) } else { Tst::IName(format!("m{i}")) }));
                }
                e = E::or(e, E::and(E::T(Tst::Name("a".into())), E::A(first.clone())));
                e = E::or(e, E::T(Tst::U(u.clone())));
                e = E::or(e, E::A(last.clone()));
                for assignment in [vec![vec![0u8], vec![1]], vec![vec![0, 1], vec![2]]] {
                    let c = Case { tree: e.clone(), threads: None, assignment };
                    let (v, s, t) = judge(&c);
                    states.fetch_add(s, std::sync::atomic::Ordering::Relaxed);
                    transitions.fetch_add(t, std::sync::atomic::Ordering::Relaxed);
                    st.record(&v, stable_hash(&c), true, || case_json(&c));
                }
            }
        }
    }
    total.merge(st);
    total.extra.insert("states".into(), json!(states.load(std::sync::atomic::Ordering::Relaxed)));
    total.extra.insert("transitions".into(), json!(transitions.load(std::sync::atomic::Ordering::Relaxed)));
    Report {
        stats: total,
        rule: "programs with 1..3 printers (plain: stdout printers with different terminators and runtime-direct printers; framed: any mix), 2..3 threads each running the policy on 1..2 files, compiled without and with a -threads option (0, 1, 2, random); configurations whose emitted scan call asks for exactly one thread are not explored. The emitted printer procedures are executed by the runtime model into atomic steps Lock m / Write port / Unlock m (a frame is the run of writes up to separator+tag; a runtime printer writes payload then terminator under its mutex); the harness owns the schedule and explores ALL interleavings of every generated configuration by breadth-first search over (program counters, open record per port) with blocking mutex semantics. Oracle: no reachable state in which a thread writes to a port while another thread's record on that port is incomplete (so the stream always splits into whole frames / whole terminated records with the emitted multiset), and no reachable state with unfinished threads all blocked (deadlock); in plain mode, additionally, every record written to the shared standard output ends with the line terminator (otherwise the stream cannot be split back into whole terminated lines) - formats cut short by \\c are left out of this last clause; the formatted prints include hand-built octal escapes up to 0xd7ff as last element. Non-trivial: >=2 threads write and some thread was blocked on a held mutex or >=2 records were emitted. Distinct: by (tree, thread->files assignment).".into(),
        assumptions: {
            let mut a = crate::checks::c02::runtime_assumptions();
            a.push("not covered: fairness/liveness of the real Guile scheduler, and write atomicity inside the real runtime (a single display / runtime-direct print is one atomic write)".into());
            a
        },
        exhaustive: false,
    }
}
