//! C17 — debug and release builds behave identically.

use crate::checks::c15::record;
use crate::corpus;
use crate::util::*;
use serde_json::{json, Value};
use std::io::Write;

const NSHARDS: usize = 32;

fn corpus_records(seed: u64, tier: Tier) -> Vec<(String, String)> {
    let parts = std::sync::Mutex::new(vec![Vec::new(); NSHARDS]);
    let next = std::sync::atomic::AtomicUsize::new(0);
    std::thread::scope(|sc| {
        for _ in 0..16 {
            sc.spawn(|| loop {
                let s = next.fetch_add(1, std::sync::atomic::Ordering::SeqCst);
                if s >= NSHARDS {
                    break;
                }
                // the C17 corpus is a (smaller) slice of the C03 corpus: every third input, and no input with more
                // than 16 groups (whether deeply nested input is answered at all, and in what time, is C03's
                // question; here a build that needs exponential time would only run into the watchdog)
                let v: Vec<(String, String)> = { let full = corpus::full_part(s, NSHARDS).len(); let all = corpus::texts(seed, tier, s, NSHARDS); let n = all.len(); all.into_iter().enumerate().filter(move |(i, t)| (i % 3 == 0 || *i >= n - full) && t.bytes().filter(|b| *b == b'(').count() <= 16) }.map(|(_, t)| { let r = record(&t); (t, r) }).collect();
                parts.lock().unwrap()[s] = v;
            });
        }
    });
    parts.into_inner().unwrap().into_iter().flatten().collect()
}

/// `ffv dump c17`: one hash line per corpus input
pub fn dump(seed: u64, tier: Tier, out: &str) -> i32 {
    let recs = corpus_records(seed, tier);
    let mut f = match std::fs::File::create(out) {
        Ok(f) => std::io::BufWriter::new(f),
        Err(_) => return 2,
    };
    for (_, r) in &recs {
        if writeln!(f, "{:016x}", stable_hash(r)).is_err() {
            return 2;
        }
    }
    0
}

/// `ffv dump record`: full records for the given texts
pub fn dump_records(texts: &[String], out: &str) -> i32 {
    let v: Vec<String> = texts.iter().map(|t| record(t)).collect();
    match std::fs::write(out, serde_json::to_string(&v).unwrap()) {
        Ok(()) => 0,
        Err(_) => 2,
    }
}

fn other_bin() -> String {
    let (var, default) = if cfg!(debug_assertions) { ("FFV_REL_BIN", "release") } else { ("FFV_DEV_BIN", "debug") };
    std::env::var(var).unwrap_or_else(|_| format!("{}/harness/target/{default}/ffv", verif_dir()))
}

fn other_records(texts: &[String]) -> Option<Vec<String>> {
    let scratch = std::env::var("FFV_SCRATCH").unwrap_or_else(|_| format!("{}/harness/target/scratch", verif_dir()));
    let input = format!("{scratch}/c17-in-{}.json", std::process::id());
    let out = format!("{scratch}/c17-rec-{}.json", std::process::id());
    std::fs::write(&input, serde_json::to_string(texts).ok()?).ok()?;
    let st = std::process::Command::new(other_bin()).args(["dump", "record", "--in", &input, "--out", &out]).status().ok()?;
    let r = if st.code() == Some(0) { std::fs::read_to_string(&out).ok().and_then(|t| serde_json::from_str(&t).ok()) } else { None };
    let _ = std::fs::remove_file(&input);
    let _ = std::fs::remove_file(&out);
    r
}

pub fn judge_one(text: &str) -> Verdict {
    let mine = record(text);
    match other_records(&[text.to_string()]) {
        None => Verdict::OracleBug("cannot run the other-profile binary".into()),
        Some(o) => {
            if o[0] == mine {
                Verdict::Pass { nt: mine.starts_with("PARSE-OK"), class: "equal" }
            } else {
                Verdict::Fail(format!("input {:?}: the two builds disagree\n{}: {}\nother build: {}", truncate(text, 300), profile(), truncate(&mine, 1500), truncate(&o[0], 1500)))
            }
        }
    }
}

pub fn replay(case: &Value) -> Result<Verdict, String> {
    Ok(judge_one(case["input"].as_str().ok_or("input")?))
}

pub fn run(ctx: &Ctx) -> Report {
    let mut st = Stats::new();
    let scratch = std::env::var("FFV_SCRATCH").unwrap_or_else(|_| format!("{}/harness/target/scratch", verif_dir()));
    let _ = std::fs::create_dir_all(&scratch);
    let out = format!("{scratch}/c17-{}.txt", std::process::id());
    // the other build dumps its record hashes while this build computes its own
    let child = std::process::Command::new(other_bin()).args(["dump", "c17", "--seed", &ctx.seed.to_string(), "--tier", ctx.tier.name(), "--out", &out]).spawn();
    let mine = corpus_records(ctx.seed, ctx.tier);
    let status = child.and_then(|mut c| c.wait());
    let lines: Vec<String> = std::fs::read_to_string(&out).unwrap_or_default().lines().map(|s| s.to_string()).collect();
    let _ = std::fs::remove_file(&out);
    if !matches!(&status, Ok(s) if s.code() == Some(0)) || lines.len() != mine.len() {
        st.oracle_bugs.push(format!("other-profile dump failed: status {status:?}, {} lines for {} inputs", lines.len(), mine.len()));
    } else {
        let mut mismatches = vec![];
        for (i, (t, r)) in mine.iter().enumerate() {
            let h = format!("{:016x}", stable_hash(r));
            let eq = h == lines[i];
            if eq {
                let nt = r.starts_with("PARSE-OK");
                let class = if r.contains(" PROGRAM ") {
                    "equal: program"
                } else if r.contains("COMPILE-ERR") {
                    "equal: compile error"
                } else if r.starts_with("PARSE-ERR") {
                    "equal: parse error"
                } else {
                    "equal: panic in both builds (C03 reports that)"
                };
                st.record(&Verdict::Pass { nt, class }, stable_hash(t.as_str()), false, || json!({"input": t, "record": truncate(r, 200)}));
            } else {
                st.evaluations += 1;
                mismatches.push(t.clone());
            }
        }
        mismatches.sort_by_key(|t| t.len());
        mismatches.truncate(MAX_FAILURES);
        if !mismatches.is_empty() {
            let others = other_records(&mismatches);
            for (i, t) in mismatches.iter().enumerate() {
                let o = others.as_ref().map(|o| o[i].clone()).unwrap_or("<unavailable>".into());
                st.failures.push(Failure { case: json!({"kind": "input", "input": t}), msg: format!("input {:?}: the two builds disagree\n{}: {}\nother build: {}", truncate(t, 300), profile(), truncate(&record(t), 1500), truncate(&o, 1500)) });
            }
        }
    }
    Report {
        stats: st,
        rule: "the corpus of C03/C05 (grammar-aware texts, prefixes and single-character mutations, exhaustive short arguments, numeric boundaries, members and non-members, formats; every third input; in full: every code point of the basic plane as argument of the string-processing primaries, bracket arrangements), fixed by the seed, is evaluated by the dev build (debug assertions and overflow checks on) and the release build of the same harness; per input the canonical record (parse Ok: options+tree Debug | Err: message | panic; compile Ok: program with the embedded clock normalised + sorted destination table | Err: message | panic) must be identical. Non-trivial: parse is Ok (the compile stage is reached). Distinct: by input text.".into(),
        assumptions: vec!["records are compared through a 64-bit hash; the full records are fetched for mismatches".into()],
        exhaustive: false,
    }
}
