//! C18 — argument errors name the offending primary and word.

use crate::util::*;
use lipe_find_parser::parse;
use proptest::prelude::*;
use serde_json::{json, Value};

#[derive(Debug, Clone, Copy, PartialEq, Eq, Hash)]
pub enum Lang {
    Str,
    Str2,
    StrFmt,
    Fmt,
    Num,
    Unsigned,
    Size,
    Time,
    Types,
    Perm,
}

pub const ARG_KEYWORDS: [(&str, Lang); 45] = [
    ("-amin", Lang::Time),
    ("-atime", Lang::Time),
    ("-cmin", Lang::Time),
    ("-ctime", Lang::Time),
    ("-mmin", Lang::Time),
    ("-mtime", Lang::Time),
    ("-anewer", Lang::Str),
    ("-cnewer", Lang::Str),
    ("-mnewer", Lang::Str),
    ("-fstype", Lang::Str),
    ("-group", Lang::Str),
    ("-user", Lang::Str),
    ("-ilname", Lang::Str),
    ("-iregex", Lang::Str),
    ("-regex", Lang::Str),
    ("-samefile", Lang::Str),
    ("-name", Lang::Str),
    ("-iname", Lang::Str),
    ("-path", Lang::Str),
    ("-ipath", Lang::Str),
    ("-pool", Lang::Str),
    ("-xattr", Lang::Str),
    ("-xattr-match", Lang::Str2),
    ("-uid", Lang::Num),
    ("-gid", Lang::Num),
    ("-inum", Lang::Num),
    ("-links", Lang::Num),
    ("-mirror-count", Lang::Num),
    ("-stripe-count", Lang::Num),
    ("-size", Lang::Size),
    ("-type", Lang::Types),
    ("-perm", Lang::Perm),
    ("-fprint", Lang::Str),
    ("-fprint0", Lang::Str),
    ("-fls", Lang::Str),
    ("-printf", Lang::Fmt),
    ("-fprintf", Lang::StrFmt),
    ("-threads", Lang::Unsigned),
    ("-maxdepth", Lang::Unsigned),
    ("-mindepth", Lang::Unsigned),
    // a few twice with a different embedding weight
    ("-size", Lang::Size),
    ("-perm", Lang::Perm),
    ("-type", Lang::Types),
    ("-uid", Lang::Num),
    ("-mtime", Lang::Time),
];

/// words invalid from their first character for the language
fn bad_words(l: Lang) -> &'static [&'static str] {
    match l {
        Lang::Num | Lang::Size | Lang::Time => &["x", "@1", "?", "k5"],
        Lang::Unsigned => &["x", "@1", "-5", "+5"],
        Lang::Types => &["1", "Z", "@", "%"],
        Lang::Perm => &["x", "9", "@", "?"],
        // formats whose first directive is no directive
        Lang::Fmt | Lang::StrFmt => &["%q", "%", "%{bogus}", "%Q%p"],
        _ => &[],
    }
}

#[derive(Debug, Clone, PartialEq, Eq, Hash)]
pub struct Case {
    pub kind: String,
    pub input: String,
    /// keyword the message must name (None for unknown words)
    pub keyword: Option<String>,
    /// offending word the message must quote ("" when missing)
    pub word: String,
    pub first: bool,
}

fn backquoted(msg: &str) -> Vec<String> {
    let parts: Vec<&str> = msg.split('`').collect();
    parts.iter().enumerate().filter(|(i, _)| i % 2 == 1).map(|(_, s)| s.to_string()).collect()
}

pub fn judge(c: &Case) -> Verdict {
    // a quarter of the cases are preceded, on the same thread, by rejected inputs that fail only
    // after a well-formed prefix of the same keyword (the message must not depend on earlier calls)
    if stable_hash(&c.input) % 4 == 0 {
        let _ = catch(|| parse("-true -bogus").map(|_| ()).map_err(|e| e.to_string()));
        if let Some(k) = &c.keyword {
            let junk = ["5x", "10k%", "f5", "u+x,", "'a'b"][(stable_hash(&c.input) / 4 % 5) as usize];
            let _ = catch(|| parse(&format!("{k} {junk}")).map(|_| ()).map_err(|e| e.to_string()));
        }
    }
    // a third quarter is preceded by its own prefixes, cut at every blank (some end inside a quoted
    // string) and parsed in increasing length: what an earlier call saw of the same text must not matter
    if stable_hash(&c.input) % 4 == 2 {
        let cuts: Vec<usize> = c.input.char_indices().filter(|(_, ch)| *ch == ' ' || *ch == '\t' || *ch == '\n').map(|(i, _)| i).collect();
        for i in cuts {
            if i > 0 {
                let _ = catch(|| parse(&c.input[..i]).map(|_| ()).map_err(|e| e.to_string()));
            }
        }
    }
    // another quarter is preceded by accepted inputs, among them ones that earn a warning
    if stable_hash(&c.input) % 4 == 1 {
        let ok = ["-name core -threads 4", "-true -depth", "-name x -o ( -depth -threads 8 ) -print", "-threads 2 -name y", "-uid 1 -printf '%p\\n'"];
        let k = (stable_hash(&c.input) / 4 % 5) as usize;
        for t in [ok[k], ok[(k + 1) % 5]] {
            let _ = catch(|| parse(t).map(|_| ()).map_err(|e| e.to_string()));
        }
    }
    let r = match catch(|| parse(&c.input)) {
        Ok(r) => r,
        Err(p) => return Verdict::Fail(format!("parse panicked on {:?}: {p}", c.input)),
    };
    let e = match r {
        Ok((_, t)) => return Verdict::Fail(format!("{:?} ({}) must be rejected but parsed to {:?}", c.input, c.kind, crate::tree::from_ast(&t))),
        Err(e) => e,
    };
    let msg = match catch(|| e.to_string()) {
        Ok(m) => m,
        Err(p) => return Verdict::Fail(format!("rendering the error for {:?} panicked: {p}", c.input)),
    };
    if msg.trim().is_empty() {
        return Verdict::Fail(format!("{:?}: the error message is empty", c.input));
    }
    if let Some(k) = &c.keyword {
        if !msg.contains(k.as_str()) {
            return Verdict::Fail(format!("{:?} ({}): the message does not name the keyword {k}: {msg:?}", c.input, c.kind));
        }
    }
    let quoted = backquoted(&msg);
    if !quoted.iter().any(|q| *q == c.word) {
        return Verdict::Fail(format!("{:?} ({}): the message does not quote the offending word `{}`: {msg:?}", c.input, c.kind, c.word));
    }
    for q in &quoted {
        if !c.input.contains(q.as_str()) {
            return Verdict::Fail(format!("{:?}: the message quotes `{q}`, which does not occur in the input: {msg:?}", c.input));
        }
    }
    let class = match c.kind.as_str() {
        "missing" => "missing argument",
        "invalid" => "argument invalid from its first character",
        _ => "unknown word",
    };
    Verdict::Pass { nt: !c.first || c.kind == "missing", class }
}

fn case_json(c: &Case) -> Value {
    json!({"kind": c.kind, "input": c.input, "keyword": c.keyword, "word": c.word, "first": c.first})
}
pub fn replay(case: &Value) -> Result<Verdict, String> {
    Ok(judge(&Case {
        kind: case["kind"].as_str().unwrap_or("").into(),
        input: case["input"].as_str().ok_or("input")?.into(),
        keyword: case["keyword"].as_str().map(|s| s.to_string()),
        word: case["word"].as_str().unwrap_or("").into(),
        first: case["first"].as_bool().unwrap_or(false),
    }))
}

const PREFIXES: [&str; 12] = ["", "-true ", "-name x -o ", "-uid 1 -a ! ", "-true -name 'a b' -uid 1 ", "( -true ) -o ", "-name café ", "-name 日本語 -o -iname 'é😀' ", "-name\t'x\ny'\n", "-name it's ", "-fprint a\"b -o -name 'q' ", "-name a'b\"c "];
const SUFFIXES: [&str; 10] = ["", " -print", " -o -name y -print", " -a -uid 2", " ", "\n", " \t ", " -name 'a'", " -o -name \"b c\" -print", " -fprint 'it''s'"];

pub fn build(kw: &str, lang: Lang, missing: bool, second: bool, bad: usize, pre: usize, suf: usize, paren: bool) -> Option<Case> {
    let prefix = PREFIXES[pre % PREFIXES.len()];
    let (body, word, kind) = if missing {
        match (lang, second) {
            (Lang::Str2, true) => (format!("{kw} attr"), String::new(), "missing"),
            (Lang::StrFmt, true) => (format!("{kw} out.txt"), String::new(), "missing"),
            (_, true) => return None,
            _ => (kw.to_string(), String::new(), "missing"),
        }
    } else {
        let words = bad_words(lang);
        if words.is_empty() {
            return None;
        }
        let w = words[bad % words.len()];
        // the same word written between quotes (the argument word is then the quoted content), for
        // the languages that are not themselves 'word or quoted string'
        match (bad / words.len()) % 3 {
            1 if lang != Lang::Perm && bad % 2 == 0 => (format!("{kw}{} '{w} {w}'", if lang == Lang::StrFmt { " out.txt" } else { "" }), format!("{w} {w}"), "invalid"),
            // a quoted word with a line end inside (CR LF, LF): quoted exactly as written
            1 if lang != Lang::Perm => (format!("{kw}{} '{w}\r\n{w}\n'", if lang == Lang::StrFmt { " out.txt" } else { "" }), format!("{w}\r\n{w}\n"), "invalid"),
            2 if lang != Lang::Perm => (format!("{kw}{} \"{w}\"", if lang == Lang::StrFmt { " out.txt" } else { "" }), w.to_string(), "invalid"),
            _ => (format!("{kw}{} {w}", if lang == Lang::StrFmt { " out.txt" } else { "" }), w.to_string(), "invalid"),
        }
    };
    // a missing argument is only missing at the end of the input or before ')'
    let suffix = if missing { ["", "", " ", "\n"][suf % 4] } else { SUFFIXES[suf % SUFFIXES.len()] };
    let mut input = if paren { format!("{prefix}( {body}{suffix} )") } else { format!("{prefix}{body}{suffix}") };
    let mut first = pre % PREFIXES.len() == 0 && !paren;
    // decoys: the keyword glued to the offending word occurs elsewhere in the input, as a plain string argument
    if !missing && !word.contains(char::is_whitespace) && !word.contains('\'') {
        match (bad / 4 + pre + suf) % 5 {
            0 => {
                input = format!("-name {kw}{word} {input}");
                first = false;
            }
            1 if !paren => input = format!("{} -o -name '{kw}{word}'", input.trim_end()),
            2 if !paren => input = format!("{} -fprint out{kw}{word}.txt", input.trim_end()),
            _ => {}
        }
    }
    Some(Case { kind: kind.into(), input, keyword: Some(kw.to_string()), word, first })
}

pub fn run(ctx: &Ctx) -> Report {
    let mut total = Stats::new();
    let mut st = Stats::new();
    for (kw, lang) in ARG_KEYWORDS.iter().take(40) {
        for pre in 0..PREFIXES.len() {
            for paren in [false, true] {
                for second in [false, true] {
                    if let Some(c) = build(kw, *lang, true, second, 0, pre, 0, paren) {
                        let v = judge(&c);
                        st.record(&v, stable_hash(&c), true, || case_json(&c));
                    }
                }
                for bad in 0..12 {
                    for suf in 0..SUFFIXES.len() {
                        if let Some(c) = build(kw, *lang, false, false, bad, pre, suf, paren) {
                            let v = judge(&c);
                            st.record(&v, stable_hash(&c), true, || case_json(&c));
                        }
                    }
                }
            }
        }
    }
    total.merge(st);
    total.exhaustive_parts.push("40 argument-taking keywords x {missing argument (first and second), 4 words invalid from the first character} x 6 prefixes x 4 suffixes x {plain, parenthesised}".into());
    let cases = ctx.tier.pick(200_000u32, 2_000_000u32);
    let rnd = run_shards(16, |shard| {
        let mut st = Stats::new();
        poison_parses(10);
        // unknown words (no keyword as a prefix) at random positions
        let word = prop_oneof![
            4 => "-[b-np-z][a-z-]{0,12}",
            2 => "[a-z]{1,6}",
            1 => "-[A-Z][a-z]{1,5}",
            1 => "--[a-z]{1,5}",
            1 => "[0-9]{1,3}",
            1 => "=[a-z]{1,3}",
            // long words, non-ASCII words
            2 => (prop::sample::select(vec![15usize, 31, 32, 33, 63, 64, 65, 100, 127, 128, 129, 255, 256, 257, 600]), prop::sample::select(vec!["", "é", "日", "😀"]), 0usize..4).prop_map(|(n, mb, sh)| format!("-z{}{}{}", "q".repeat(n.saturating_sub(2 + sh)), mb, "r".repeat(sh + 3))),
            1 => "-[b-np-z][a-zéü日]{1,8}",
            // an operator word or an argument-less keyword followed by more characters is no keyword
            2 => (prop::sample::select(vec!["-a", "-and", "-o", "-or", "-true", "-false", "-print", "-print0", "-ls", "-quit", "-prune", "-depth", "-empty", "-nouser", "-readable"]), "[a-z0-9-]{1,6}").prop_map(|(k, s)| format!("{k}{s}")),
        ]
        .prop_filter("keyword prefix", |w| {
            // no keyword that takes an argument may be a prefix of the word (that is a primary with a
            // glued argument, reported as such); the word itself is no keyword
            const ARGLESS: [&str; 19] = ["-a", "-and", "-o", "-or", "-true", "-false", "-print", "-print0", "-print-file-fid", "-ls", "-quit", "-prune", "-depth", "-empty", "-nouser", "-nogroup", "-readable", "-writable", "-executable"];
            !crate::checks::c05::KEYWORDS.iter().any(|k| *w == *k || (w.starts_with(k) && !ARGLESS.contains(k))) && !w.starts_with("nope") && !w.contains(')')
        });
        let strat = (word, 0usize..PREFIXES.len(), 0usize..SUFFIXES.len(), any::<bool>()).prop_map(|(w, pre, suf, paren)| {
            let prefix = PREFIXES[pre];
            let suffix = SUFFIXES[suf];
            let input = if paren { format!("{prefix}( {w}{suffix} )") } else { format!("{prefix}{w}{suffix}") };
            Case { kind: "unknown".into(), input, keyword: None, word: w, first: pre == 0 && !paren }
        });
        run_prop(&mut st, ctx.seed, "C18-unknown", shard as u64, cases / 32, &strat, judge, case_json);
        let strat = (0usize..ARG_KEYWORDS.len(), any::<bool>(), any::<bool>(), 0usize..12, 0usize..PREFIXES.len(), 0usize..SUFFIXES.len(), any::<bool>())
            .prop_filter_map("no such case", |(k, missing, second, bad, pre, suf, paren)| build(ARG_KEYWORDS[k].0, ARG_KEYWORDS[k].1, missing, second, bad, pre, suf, paren));
        run_prop(&mut st, ctx.seed, "C18-arg", shard as u64, cases / 32, &strat, judge, case_json);
        st
    });
    total.merge(rnd);
    Report {
        stats: total,
        rule: "every argument-taking keyword (tests, actions, options) with its argument missing (end of input or before ')'; also the second argument of -xattr-match/-fprintf) or replaced by a word invalid from its first character for that argument language (x, @1, ?, k5 for numbers/sizes/times; 1, Z for types; x, 9 for modes; -5 for unsigned; %q, %, %{bogus} for formats), bare or between quotes (then also with a blank inside), followed by nothing or by further primaries some of which carry quoted strings of either kind, placed after 0..3 valid primaries and before 0..2 more, optionally inside parentheses; unknown words with no keyword prefix at random positions. Oracle on the Display text of the error: non-empty; contains the keyword; quotes the offending word in backquotes (an empty pair when missing); for unknown words quotes the word; every backquoted segment occurs in the input. A quarter of the cases are preceded on the same thread by rejected inputs of the same keyword, another quarter by accepted inputs including ones that earn a misplaced-option warning, a third quarter by every prefix of the input itself that ends at a blank (some end inside a quoted string): the message must not depend on earlier calls. In two cases out of five the keyword glued to the offending word also occurs elsewhere in the input as a plain string argument (decoy). Non-trivial: the failing primary is not first, or the argument is missing. Distinct: by input.".into(),
        assumptions: vec!["string-valued arguments accept any word, so only 'missing' applies to them; a format is invalid from its first character when its first directive is none (%q, a lone %, %{bogus})".into()],
        exhaustive: false,
    }
}
