//! C19 — tree query helpers agree with the tree.

use crate::gen;
use crate::term;
use crate::tree::*;
use crate::util::*;
use lipe_find_parser::ast;
use proptest::prelude::*;
use serde_json::{json, Value};

/// explicit-stack flattening to (leaf, depth, under_not_or_prec_or_right_of_list)
fn flatten(e: &E) -> Vec<(&E, usize, bool)> {
    let mut out = vec![];
    let mut stack = vec![(e, 1usize, false)];
    while let Some((x, d, special)) = stack.pop() {
        match x {
            E::Not(a) | E::Prec(a) => stack.push((a, d + 1, true)),
            E::And(a, b) | E::Or(a, b) => {
                stack.push((b, d + 1, special));
                stack.push((a, d + 1, special));
            }
            E::List(a, b) => {
                stack.push((b, d + 1, true));
                stack.push((a, d + 1, special));
            }
            leaf => out.push((leaf, d, special)),
        }
    }
    out
}

fn leaf_needs_frames(l: &E) -> bool {
    match l {
        E::A(Act::Print0) | E::A(Act::FPrint(_)) | E::A(Act::FPrint0(_)) | E::A(Act::FPrintf(..)) | E::A(Act::Fls(_)) => true,
        E::A(Act::Printf(f)) => !f.is_empty() && !matches!(f.last(), Some(FEl::E(Esc::Newline))),
        _ => false,
    }
}

pub fn judge_tree(e: &E) -> Verdict {
    let x = to_ast(e);
    let flat = flatten(e);
    let want_action = flat.iter().any(|(l, _, _)| matches!(l, E::A(_)));
    let want_frames = flat.iter().any(|(l, _, _)| leaf_needs_frames(l));
    let got_action = match catch(|| x.action()) {
        Ok(v) => v,
        Err(p) => return Verdict::Fail(format!("action() panicked on {e:?}: {p}")),
    };
    let got_frames = match catch(|| x.complex_frames()) {
        Ok(v) => v,
        Err(p) => return Verdict::Fail(format!("complex_frames() panicked on {e:?}: {p}")),
    };
    if got_action != want_action {
        return Verdict::Fail(format!("action() = {got_action} but the tree {} an action node: {e:?}", if want_action { "contains" } else { "does not contain" }));
    }
    if got_frames != want_frames {
        return Verdict::Fail(format!("complex_frames() = {got_frames} but by the rule (file output, NUL terminator, or non-empty format not ending in the newline escape) it must be {want_frames}: {e:?}"));
    }
    // the deciding leaf sits deep or in a special position
    let nt = flat.iter().any(|(l, d, sp)| (matches!(l, E::A(_)) && (*d >= 4 || *sp)));
    Verdict::Pass { nt, class: match (want_action, want_frames) {
        (false, _) => "no action",
        (true, false) => "action, plain",
        (true, true) => "action, framed",
    } }
}

pub fn judge_units(count: u64) -> Verdict {
    for u in SUnit::ALL {
        let s = size_to(count, u);
        let m = s.mult();
        if m != u.bytes() {
            return Verdict::Fail(format!("mult() of {s:?} is {m}, expected {}", u.bytes()));
        }
        if let Some(p) = (count as u128).checked_mul(u.bytes() as u128).filter(|p| *p <= u64::MAX as u128) {
            match catch(|| s.byte_size()) {
                Ok(b) if b as u128 == p => {}
                Ok(b) => return Verdict::Fail(format!("byte_size() of {s:?} is {b}, expected {p}")),
                Err(e) => return Verdict::Fail(format!("byte_size() of {s:?} panicked although {p} fits: {e}")),
            }
        }
    }
    for u in TUnit::ALL {
        let t = time_to(count, u);
        if t.secs() != u.secs() {
            return Verdict::Fail(format!("secs() of {t:?} is {}, expected {}", t.secs(), u.secs()));
        }
    }
    let near = SUnit::ALL.iter().any(|u| {
        let b = (1u128 << 64) / u.bytes() as u128;
        (count as u128) + 2 >= b && (count as u128) <= b + 2
    });
    Verdict::Pass { nt: near || count == 0 || count == u64::MAX, class: "unit helpers" }
}

fn case_json(e: &E) -> Value {
    json!({"kind": "tree", "tree": term::encode_expr(e)})
}
pub fn replay(case: &Value) -> Result<Verdict, String> {
    match case["kind"].as_str() {
        Some("units") => Ok(judge_units(case["count"].as_u64().ok_or("count")?)),
        _ => Ok(judge_tree(&term::decode_expr(case["tree"].as_str().ok_or("no tree")?)?)),
    }
}

pub fn any_leaf() -> BoxedStrategy<E> {
    prop_oneof![
        8 => crate::checks::c12::full_leaf(),
        6 => gen::supported_test().prop_map(E::T),
        1 => Just(E::A(Act::DefaultPrint)),
        1 => Just(E::A(Act::Printf(vec![]))),
        1 => Just(E::A(Act::Printf(vec![FEl::E(Esc::Newline)]))),
        1 => Just(E::A(Act::Printf(vec![FEl::E(Esc::Newline), FEl::Lit("x".into())]))),
        1 => crate::checks::c13::option().prop_map(E::G),
        1 => Just(E::Pos),
    ]
    .boxed()
}

pub fn any_tree(depth: u32, size: u32) -> BoxedStrategy<E> {
    any_leaf()
        .prop_recursive(depth, size, 2, |inner| {
            prop_oneof![
                2 => inner.clone().prop_map(E::not),
                2 => inner.clone().prop_map(E::prec),
                3 => (inner.clone(), inner.clone()).prop_map(|(a, b)| E::and(a, b)),
                3 => (inner.clone(), inner.clone()).prop_map(|(a, b)| E::or(a, b)),
                3 => (inner.clone(), inner.clone()).prop_map(|(a, b)| E::list(a, b)),
            ]
        })
        .boxed()
}

pub fn run(ctx: &Ctx) -> Report {
    let mut total = Stats::new();
    let mut st = Stats::new();
    let mut counts: Vec<u64> = vec![0, 1, 2, 1000, u64::MAX, u64::MAX - 1, 1 << 63];
    for u in SUnit::ALL {
        let b = ((1u128 << 64) / u.bytes() as u128) as i128;
        for d in -2i128..=2 {
            let v = b + d;
            if v >= 0 && v <= u64::MAX as i128 {
                counts.push(v as u64);
            }
        }
    }
    for c in counts {
        let v = judge_units(c);
        st.record(&v, stable_hash(&c), true, || json!({"kind": "units", "count": c}));
    }
    total.merge(st);
    let cases = ctx.tier.pick(800_000u32, 8_000_000u32);
    let rnd = run_shards(16, |shard| {
        let mut st = Stats::new();
        run_prop(&mut st, ctx.seed, "C19", shard as u64, cases / 16, &any_tree(12, 48), judge_tree, case_json);
        run_prop(&mut st, ctx.seed, "C19-units", shard as u64, cases / 64, &any::<u64>(), |c| judge_units(*c), |c| json!({"kind": "units", "count": c}));
        // deep chains: the only action at the bottom of a 12-deep spine
        let deep = (gen::supported_action(), prop_oneof![4 => proptest::collection::vec(0u8..6, 8..12), 1 => proptest::collection::vec(0u8..6, 40..200)], gen::supported_test()).prop_map(|(a, spine, t)| {
            let mut e = E::A(a);
            for s in spine {
                e = match s {
                    0 => E::not(e),
                    1 => E::prec(e),
                    2 => E::and(E::T(t.clone()), e),
                    3 => E::or(e, E::T(t.clone())),
                    4 => E::list(E::T(t.clone()), e),
                    _ => E::list(e, E::T(t.clone())),
                };
            }
            e
        });
        run_prop(&mut st, ctx.seed, "C19-deep", shard as u64, cases / 64, &deep, judge_tree, case_json);
        st
    });
    total.merge(rnd);
    Report {
        stats: total,
        rule: "random trees built directly from the public constructors (depth <= 12, up to 48 nodes) including explicit precedence nodes, nested ',' lists, option and positional nodes, every action incl. the deprecated default print, empty and non-empty format lists; 8-12 deep (and some 40-200 deep) spines with a single action at the bottom; sizes/times with counts around 2^64/unit. Oracle: independent explicit-stack flattening to the leaf list: action() iff some leaf is an action; complex_frames() iff some leaf is -print0/-fprint/-fprint0/-fprintf/-fls or a -printf whose format is non-empty and does not end in the newline escape; mult()/secs() equal 1/2/512/2^10/2^20/2^30/2^40 and 1/60/3600/86400; byte_size() == count*unit whenever that fits u64 (computed in u128; not called otherwise). Non-trivial: an action leaf at depth >= 4 or under Not/Precedence/right of a List. Distinct: by tree / count.".into(),
        assumptions: vec!["PrintFormatted([]) is not framed: 'whose last element is not a newline' is false without a last element".into()],
        exhaustive: false,
    }
}
