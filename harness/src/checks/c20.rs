//! C20 — compile once, render for any device: only the device path varies (stateful history).

use crate::gen;
use crate::sx::{self, Sx};
use crate::term;
use crate::tree::*;
use crate::util::*;
use lipe_find_parser::{compile, RunOptions};
use proptest::prelude::*;
use serde_json::{json, Value};
use std::collections::HashMap;

#[derive(Debug, Clone, Hash, PartialEq, Eq)]
pub enum Op {
    Scheme(String),
    IoMap,
}

fn hostile(p: &str) -> bool {
    p.chars().any(|c| matches!(c, '"' | '\\' | '(' | ')' | ';' | '#' | '~' | '\n') || !c.is_ascii()) || p.len() > 1000 || p.is_empty()
}

/// all leaf positions where two S-expressions differ: (path, a, b); a structural
/// difference (different list lengths / kinds) is reported at the list itself.
fn diff(a: &Sx, b: &Sx, path: &mut Vec<usize>, out: &mut Vec<(Vec<usize>, Sx, Sx)>) {
    match (a, b) {
        (Sx::List(x), Sx::List(y)) if x.len() == y.len() => {
            for (i, (p, q)) in x.iter().zip(y.iter()).enumerate() {
                path.push(i);
                diff(p, q, path, out);
                path.pop();
            }
        }
        _ => {
            if a != b {
                out.push((path.clone(), a.clone(), b.clone()));
            }
        }
    }
}

fn at<'a>(forms: &'a [Sx], path: &[usize]) -> Option<&'a Sx> {
    let mut cur = forms.get(*path.first()?)?;
    for i in &path[1..] {
        cur = cur.list()?.get(*i)?;
    }
    Some(cur)
}

pub fn judge(tree: &E, threads: Option<u32>, ops: &[Op]) -> Verdict {
    let x = to_ast(tree);
    let mut opts = RunOptions::default();
    opts.threads = threads;
    let compiled = match catch(|| compile(&x, &opts)) {
        Err(p) => return Verdict::Fail(format!("compile panicked: {p}")),
        Ok(Err(_)) => return Verdict::Skip("does not compile (C12 decides that)"),
        Ok(Ok(c)) => c,
    };
    // a second compiled expression stays alive during the whole history and is used in between
    // (as are parse and compile): two compiled values never talk to each other
    let other_tree = E::and(E::or(E::T(Tst::IName("other*".into())), E::T(Tst::Time(Which::C, Cmp::Lt, 3, TUnit::H))), E::and(E::A(Act::FPrint0("other.out".into())), E::A(Act::Printf(vec![FEl::Lit("other ".into()), FEl::F(Fld::Name)]))));
    let other = catch(|| compile(&to_ast(&other_tree), &RunOptions::default())).ok().and_then(|r| r.ok());
    let other_first = other.as_ref().and_then(|o| catch(|| (o.scheme("/dev/other"), o.io_map().map(|m| m.len()))).ok());
    let mix = stable_hash(&(tree, threads, ops.len()));
    let mut first_map: Option<Option<Vec<(u32, String)>>> = None;
    let mut renders: HashMap<String, String> = HashMap::new();
    let mut order: Vec<String> = vec![];
    macro_rules! canon_map {
        () => {
            compiled.io_map().map(|m| {
                let mut v: Vec<(u32, String)> = m.iter().map(|(k, t)| (*k, format!("{t:?}"))).collect();
                v.sort();
                v
            })
        };
    }
    for (step, op) in ops.iter().enumerate() {
        if (mix >> (step % 60)) & 1 == 1 {
            if let Some(o) = &other {
                let _ = catch(|| (o.scheme(&format!("/dev/other{step}\"")), o.io_map()));
            }
            let _ = catch(|| lipe_find_parser::parse("-name x -fprint y -print").map(|(o, t)| compile(&t, &o).map(|c| c.scheme("/dev/third"))));
            let _ = catch(|| lipe_find_parser::parse("( -bogus").map(|_| ()).map_err(|e| e.to_string()));
        }
        match op {
            Op::IoMap => {
                let m = match catch(|| canon_map!()) {
                    Ok(m) => m,
                    Err(p) => return Verdict::Fail(format!("io_map() panicked at step {step}: {p}")),
                };
                match &first_map {
                    None => first_map = Some(m),
                    Some(f) => {
                        if *f != m {
                            return Verdict::Fail(format!("io_map() changed between calls (step {step}): first {f:?}, now {m:?}"));
                        }
                    }
                }
            }
            Op::Scheme(p) => {
                let text = match catch(|| compiled.scheme(p)) {
                    Ok(t) => t,
                    Err(e) => return Verdict::Fail(format!("scheme({p:?}) panicked at step {step}: {e}")),
                };
                match renders.get(p) {
                    Some(prev) => {
                        if *prev != text {
                            return Verdict::Fail(format!("rendering twice for the same path {:?} gave different programs (step {step})\nfirst:\n{prev}\nnow:\n{text}", truncate(p, 80)));
                        }
                    }
                    None => {
                        renders.insert(p.clone(), text);
                        order.push(p.clone());
                    }
                }
            }
        }
    }
    // after the history: every earlier rendering is reproducible, the table is unchanged
    for p in &order {
        match catch(|| compiled.scheme(p)) {
            Ok(t) if t == renders[p] => {}
            Ok(_) => return Verdict::Fail(format!("re-rendering for {:?} after the history gives a different program", truncate(p, 80))),
            Err(e) => return Verdict::Fail(format!("scheme() panicked: {e}")),
        }
    }
    if let Some(f) = &first_map {
        if *f != canon_map!() {
            return Verdict::Fail("io_map() changed after rendering".into());
        }
    }
    if let (Some(o), Some(first)) = (&other, &other_first) {
        match catch(|| (o.scheme("/dev/other"), o.io_map().map(|m| m.len()))) {
            Ok(now) if now == *first => {}
            Ok(_) => return Verdict::Fail(format!("a second compiled expression, alive during the history of {tree:?}, renders differently after it than before it")),
            Err(p) => return Verdict::Fail(format!("rendering the second compiled expression panicked: {p}")),
        }
    }
    // pairwise: programs differ in exactly the device string of the scan call
    let mut parsed: Vec<(String, Vec<Sx>)> = vec![];
    for p in &order {
        match sx::read_all(&renders[p]) {
            Ok(f) => parsed.push((p.clone(), f)),
            Err(e) => return Verdict::Fail(format!("program rendered for device {:?} does not read: {e}\nprogram:\n{}", truncate(p, 80), truncate(&renders[p], 3000))),
        }
    }
    for (p, forms) in &parsed {
        // the scan call names the device
        let mut found = 0;
        for f in forms {
            f.walk(&mut |n| {
                if n.head() == Some("lipe-scan") {
                    if let Some(Sx::Str(d)) = n.list().and_then(|l| l.get(1)) {
                        if d == p {
                            found += 1;
                        }
                    }
                }
            });
        }
        if found != 1 {
            return Verdict::Fail(format!("program rendered for device {:?}: the scan call does not name exactly that device\nprogram:\n{}", truncate(p, 80), truncate(&renders[p], 3000)));
        }
    }
    for i in 0..parsed.len() {
        for j in i + 1..parsed.len() {
            let (p, a) = &parsed[i];
            let (q, b) = &parsed[j];
            if a.len() != b.len() {
                return Verdict::Fail(format!("renderings for {:?} and {:?} have a different number of top-level forms", truncate(p, 80), truncate(q, 80)));
            }
            let mut out = vec![];
            for (k, (x, y)) in a.iter().zip(b.iter()).enumerate() {
                let mut path = vec![k];
                diff(x, y, &mut path, &mut out);
            }
            if out.len() != 1 {
                return Verdict::Fail(format!("renderings for {:?} and {:?} differ in {} places instead of one: {:?}", truncate(p, 80), truncate(q, 80), out.len(), out.iter().take(4).map(|(pa, x, y)| (pa.clone(), truncate(&format!("{x:?}"), 60), truncate(&format!("{y:?}"), 60))).collect::<Vec<_>>()));
            }
            let (path, x, y) = &out[0];
            let parent = at(a, &path[..path.len() - 1]);
            let ok_place = parent.map(|l| l.head() == Some("lipe-scan")).unwrap_or(false) && *path.last().unwrap() == 1;
            if !ok_place || *x != Sx::Str(p.clone()) || *y != Sx::Str(q.clone()) {
                return Verdict::Fail(format!("renderings for {:?} and {:?} differ at {:?} ({:?} vs {:?}), not in the device string of the scan call", truncate(p, 80), truncate(q, 80), path, truncate(&format!("{x:?}"), 80), truncate(&format!("{y:?}"), 80)));
            }
        }
    }
    let nt = order.len() >= 2 && order.iter().any(|p| hostile(p));
    Verdict::Pass { nt, class: if order.iter().any(|p| hostile(p)) { "history with a hostile path" } else { "history with benign paths" } }
}

fn case_json(tree: &E, threads: Option<u32>, ops: &[Op]) -> Value {
    json!({"kind": "history", "tree": term::encode_expr(tree), "threads": threads,
        "ops": ops.iter().map(|o| match o { Op::IoMap => json!({"op": "io_map"}), Op::Scheme(p) => json!({"op": "scheme", "path": p}) }).collect::<Vec<_>>()})
}

fn sample_json(tree: &E, threads: Option<u32>, ops: &[Op]) -> Value {
    json!({"tree": term::encode_expr(tree), "threads": threads,
        "ops": ops.iter().map(|o| match o { Op::IoMap => "io_map()".to_string(), Op::Scheme(p) => format!("scheme({:?})", truncate(p, 40)) }).collect::<Vec<_>>()})
}

pub fn replay(case: &Value) -> Result<Verdict, String> {
    let tree = term::decode_expr(case["tree"].as_str().ok_or("no tree")?)?;
    let ops = case["ops"]
        .as_array()
        .ok_or("no ops")?
        .iter()
        .map(|o| match o["op"].as_str() {
            Some("io_map") => Ok(Op::IoMap),
            Some("scheme") => Ok(Op::Scheme(o["path"].as_str().ok_or("no path")?.to_string())),
            _ => Err("bad op".to_string()),
        })
        .collect::<Result<Vec<_>, _>>()?;
    Ok(judge(&tree, case["threads"].as_u64().map(|t| t as u32), &ops))
}

pub fn device_path() -> BoxedStrategy<String> {
    prop_oneof![
        3 => prop::sample::select(vec!["/", "/dev/mdt0", "/dev/mapper/mdt-1", "lustre-MDT0000", "/mnt/a b", "/mnt/mdt0/", "a//", "./x", " /dev/x ", "/dev/mdt0\n"]).prop_map(|s| s.to_string()),
        3 => prop::sample::select(vec!["a\"b", "\\", "a\\", "\"", "\")(evil)(\"", "x;y", "#|", "~a", "é/日", "", " ", "\n", "a\\\"b", "\\\\", "(lipe-scan \"x\")"]).prop_map(|s| s.to_string()),
        2 => proptest::collection::vec(prop::sample::select(crate::checks::c04::ALPHABET.to_vec()), 0..12).prop_map(|v| v.into_iter().collect::<String>()),
        1 => "[ -~]{0,20}",
        2 => prop::sample::select(crate::dict::tokens()),
        1 => proptest::collection::vec(prop::sample::select("\"\\".chars().flat_map(|c| lookalikes(c)).chain("/mnt\"".chars()).collect::<Vec<char>>()), 1..10).prop_map(|v| v.into_iter().collect::<String>()),
        1 => (prop::sample::select(vec!["/dev/", "\"", "\\", "é"]), 2000usize..10_000).prop_map(|(u, n)| u.repeat(n / u.len())),
    ]
    .boxed()
}

pub fn run(ctx: &Ctx) -> Report {
    let cases = ctx.tier.pick(64_000u32, 640_000u32);
    let shards = 16;
    let mut total = run_shards(shards, |shard| {
        let mut st = Stats::new();
        let op = prop_oneof![4 => device_path().prop_map(Op::Scheme), 1 => Just(Op::IoMap)];
        let tok = || prop::sample::select(crate::dict::tokens());
        let leaf = prop_oneof![
            8 => gen::supported_leaf(),
            1 => tok().prop_map(|t| E::T(Tst::Name(t))),
            1 => tok().prop_map(|t| E::T(Tst::Pool(t))),
            1 => tok().prop_map(|t| E::T(Tst::XattrMatch("user.tag".into(), t))),
            1 => tok().prop_filter("format literal", |t| !t.contains('%') && !t.contains('\\')).prop_map(|t| E::A(Act::Printf(vec![FEl::Lit(t), FEl::E(Esc::Newline)]))),
        ];
        let strat = (gen::related(gen::expr_over(leaf.boxed(), 4, 12, true), true), prop_oneof![3 => Just(None), 1 => gen::count_u32().prop_map(Some)], prop_oneof![6 => proptest::collection::vec(op.clone(), 2..6), 1 => proptest::collection::vec(op, 8..40)]).prop_map(|(t, th, mut ops)| {
            // paths derived from an earlier path of the same history (its escaped, unescaped, trimmed,
            // slash-stripped or doubled form): a cache keyed on the wrong form would confuse them
            let first = ops.iter().find_map(|o| if let Op::Scheme(p) = o { Some(p.clone()) } else { None });
            if let Some(p) = first {
                let derived = match (p.len() + ops.len()) % 7 {
                    0 => Some(p.replace('\\', "\\\\").replace('"', "\\\"")),
                    1 => Some(p.replace("\\\"", "\"").replace("\\\\", "\\")),
                    2 => Some(p.trim().to_string()),
                    3 => Some(p.trim_end_matches('/').to_string()),
                    4 => Some(format!("{p}{p}")),
                    5 => Some(p.to_lowercase()),
                    _ => None,
                };
                if let Some(d) = derived {
                    let at = ops.len() / 2 + 1;
                    ops.insert(at.min(ops.len()), Op::Scheme(d));
                }
            }
            // one string in two roles: a string of the expression (pattern, file name, literal text)
            // is also a device path, rendered first, last or right after its own prefix/extension
            let us = t.user_strings();
            if !us.is_empty() && stable_hash(&(&t, ops.len())) % 5 == 0 {
                let s0 = us[(stable_hash(&ops) % us.len() as u64) as usize].clone();
                match stable_hash(&(&s0, &ops)) % 4 {
                    0 => ops.insert(0, Op::Scheme(s0)),
                    1 => ops.push(Op::Scheme(s0)),
                    2 => {
                        ops.insert(0, Op::Scheme(format!("{s0}/")));
                        ops.insert(1, Op::Scheme(s0));
                    }
                    _ => {
                        ops.insert(0, Op::Scheme(s0.clone()));
                        ops.insert(1, Op::Scheme(format!("/{s0}")));
                    }
                }
            }
            // spellings of one path that a path library would identify, rendered back to back
            if let Some(Op::Scheme(p)) = ops.first().cloned() {
                if !p.is_empty() && stable_hash(&(&p, ops.len(), 7u8)) % 6 == 0 {
                    let v = match stable_hash(&(&p, 9u8)) % 6 {
                        0 => format!("{p}/"),
                        1 => p.replacen('/', "//", 1),
                        2 => p.replacen('/', "/./", 1),
                        3 => format!("{p}/."),
                        4 => format!("./{p}"),
                        _ => p.trim_end_matches('/').to_string(),
                    };
                    ops.insert(1, Op::Scheme(v));
                }
                // ... and the spelling one level of string escaping away, in either direction
                if p.contains(['"', '\\']) && stable_hash(&(&p, ops.len(), 8u8)) % 3 == 0 {
                    let v = match stable_hash(&(&p, 10u8)) % 3 {
                        0 => p.replace('\\', "\\\\").replace('"', "\\\""),
                        1 => p.replace("\\\"", "\"").replace("\\\\", "\\"),
                        _ => p.replace('\\', ""),
                    };
                    ops.insert(1, Op::Scheme(v));
                }
            }
            // make repeats likely: sometimes render the first path again at the end
            if let Some(Op::Scheme(p)) = ops.first().cloned() {
                if ops.len() % 2 == 0 {
                    ops.push(Op::Scheme(p));
                }
            }
            (t, th, ops)
        });
        run_prop(&mut st, ctx.seed, "C20", shard as u64, cases / shards as u32, &strat, |(t, th, ops)| judge(t, *th, ops), |(t, th, ops)| case_json(t, *th, ops));
        st
    });
    // renderings of one compiled expression in different wall-clock seconds (expressions with time
    // tests): same path -> same program
    let clock = run_shards(16, |shard| {
        let mut st = Stats::new();
        let trees = sample_values(ctx.seed, "C20-clock", shard as u64, ctx.tier.pick(1usize, 6usize), &(gen::which(), gen::cmp(), 0u64..100, gen::tunit(), gen::supported_leaf()));
        for (w, c, n, u, leaf) in trees {
            let t = E::and(E::T(Tst::Time(w, c, n, u)), leaf);
            let x = to_ast(&t);
            let v = match catch(|| compile(&x, &RunOptions::default())) {
                Ok(Ok(comp)) => {
                    let a = comp.scheme("/dev/mdt0");
                    let now = now_secs();
                    while now_secs() == now {
                        std::thread::sleep(std::time::Duration::from_millis(25));
                    }
                    let b = comp.scheme("/dev/mdt0");
                    if a == b {
                        Verdict::Pass { nt: true, class: "rendered again in the next second" }
                    } else {
                        Verdict::Fail(format!("{t:?}: rendering the same compiled expression for the same path one second later gives a different program\nfirst:\n{a}\nsecond:\n{b}"))
                    }
                }
                _ => Verdict::Skip("does not compile"),
            };
            st.record(&v, stable_hash(&t), false, || json!({"kind": "clock", "tree": term::encode_expr(&t)}));
        }
        st
    });
    total.merge(clock);
    // many distinct devices, then earlier ones again (a bounded memory of recent renderings must
    // forget, never confuse): N paths in a row, then the oldest, a middle one, the one before the
    // newest, and all of them backwards
    let mut stm = Stats::new();
    for n in [2usize, 3, 4, 5, 7, 8, 9, 10, 15, 16, 17, 31, 32, 33, 64, 65, 100, 257] {
        for (k, t) in [E::and(E::T(Tst::Name("*.dat".into())), E::A(Act::Print)), E::and(E::T(Tst::IName("x".into())), E::A(Act::FPrint0("list.out".into())))].iter().enumerate() {
            let path = |i: usize| if k == 0 { format!("lustre-MDT{i:04x}") } else { format!("/dev/mapper/\"mdt\\{i}") };
            let mut ops: Vec<Op> = (0..n).map(|i| Op::Scheme(path(i))).collect();
            ops.push(Op::IoMap);
            for i in [0, n / 2, n.saturating_sub(2), 1.min(n - 1), n - 1] {
                ops.push(Op::Scheme(path(i)));
            }
            if n <= 33 {
                for i in (0..n).rev() {
                    ops.push(Op::Scheme(path(i)));
                }
            }
            let v = judge(t, None, &ops);
            stm.record(&v, stable_hash(&(t, &ops)), true, || json!({"kind": "many-devices", "devices": n, "tree": term::encode_expr(t)}));
            if let Verdict::Fail(_) = v {
                stm.failures.last_mut().map(|f| f.case = case_json(t, None, &ops));
            }
        }
    }
    stm.samples.clear();
    total.merge(stm);
    // long device paths of equal length that differ in one character only, at every position in
    // turn (a fingerprint that samples the bytes of a long string), rendered back to back
    let mut stl = Stats::new();
    for base in ["/dev/disk/by-id/scsi-36001405e2a7f-part10", "/dev/mapper/lustre-vg0-mdt0000-a-rather-long-logical-volume-name-for-the-metadata-target-0001", &"/dev/lustre/".repeat(30)] {
        let cs: Vec<char> = base.chars().collect();
        let t = E::and(E::T(Tst::Name("*.dat".into())), E::A(Act::Print));
        for i in 0..cs.len() {
            let mut v = cs.clone();
            v[i] = if v[i] == 'x' { 'y' } else { 'x' };
            let variant: String = v.into_iter().collect();
            let ops = vec![Op::Scheme(base.to_string()), Op::Scheme(variant.clone()), Op::Scheme(base.to_string()), Op::Scheme(variant)];
            let vd = judge(&t, None, &ops);
            stl.record(&vd, stable_hash(&(base, i)), true, || case_json(&t, None, &ops));
        }
    }
    stl.samples.clear();
    total.merge(stl);
    // device paths that a truncated fingerprint cannot tell apart, rendered one after the other
    let mut tw = Stats::new();
    let twins = fingerprint_twins("/dev/mapper/lustre-mdt", "");
    let trees = [E::and(E::T(Tst::Name("*.dat".into())), E::A(Act::Print)), E::and(E::T(Tst::Time(Which::M, Cmp::Gt, 30, TUnit::M)), E::A(Act::FPrint("list.out".into())))];
    for (a, b) in &twins {
        for t in &trees {
            for ops in [vec![Op::Scheme(a.clone()), Op::Scheme(b.clone()), Op::Scheme(a.clone())], vec![Op::Scheme(b.clone()), Op::IoMap, Op::Scheme(a.clone())]] {
                let v = judge(t, None, &ops);
                tw.record(&v, stable_hash(&(t, &ops)), true, || case_json(t, None, &ops));
            }
        }
    }
    tw.samples.clear();
    total.merge(tw);
    // samples: shorten long paths
    total.samples = total
        .samples
        .iter()
        .filter_map(|s| {
            let tree = term::decode_expr(s["tree"].as_str()?).ok()?;
            let ops: Vec<Op> = s["ops"].as_array()?.iter().map(|o| if o["op"] == "io_map" { Op::IoMap } else { Op::Scheme(o["path"].as_str().unwrap_or("").to_string()) }).collect();
            Some(sample_json(&tree, s["threads"].as_u64().map(|t| t as u32), &ops))
        })
        .collect();
    Report {
        stats: total,
        rule: "random compiled expressions (supported vocabulary, <=12 nodes) x histories of 2..6 (some of 8..40) operations from {scheme(p), io_map()} with p from benign paths and hostile strings (quotes, backslashes, parentheses, comment characters, blanks, non-ASCII, empty, 2-10 kB), modelled as vec(op) + interpreter. Oracle: scheme(p) twice -> identical text (also re-rendered after the whole history); for p != q the two programs, read by the independent reader, differ in exactly one leaf, the first argument of the lipe-scan call, decoding to p resp. q; io_map() is equal at every call; a second compiled expression is alive during the whole history and is rendered, and parse/compile are called, between the operations of about half of the steps (neither value may be affected by the other). Also: 2..257 distinct devices in a row followed by renderings for the oldest, a middle one, the last but one and all of them backwards; a string of the expression used as device path; spellings of one path that a path library identifies, back to back; pairs of equal-length paths whose std-hasher values agree in the low 32 bits (found by a birthday search at run time, six ways of feeding the hasher) and pairs that weak fingerprints confuse, rendered one right after the other. Non-trivial: history with >=2 distinct paths of which one is hostile. Distinct: by (tree, history).".into(),
        assumptions: vec!["the harness's reader implements Guile's string syntax".into()],
        exhaustive: false,
    }
}
