use crate::util::{Ctx, Report, Tier, Verdict};
use serde_json::Value;

pub mod c01;
pub mod c02;
pub mod c03;
pub mod c04;
pub mod c05;
pub mod c06;
pub mod c07;
pub mod c08;
pub mod c09;
pub mod c10;
pub mod c11;
pub mod c12;
pub mod c13;
pub mod c14;
pub mod c15;
pub mod c16;
pub mod c17;
pub mod c18;
pub mod c19;
pub mod c20;

/// properties that quantify over build configurations
pub fn two_profiles(id: &str) -> bool {
    matches!(id, "C03" | "C07")
}

pub fn run(ctx: &Ctx) -> Option<Report> {
    Some(match ctx.id.as_str() {
        "C01" => c01::run(ctx),
        "C02" => c02::run(ctx),
        "C03" => c03::run(ctx),
        "C04" => c04::run(ctx),
        "C05" => c05::run(ctx),
        "C06" => c06::run(ctx),
        "C07" => c07::run(ctx),
        "C08" => c08::run(ctx),
        "C09" => c09::run(ctx),
        "C10" => c10::run(ctx),
        "C11" => c11::run(ctx),
        "C12" => c12::run(ctx),
        "C13" => c13::run(ctx),
        "C14" => c14::run(ctx),
        "C15" => c15::run(ctx),
        "C16" => c16::run(ctx),
        "C17" => c17::run(ctx),
        "C18" => c18::run(ctx),
        "C19" => c19::run(ctx),
        "C20" => c20::run(ctx),
        _ => return None,
    })
}

/// Strict re-execution of one saved case, bypassing proptest.
pub fn replay(id: &str, file: &str) -> i32 {
    let text = match std::fs::read_to_string(file) {
        Ok(t) => t,
        Err(e) => {
            eprintln!("cannot read {file}: {e}");
            return 2;
        }
    };
    let v: Value = match serde_json::from_str(&text) {
        Ok(v) => v,
        Err(e) => {
            eprintln!("bad replay file: {e}");
            return 2;
        }
    };
    let case = &v["case"];
    let verdict = match id {
        "C01" => c01::replay(case),
        "C02" => c02::replay(case),
        "C03" => c03::replay(case),
        "C04" => c04::replay(case),
        "C05" => c05::replay(case),
        "C06" => c06::replay(case),
        "C07" => c07::replay(case),
        "C08" => c08::replay(case),
        "C09" => c09::replay(case),
        "C10" => c10::replay(case),
        "C11" => c11::replay(case),
        "C12" => c12::replay(case),
        "C13" => c13::replay(case),
        "C14" => c14::replay(case),
        "C15" => c15::replay(case),
        "C16" => c16::replay(case),
        "C17" => c17::replay(case),
        "C18" => c18::replay(case),
        "C19" => c19::replay(case),
        "C20" => c20::replay(case),
        _ => {
            eprintln!("unknown property {id}");
            return 2;
        }
    };
    match verdict {
        Ok(Verdict::Fail(m)) => {
            println!("VIOLATION property={id} replay={file}");
            println!("  message: {m}");
            1
        }
        Ok(Verdict::Known(fid, what)) => {
            println!("KNOWN-FINDING: property={id} id={fid} {what}");
            0
        }
        Ok(other) => {
            println!("replay property={id}: no violation ({other:?})");
            0
        }
        Err(e) => {
            eprintln!("cannot decode case: {e}");
            2
        }
    }
}

pub fn dump(corpus: &str, seed: u64, tier: Tier, input: Option<&str>, out: &str) -> i32 {
    match corpus {
        "c15" => {
            let Some(input) = input else { return 2 };
            let texts: Vec<String> = match std::fs::read_to_string(input).ok().and_then(|t| serde_json::from_str(&t).ok()) {
                Some(t) => t,
                None => return 2,
            };
            c15::dump(&texts, out)
        }
        "c17" => c17::dump(seed, tier, out),
        "record" => {
            let Some(input) = input else { return 2 };
            let texts: Vec<String> = match std::fs::read_to_string(input).ok().and_then(|t| serde_json::from_str(&t).ok()) {
                Some(t) => t,
                None => return 2,
            };
            c17::dump_records(&texts, out)
        }
        _ => 2,
    }
}
