//! chmod(1) clause semantics, written from the manual page (and the statement of C08).

#[derive(Debug, Clone, PartialEq, Eq, Hash)]
pub struct Clause {
    /// subset of "ugoa", in the order written (repeats allowed)
    pub who: String,
    /// '+', '-' or '='
    pub op: char,
    /// subset of "rwx", in the order written (repeats allowed)
    pub perm: String,
}

impl Clause {
    pub fn text(&self) -> String {
        format!("{}{}{}", self.who, self.op, self.perm)
    }
    pub fn who_mask(&self) -> u32 {
        self.who.chars().fold(0, |m, c| {
            m | match c {
                'u' => 0o700,
                'g' => 0o070,
                'o' => 0o007,
                'a' => 0o777,
                _ => 0,
            }
        })
    }
    pub fn perm_mask(&self) -> u32 {
        self.perm.chars().fold(0, |m, c| {
            m | match c {
                'r' => 0o444,
                'w' => 0o222,
                'x' => 0o111,
                _ => 0,
            }
        })
    }
    pub fn apply(&self, m: u32) -> u32 {
        let w = self.who_mask();
        let p = self.perm_mask() & w;
        match self.op {
            '+' => m | p,
            '-' => m & !p,
            '=' => (m & !w) | p,
            _ => m,
        }
    }
}

pub fn apply_all(clauses: &[Clause]) -> u32 {
    clauses.iter().fold(0, |m, c| c.apply(m))
}

pub fn list_text(clauses: &[Clause]) -> String {
    clauses.iter().map(|c| c.text()).collect::<Vec<_>>().join(",")
}

/// The 15 non-empty who-sets and 7 non-empty permission sets in canonical letter order.
pub fn canonical_who() -> Vec<String> {
    (1..16u32).map(|b| "ugoa".chars().enumerate().filter(|(i, _)| b & (1 << i) != 0).map(|(_, c)| c).collect()).collect()
}
pub fn canonical_perm() -> Vec<String> {
    (1..8u32).map(|b| "rwx".chars().enumerate().filter(|(i, _)| b & (1 << i) != 0).map(|(_, c)| c).collect()).collect()
}
/// all 315 single clauses
pub fn all_clauses() -> Vec<Clause> {
    let mut v = vec![];
    for who in canonical_who() {
        for op in ['+', '-', '='] {
            for perm in canonical_perm() {
                v.push(Clause { who: who.clone(), op, perm });
            }
        }
    }
    v
}

/// What the defect recorded as F12 computes: a '-' clause clears `who & !perm` instead of `who & perm`.
pub fn f12_buggy_apply_all(clauses: &[Clause]) -> u32 {
    clauses.iter().fold(0, |m, c| {
        let w = c.who_mask();
        match c.op {
            '-' => m & !(w & !c.perm_mask()),
            _ => c.apply(m),
        }
    })
}
