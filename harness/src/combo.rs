//! Combinatorial interaction coverage: every ordered triple of leaf *kinds* under every
//! three-slot operator skeleton.  Random generation meets a given triple of features in a given
//! arrangement only by luck; a defect that needs three features to coincide (a particular action
//! with a particular test under a particular operator), or a leaf in a particular position (right
//! child of a left child, first or last primary), is met here by construction.  The triples are
//! enumerated; a tier visits the slice `hash(triple, skeleton) + seed ≡ 0 (mod denom)`, so that
//! different seeds visit different slices and `denom = 1` is the whole product.

use crate::tree::*;
use crate::util::*;
use serde_json::Value;

fn s(x: &str) -> String {
    x.to_string()
}

/// natural-looking arguments, one or two leaves per supported keyword
pub fn supported_tests() -> Vec<E> {
    let t = |x: Tst| E::T(x);
    vec![
        t(Tst::Time(Which::A, Cmp::Gt, 1, TUnit::D)),
        t(Tst::Time(Which::C, Cmp::Lt, 60, TUnit::M)),
        t(Tst::Time(Which::M, Cmp::Eq, 0, TUnit::D)),
        t(Tst::Time(Which::M, Cmp::Gt, 365, TUnit::D)),
        t(Tst::Empty),
        t(Tst::Executable),
        t(Tst::Readable),
        t(Tst::Writable),
        t(Tst::True),
        t(Tst::False),
        t(Tst::Gid(Cmp::Eq, 100)),
        t(Tst::Uid(Cmp::Gt, 1000)),
        t(Tst::Uid(Cmp::Eq, 0)),
        t(Tst::Inum(Cmp::Lt, 12345)),
        t(Tst::MirrorCount(Cmp::Eq, 2)),
        t(Tst::StripeCount(Cmp::Gt, 1)),
        t(Tst::Links(Cmp::Eq, 1)),
        t(Tst::Size(Cmp::Gt, 1, SUnit::M)),
        t(Tst::Size(Cmp::Lt, 4, SUnit::K)),
        t(Tst::Size(Cmp::Eq, 0, SUnit::C)),
        t(Tst::Name(s("*.txt"))),
        t(Tst::Name(s("core"))),
        t(Tst::IName(s("readme*"))),
        t(Tst::Path(s("dir/*"))),
        t(Tst::IPath(s("*/SRC/*"))),
        t(Tst::Pool(s("flash"))),
        t(Tst::Xattr(s("user.tag"))),
        t(Tst::XattrMatch(s("user.tag"), s("v*"))),
        t(Tst::XattrMatch(s("user.tag"), s("v1"))),
        t(Tst::Type(vec![FT::F])),
        t(Tst::Type(vec![FT::D, FT::L])),
        t(Tst::Perm(PKind::Equal, 0o644)),
        t(Tst::Perm(PKind::AtLeast, 0o111)),
        t(Tst::Perm(PKind::Any, 0o222)),
        // tests with a constant answer (nothing is below zero or above the maximum; no bit asked
        // for): a reasoning about dead branches must not change what the expression does
        t(Tst::Uid(Cmp::Lt, 0)),
        t(Tst::Gid(Cmp::Gt, u32::MAX)),
        t(Tst::Size(Cmp::Lt, 0, SUnit::K)),
        t(Tst::Links(Cmp::Lt, 0)),
        t(Tst::Time(Which::M, Cmp::Lt, 0, TUnit::D)),
        t(Tst::Perm(PKind::AtLeast, 0)),
        t(Tst::Perm(PKind::Any, 0)),
        t(Tst::Name(s("*"))),
        t(Tst::Type(FT::ALL.to_vec())),
    ]
}

pub fn supported_actions() -> Vec<E> {
    let a = |x: Act| E::A(x);
    let nl = FEl::E(Esc::Newline);
    vec![
        a(Act::Print),
        a(Act::Print0),
        a(Act::Printf(vec![FEl::F(Fld::Name), nl.clone()])),
        a(Act::Printf(vec![FEl::F(Fld::Basename), FEl::Lit(s(":")), FEl::F(Fld::Bytes)])),
        a(Act::FPrint(s("out.txt"))),
        a(Act::FPrint0(s("out0"))),
        a(Act::FPrintf(s("out.txt"), vec![FEl::F(Fld::NameNoStart), FEl::Lit(s(" ")), FEl::F(Fld::UserId), nl])),
        a(Act::PrintFid),
        a(Act::Quit),
    ]
}

pub fn unsupported_leaves() -> Vec<E> {
    vec![
        E::T(Tst::U(UTest::AccessNewer(s("ref")))),
        E::T(Tst::U(UTest::FsType(s("lustre")))),
        E::T(Tst::U(UTest::Group(s("staff")))),
        E::T(Tst::U(UTest::User(s("root")))),
        E::T(Tst::U(UTest::LName(s("*.so")))),
        E::T(Tst::U(UTest::IRegex(s(".*\\.c")))),
        E::T(Tst::U(UTest::Samefile(s("ref")))),
        E::T(Tst::U(UTest::NoGroup)),
        E::T(Tst::U(UTest::NoUser)),
        E::A(Act::Ls),
        E::A(Act::Fls(s("out.txt"))),
        E::A(Act::Prune),
        E::A(Act::Printf(vec![FEl::F(Fld::Name), FEl::F(Fld::Depth), FEl::E(Esc::Newline)])),
        E::A(Act::FPrintf(s("out.txt"), vec![FEl::F(Fld::PermSymbolic)])),
    ]
}

pub fn supported_kinds() -> Vec<E> {
    let mut v = supported_tests();
    v.extend(supported_actions());
    v
}

/// a smaller palette (for checks whose single case is expensive)
pub fn small_kinds() -> Vec<E> {
    let mut v: Vec<E> = supported_tests().into_iter().step_by(3).collect();
    v.extend(supported_actions());
    v
}

pub fn all_kinds() -> Vec<E> {
    let mut v = supported_kinds();
    v.extend(unsupported_leaves());
    v
}

pub const SKELETONS: usize = 18;

pub fn skeleton(k: usize, a: E, b: E, c: E) -> E {
    match k % SKELETONS {
        0 => E::and(E::and(a, b), c),
        1 => E::and(a, E::and(b, c)),
        2 => E::or(E::or(a, b), c),
        3 => E::or(a, E::or(b, c)),
        4 => E::or(E::and(a, b), c),
        5 => E::or(a, E::and(b, c)),
        6 => E::and(E::or(a, b), c),
        7 => E::and(a, E::or(b, c)),
        8 => E::list(E::list(a, b), c),
        9 => E::list(a, E::or(b, c)),
        10 => E::and(E::not(a), E::or(b, E::not(c))),
        11 => E::not(E::and(a, E::or(b, c))),
        12 => E::or(E::not(E::and(a, b)), c),
        13 => E::list(E::and(a, b), c),
        14 => E::and(a, E::list(b, c)),
        15 => E::or(E::list(a, b), c),
        16 => E::list(E::or(a, E::not(b)), c),
        _ => E::and(E::and(E::not(E::not(a)), b), E::not(c)),
    }
}

/// Judge the slice of (triple, skeleton) selected by `seed` and `denom`; 32 shards on the pool.
pub fn run_triples<J, K>(seed: u64, leaves: &[E], denom: u64, judge: J, to_json: K) -> Stats
where
    J: Fn(&E) -> Verdict + Sync,
    K: Fn(&E) -> Value + Sync,
{
    let n = leaves.len();
    let shards = 32usize;
    let mut st = run_shards(shards, |shard| {
        let mut st = Stats::new();
        for i in 0..n {
            if i % shards != shard {
                continue;
            }
            for j in 0..n {
                for k in 0..n {
                    for sk in 0..SKELETONS {
                        if denom > 1 && stable_hash(&(i, j, k, sk)).wrapping_add(seed) % denom != 0 {
                            continue;
                        }
                        let tree = skeleton(sk, leaves[i].clone(), leaves[j].clone(), leaves[k].clone());
                        let v = judge(&tree);
                        let v = match v {
                            Verdict::Pass { nt: _, class: _ } => Verdict::Pass { nt: i != j && j != k && i != k, class: "interaction triple (three leaf kinds x operator skeleton)" },
                            o => o,
                        };
                        st.record(&v, stable_hash(&tree), true, || to_json(&tree));
                    }
                }
            }
        }
        st
    });
    st.exhaustive_parts.push(format!(
        "interaction triples: {} leaf kinds ^3 x {} operator skeletons, {}",
        n,
        SKELETONS,
        if denom <= 1 { "all of them".to_string() } else { format!("the seed-selected 1/{denom} slice") }
    ));
    st
}

/// Requests whose parts, written one after the other without a separator, spell the same text:
/// a registry keyed by a concatenation (pattern + flag suffix, file name + terminator, function
/// name + pattern) takes them for one request.  Different requests, so: different resources.
pub fn concat_twin_trees() -> Vec<E> {
    let mut out = vec![];
    let framers = [None, Some(Act::Print0), Some(Act::FPrint(s("twin.out")))];
    let mut push = |a: E, b: E, out: &mut Vec<E>| {
        for (k, f) in framers.iter().enumerate() {
            let t = if k % 2 == 0 { E::or(a.clone(), b.clone()) } else { E::or(b.clone(), a.clone()) };
            out.push(match f {
                None => t,
                Some(act) => E::and(t, E::A(act.clone())),
            });
            out.push(match f {
                None => E::or(b.clone(), a.clone()),
                Some(act) => E::and(E::or(b.clone(), a.clone()), E::A(act.clone())),
            });
        }
    };
    for x in ["a", "x*", "README", "[ab]c"] {
        for fix in ["-ci", "ci", "-i", "i", "I", "1", "true", "false", "#t", "#f", "?", "*", "fnmatch", "streq", "fnmatch-ci", "streq-ci"] {
            for (long, short) in [(format!("{x}{fix}"), x.to_string()), (format!("{fix}{x}"), x.to_string())] {
                push(E::T(Tst::Name(long.clone())), E::T(Tst::IName(short.clone())), &mut out);
                push(E::T(Tst::IName(long.clone())), E::T(Tst::Name(short.clone())), &mut out);
                push(E::T(Tst::Path(long.clone())), E::T(Tst::IPath(short.clone())), &mut out);
                push(E::T(Tst::Name(long.clone())), E::T(Tst::Path(short.clone())), &mut out);
            }
        }
    }
    // one pattern under both case flags (also patterns without a letter that still tell the cases
    // apart: bracket ranges with punctuation end points)
    for p in ["[0-_]*", "[@-[]?", "[_-~]*", "[!a-z]*", "?", "*", "a", "A*", "[A-Z]", "x.[c-h]"] {
        push(E::T(Tst::Name(s(p))), E::T(Tst::IName(s(p))), &mut out);
        push(E::T(Tst::IPath(s(p))), E::T(Tst::Path(s(p))), &mut out);
    }
    // strings that differ only by blanks at either end (a registry keyed by a trimmed or otherwise
    // normalised string takes them for one request; the directed file set holds an instance of each)
    for p in ["foo", "a*", "*.txt", "é", "x y", "[ab]c"] {
        for v in [format!("{p} "), format!(" {p}"), format!("{p}\t"), format!("\t{p}"), format!("{p}\n"), format!("{p}\u{a0}"), format!(" {p} "), format!("{p}  ")] {
            push(E::T(Tst::Name(s(p))), E::T(Tst::Name(v.clone())), &mut out);
            push(E::T(Tst::IName(v.clone())), E::T(Tst::IName(s(p))), &mut out);
            push(E::T(Tst::Path(s(p))), E::T(Tst::Path(v.clone())), &mut out);
            push(E::T(Tst::IPath(v.clone())), E::T(Tst::IPath(s(p))), &mut out);
            push(E::T(Tst::Pool(s(p))), E::T(Tst::Pool(v.clone())), &mut out);
            push(E::T(Tst::XattrMatch(s("user.a"), v.clone())), E::T(Tst::XattrMatch(s("user.a"), s(p))), &mut out);
            out.push(E::and(E::A(Act::FPrint(s(p))), E::A(Act::FPrint(v.clone()))));
            out.push(E::list(E::A(Act::FPrint0(v.clone())), E::A(Act::FPrint0(s(p)))));
        }
    }
    // file destinations: name + terminator
    let fmt = || vec![FEl::F(Fld::NameNoStart)];
    for name in ["out", "a b", "é"] {
        // the name followed by the terminator character itself, or by a spelling of it
        for suffix in ["\n", "\0", "#f", "None", "10", "0", "\\n", "\\0", "\\x0a", "x0a", "0a", "00"] {
            let long = format!("{name}{suffix}");
            for short in [Act::FPrint(s(name)), Act::FPrint0(s(name)), Act::FPrintf(s(name), fmt())] {
                for longa in [Act::FPrintf(long.clone(), fmt()), Act::FPrint(long.clone()), Act::FPrint0(long.clone())] {
                    out.push(E::and(E::A(longa.clone()), E::A(short.clone())));
                    out.push(E::list(E::A(short.clone()), E::A(longa)));
                }
            }
        }
    }
    // standard output next to files whose name spells a label of it
    for name in ["", "stdout", "stdout:", "/dev/stdout", "-", "Stdout", "#f", "current-output-port"] {
        for so in [Act::Print, Act::Print0, Act::Printf(fmt())] {
            for fa in [Act::FPrint(s(name)), Act::FPrint0(s(name)), Act::FPrintf(s(name), fmt())] {
                out.push(E::and(E::A(so.clone()), E::A(fa.clone())));
                out.push(E::and(E::A(fa), E::A(so.clone())));
            }
        }
    }
    out
}

/// Chains of `n` operands nested to the left (the shape the parser builds) or to the right (groups,
/// or a hand-built fold), under one operator or a mix, with the only action at a chosen operand
/// position: a walker that gives up, or forgets pending operands, beyond some depth or count
/// answers wrongly for particular (direction, length, position) combinations only.
pub fn spine(n: usize, right: bool, op: u8, pos: usize, special: &E) -> E {
    let leaf = |i: usize| if i == pos { special.clone() } else if i % 7 == 3 { E::T(Tst::Name(s("a"))) } else { E::T(Tst::True) };
    let join = |i: usize, a: E, b: E| match if op == 3 { (i % 3) as u8 } else { op } {
        0 => E::and(a, b),
        1 => E::or(a, b),
        _ => E::list(a, b),
    };
    if right {
        let mut acc = leaf(n - 1);
        for i in (0..n - 1).rev() {
            acc = join(i, leaf(i), acc);
        }
        acc
    } else {
        let mut acc = leaf(0);
        for i in 1..n {
            acc = join(i, acc, leaf(i));
        }
        acc
    }
}

/// (tree, description) for a grid of lengths, directions, operators, positions and actions
pub fn spine_trees(max_len: usize) -> Vec<(E, String)> {
    let mut out = vec![];
    let specials = [
        E::A(Act::Print),
        E::A(Act::Print0),
        E::A(Act::Quit),
        E::A(Act::FPrint(s("f"))),
        E::A(Act::Printf(vec![FEl::F(Fld::NameNoStart)])),
        E::A(Act::Printf(vec![FEl::F(Fld::NameNoStart), FEl::E(Esc::Newline)])),
    ];
    let mut lens: Vec<usize> = (2..=20).collect();
    lens.extend([31, 32, 33, 63, 64, 65, 100, 126, 127, 128, 129, 130, 200, 255, 256, 257, 300, 1000, 2000]);
    for n in lens {
        if n > max_len {
            continue;
        }
        let mut ps = vec![0usize, 1, 2, 5, 9, 10, 11, 12, n / 2, n.saturating_sub(12), n.saturating_sub(11), n.saturating_sub(10), n.saturating_sub(2), n - 1];
        ps.retain(|p| *p < n);
        ps.sort();
        ps.dedup();
        for right in [false, true] {
            for op in 0..4u8 {
                for (k, p) in ps.iter().enumerate() {
                    let sp = &specials[(k + n + op as usize) % specials.len()];
                    out.push((spine(n, right, op, *p, sp), format!("{} operands nested to the {}, operator {}, the only action ({:?}) at operand {}", n, if right { "right" } else { "left" }, ["and", "or", "','", "mixed"][op as usize], sp, p)));
                }
            }
        }
    }
    out
}

/// Two primaries of the same kind with different constants as siblings under every operator (and
/// negated, and next to a third primary): a pass that folds siblings of one kind into a single
/// comparison (two `-perm /A`, two sizes, two ages, two `-type` lists, two ids) is right under
/// some operators and wrong under others.
pub fn sibling_pairs() -> Vec<E> {
    let mut fam: Vec<Vec<E>> = vec![];
    let t = |x: Tst| E::T(x);
    let mut perms = vec![];
    for k in [PKind::Equal, PKind::AtLeast, PKind::Any] {
        for m in [0o400u32, 0o040, 0o644, 0o111, 0o4000, 0] {
            perms.push(t(Tst::Perm(k, m)));
        }
    }
    fam.push(perms);
    let mut sizes = vec![];
    for (c, n, u) in [(Cmp::Gt, 1u64, SUnit::K), (Cmp::Lt, 2, SUnit::K), (Cmp::Gt, 2, SUnit::K), (Cmp::Lt, 1, SUnit::M), (Cmp::Eq, 1, SUnit::K), (Cmp::Gt, 1024, SUnit::C), (Cmp::Lt, 4, SUnit::B), (Cmp::Gt, 0, SUnit::G), (Cmp::Lt, 1, SUnit::K), (Cmp::Gt, 5, SUnit::M), (Cmp::Lt, 3, SUnit::M)] {
        sizes.push(t(Tst::Size(c, n, u)));
    }
    fam.push(sizes);
    for w in [Which::A, Which::M] {
        let mut times = vec![];
        for (c, n, u) in [(Cmp::Gt, 1u64, TUnit::D), (Cmp::Lt, 2, TUnit::D), (Cmp::Gt, 1440, TUnit::M), (Cmp::Lt, 48, TUnit::H), (Cmp::Eq, 1, TUnit::D), (Cmp::Gt, 60, TUnit::S), (Cmp::Lt, 1, TUnit::M), (Cmp::Gt, 9, TUnit::D), (Cmp::Lt, 0, TUnit::D)] {
            times.push(t(Tst::Time(w, c, n, u)));
        }
        fam.push(times);
    }
    fam.push(vec![t(Tst::Type(vec![FT::F])), t(Tst::Type(vec![FT::D])), t(Tst::Type(vec![FT::F, FT::D])), t(Tst::Type(vec![FT::L, FT::F])), t(Tst::Type(FT::ALL.to_vec()))]);
    fam.push(vec![t(Tst::Uid(Cmp::Gt, 0)), t(Tst::Uid(Cmp::Lt, 1000)), t(Tst::Uid(Cmp::Eq, 0)), t(Tst::Uid(Cmp::Gt, 1000)), t(Tst::Uid(Cmp::Eq, 1000)), t(Tst::Uid(Cmp::Lt, 5))]);
    fam.push(vec![t(Tst::Links(Cmp::Gt, 1)), t(Tst::Links(Cmp::Lt, 3)), t(Tst::Links(Cmp::Eq, 2)), t(Tst::Links(Cmp::Gt, 2)), t(Tst::Links(Cmp::Gt, 9)), t(Tst::Links(Cmp::Lt, 1))]);
    fam.push(vec![t(Tst::Name(s("a*"))), t(Tst::Name(s("*b"))), t(Tst::Name(s("ab"))), t(Tst::IName(s("AB"))), t(Tst::IName(s("a*"))), t(Tst::Path(s("a*"))), t(Tst::Name(s("*")))]);
    fam.push(vec![t(Tst::Xattr(s("user.tag"))), t(Tst::XattrMatch(s("user.tag"), s("v1"))), t(Tst::XattrMatch(s("user.tag"), s("v*"))), t(Tst::Xattr(s("tag"))), t(Tst::Pool(s("flash"))), t(Tst::Pool(s("ssd")))]);
    let mut out = vec![];
    let third = [E::A(Act::Print), E::T(Tst::Name(s("z*"))), E::A(Act::Printf(vec![FEl::F(Fld::PermOctal), FEl::Lit(s(" ")), FEl::F(Fld::NameNoStart), FEl::E(Esc::Newline)]))];
    for f in &fam {
        for (i, a) in f.iter().enumerate() {
            for (j, b) in f.iter().enumerate() {
                if i == j {
                    continue;
                }
                let (a, b) = (a.clone(), b.clone());
                out.push(E::and(a.clone(), b.clone()));
                out.push(E::or(a.clone(), b.clone()));
                out.push(E::list(a.clone(), b.clone()));
                out.push(E::and(E::not(a.clone()), b.clone()));
                out.push(E::or(a.clone(), E::not(b.clone())));
                out.push(E::not(E::list(a.clone(), b.clone())));
                // both negated, under every operator (De Morgan: a fold of the two must swap and/or)
                out.push(E::and(E::not(a.clone()), E::not(b.clone())));
                out.push(E::or(E::not(a.clone()), E::not(b.clone())));
                out.push(E::list(E::not(a.clone()), E::not(b.clone())));
                out.push(E::not(E::or(E::not(a.clone()), b.clone())));
                let c = third[(i + j) % third.len()].clone();
                out.push(E::and(E::list(a.clone(), b.clone()), c.clone()));
                out.push(E::or(E::and(c.clone(), a.clone()), b.clone()));
                out.push(E::list(E::or(a, c), b));
            }
        }
    }
    out
}

/// Context leaves: every kind of the palette plus one formatted print per supported directive
/// (a directive may leave something behind in the compiler that a later primary picks up).
pub fn context_leaves() -> Vec<E> {
    let mut v = supported_kinds();
    for f in crate::gen::supported_fields() {
        v.push(E::A(Act::Printf(vec![FEl::F(f.clone()), FEl::Lit(s(" ")), FEl::F(Fld::NameNoStart), FEl::E(Esc::Newline)])));
    }
    for f in [Fld::PermOctal, Fld::Kilos, Fld::Blocks, Fld::Bytes, Fld::ModifyFmt('@'), Fld::XAttr(s("user.tag"))] {
        v.push(E::A(Act::FPrintf(s("ctx.out"), vec![FEl::F(f), FEl::E(Esc::Newline)])));
        
    }
    for e in [Esc::Clear, Esc::Null, Esc::Ascii(0o101)] {
        v.push(E::A(Act::Printf(vec![FEl::F(Fld::NameNoStart), FEl::E(Esc::Newline), FEl::E(e)])));
    }
    v
}

/// (context, subject) in five arrangements: the subject after the context under ',' / and / or,
/// the other order, and with something in between
pub fn pair_skeleton(k: usize, c: E, sb: E) -> E {
    match k % 5 {
        0 => E::list(c, sb),
        1 => E::and(c, sb),
        2 => E::or(c, sb),
        3 => E::list(sb, c),
        _ => E::and(E::list(c, E::T(Tst::True)), sb),
    }
}

/// Every (context leaf, subject leaf) pair under [`pair_skeleton`]; the seed-selected 1/denom slice.
pub fn run_pairs<J, K>(seed: u64, contexts: &[E], subjects: &[E], denom: u64, judge: J, to_json: K) -> Stats
where
    J: Fn(&E) -> Verdict + Sync,
    K: Fn(&E) -> Value + Sync,
{
    let shards = 32usize;
    let mut st = run_shards(shards, |shard| {
        let mut st = Stats::new();
        for (i, c) in contexts.iter().enumerate() {
            if i % shards != shard {
                continue;
            }
            for (j, sb) in subjects.iter().enumerate() {
                for k in 0..5 {
                    if denom > 1 && stable_hash(&(i, j, k, 0xc0u8)).wrapping_add(seed) % denom != 0 {
                        continue;
                    }
                    let tree = pair_skeleton(k, c.clone(), sb.clone());
                    let v = match judge(&tree) {
                        Verdict::Pass { .. } => Verdict::Pass { nt: c != sb, class: "context pair (a leaf after every kind of other leaf)" },
                        o => o,
                    };
                    st.record(&v, stable_hash(&tree), true, || to_json(&tree));
                }
            }
        }
        st
    });
    st.exhaustive_parts.push(format!("context pairs: {} context leaves (the palette and one formatted print per supported directive) x {} subject leaves x 5 arrangements, {}", contexts.len(), subjects.len(), if denom <= 1 { "all of them".to_string() } else { format!("the seed-selected 1/{denom} slice") }));
    st
}

/// Patterns that differ only by backslashes or by one level of string escaping (`a\*` / `a*`,
/// `a\b` / `a\\b`, `a"b` / `a\"b`): a registry that is filled under one form and looked up under
/// the other takes two different requests for one. Structural checks only (what a backslash means
/// to the runtime's matcher is not modelled behaviourally).
pub fn escape_twin_trees() -> Vec<E> {
    let mut out = vec![];
    let esc = |p: &str| p.replace('\\', "\\\\").replace('"', "\\\"");
    let framers = [None, Some(Act::Print0), Some(Act::FPrint(s("twin.out"))), Some(Act::Printf(vec![FEl::F(Fld::NameNoStart)]))];
    for p in ["a\\*", "a\\?b", "\\[ab]", "x\\\\y*", "a\"b*", "a\\b", "say \"hi\"", "\\", "\"", "a\\\"b", "dir\\*\\"] {
        let variants = [p.replace('\\', ""), esc(p), esc(&esc(p)), format!("{p}\\"), p.replace('"', "")];
        for v in variants {
            if v == p || v.is_empty() {
                continue;
            }
            for (k, f) in framers.iter().enumerate() {
                for (a, b) in [(E::T(Tst::Name(s(p))), E::T(Tst::Name(v.clone()))), (E::T(Tst::IName(v.clone())), E::T(Tst::IName(s(p)))), (E::T(Tst::Path(s(p))), E::T(Tst::Path(v.clone()))), (E::T(Tst::Pool(s(p))), E::T(Tst::Pool(v.clone()))), (E::T(Tst::XattrMatch(s("user.a"), s(p))), E::T(Tst::XattrMatch(s("user.a"), v.clone())))] {
                    let t = if k % 2 == 0 { E::or(a, b) } else { E::or(b, a) };
                    out.push(match f {
                        None => t,
                        Some(act) => E::and(t, E::A(act.clone())),
                    });
                }
                // as file names
                let t = E::and(E::A(Act::FPrint(s(p))), E::A(Act::FPrint(v.clone())));
                out.push(match f {
                    None => t,
                    Some(act) => E::list(t, E::A(act.clone())),
                });
            }
        }
    }
    out
}

/// Names (files, patterns) that agree in their first N bytes for N around every power of two up to
/// 65536 and differ only at the very end (a key clipped to a fixed length takes them for one).
pub fn long_prefix_twin_trees() -> Vec<E> {
    let mut out = vec![];
    for n in [63usize, 64, 255, 256, 1023, 1024, 4095, 4096, 4097, 8192, 65535, 65536] {
        for unit in ["x", "é"] {
            let stem = unit.repeat(n / unit.len() + 1);
            let (a, b) = (format!("{stem}.001"), format!("{stem}.002"));
            out.push(E::and(E::A(Act::FPrint(a.clone())), E::A(Act::FPrint(b.clone()))));
            out.push(E::or(E::A(Act::FPrint0(b.clone())), E::A(Act::FPrint0(a.clone()))));
            out.push(E::and(E::or(E::T(Tst::Name(a.clone())), E::T(Tst::Name(b.clone()))), E::A(Act::Print0)));
            out.push(E::or(E::T(Tst::IPath(b.clone())), E::T(Tst::IPath(a.clone()))));
            out.push(E::or(E::T(Tst::Pool(a.clone())), E::T(Tst::Pool(b.clone()))));
        }
    }
    out
}
