//! Combinatorial interaction coverage: every ordered triple of leaf *kinds* under every
//! three-slot operator skeleton.  Random generation meets a given triple of features in a given
//! arrangement only by luck; a defect that needs three features to coincide (a particular action
//! with a particular test under a particular operator), or a leaf in a particular position (right
//! child of a left child, first or last primary), is met here by construction.  The triples are
//! enumerated; a tier visits the slice `hash(triple, skeleton) + seed ≡ 0 (mod denom)`, so that
//! different seeds visit different slices and `denom = 1` is the whole product.

use crate::tree::*;
use crate::util::*;
use serde_json::Value;

fn s(x: &str) -> String {
    x.to_string()
}

/// natural-looking arguments, one or two leaves per supported keyword
pub fn supported_tests() -> Vec<E> {
    let t = |x: Tst| E::T(x);
    vec![
        t(Tst::Time(Which::A, Cmp::Gt, 1, TUnit::D)),
        t(Tst::Time(Which::C, Cmp::Lt, 60, TUnit::M)),
        t(Tst::Time(Which::M, Cmp::Eq, 0, TUnit::D)),
        t(Tst::Time(Which::M, Cmp::Gt, 365, TUnit::D)),
        t(Tst::Empty),
        t(Tst::Executable),
        t(Tst::Readable),
        t(Tst::Writable),
        t(Tst::True),
        t(Tst::False),
        t(Tst::Gid(Cmp::Eq, 100)),
        t(Tst::Uid(Cmp::Gt, 1000)),
        t(Tst::Uid(Cmp::Eq, 0)),
        t(Tst::Inum(Cmp::Lt, 12345)),
        t(Tst::MirrorCount(Cmp::Eq, 2)),
        t(Tst::StripeCount(Cmp::Gt, 1)),
        t(Tst::Links(Cmp::Eq, 1)),
        t(Tst::Size(Cmp::Gt, 1, SUnit::M)),
        t(Tst::Size(Cmp::Lt, 4, SUnit::K)),
        t(Tst::Size(Cmp::Eq, 0, SUnit::C)),
        t(Tst::Name(s("*.txt"))),
        t(Tst::Name(s("core"))),
        t(Tst::IName(s("readme*"))),
        t(Tst::Path(s("dir/*"))),
        t(Tst::IPath(s("*/SRC/*"))),
        t(Tst::Pool(s("flash"))),
        t(Tst::Xattr(s("user.tag"))),
        t(Tst::XattrMatch(s("user.tag"), s("v*"))),
        t(Tst::XattrMatch(s("user.tag"), s("v1"))),
        t(Tst::Type(vec![FT::F])),
        t(Tst::Type(vec![FT::D, FT::L])),
        t(Tst::Perm(PKind::Equal, 0o644)),
        t(Tst::Perm(PKind::AtLeast, 0o111)),
        t(Tst::Perm(PKind::Any, 0o222)),
    ]
}

pub fn supported_actions() -> Vec<E> {
    let a = |x: Act| E::A(x);
    let nl = FEl::E(Esc::Newline);
    vec![
        a(Act::Print),
        a(Act::Print0),
        a(Act::Printf(vec![FEl::F(Fld::Name), nl.clone()])),
        a(Act::Printf(vec![FEl::F(Fld::Basename), FEl::Lit(s(":")), FEl::F(Fld::Bytes)])),
        a(Act::FPrint(s("out.txt"))),
        a(Act::FPrint0(s("out0"))),
        a(Act::FPrintf(s("out.txt"), vec![FEl::F(Fld::NameNoStart), FEl::Lit(s(" ")), FEl::F(Fld::UserId), nl])),
        a(Act::PrintFid),
        a(Act::Quit),
    ]
}

pub fn unsupported_leaves() -> Vec<E> {
    vec![
        E::T(Tst::U(UTest::AccessNewer(s("ref")))),
        E::T(Tst::U(UTest::FsType(s("lustre")))),
        E::T(Tst::U(UTest::Group(s("staff")))),
        E::T(Tst::U(UTest::User(s("root")))),
        E::T(Tst::U(UTest::LName(s("*.so")))),
        E::T(Tst::U(UTest::IRegex(s(".*\\.c")))),
        E::T(Tst::U(UTest::Samefile(s("ref")))),
        E::T(Tst::U(UTest::NoGroup)),
        E::T(Tst::U(UTest::NoUser)),
        E::A(Act::Ls),
        E::A(Act::Fls(s("out.txt"))),
        E::A(Act::Prune),
        E::A(Act::Printf(vec![FEl::F(Fld::Name), FEl::F(Fld::Depth), FEl::E(Esc::Newline)])),
        E::A(Act::FPrintf(s("out.txt"), vec![FEl::F(Fld::PermSymbolic)])),
    ]
}

pub fn supported_kinds() -> Vec<E> {
    let mut v = supported_tests();
    v.extend(supported_actions());
    v
}

/// a smaller palette (for checks whose single case is expensive)
pub fn small_kinds() -> Vec<E> {
    let mut v: Vec<E> = supported_tests().into_iter().step_by(3).collect();
    v.extend(supported_actions());
    v
}

pub fn all_kinds() -> Vec<E> {
    let mut v = supported_kinds();
    v.extend(unsupported_leaves());
    v
}

pub const SKELETONS: usize = 18;

pub fn skeleton(k: usize, a: E, b: E, c: E) -> E {
    match k % SKELETONS {
        0 => E::and(E::and(a, b), c),
        1 => E::and(a, E::and(b, c)),
        2 => E::or(E::or(a, b), c),
        3 => E::or(a, E::or(b, c)),
        4 => E::or(E::and(a, b), c),
        5 => E::or(a, E::and(b, c)),
        6 => E::and(E::or(a, b), c),
        7 => E::and(a, E::or(b, c)),
        8 => E::list(E::list(a, b), c),
        9 => E::list(a, E::or(b, c)),
        10 => E::and(E::not(a), E::or(b, E::not(c))),
        11 => E::not(E::and(a, E::or(b, c))),
        12 => E::or(E::not(E::and(a, b)), c),
        13 => E::list(E::and(a, b), c),
        14 => E::and(a, E::list(b, c)),
        15 => E::or(E::list(a, b), c),
        16 => E::list(E::or(a, E::not(b)), c),
        _ => E::and(E::and(E::not(E::not(a)), b), E::not(c)),
    }
}

/// Judge the slice of (triple, skeleton) selected by `seed` and `denom`; 32 shards on the pool.
pub fn run_triples<J, K>(seed: u64, leaves: &[E], denom: u64, judge: J, to_json: K) -> Stats
where
    J: Fn(&E) -> Verdict + Sync,
    K: Fn(&E) -> Value + Sync,
{
    let n = leaves.len();
    let shards = 32usize;
    let mut st = run_shards(shards, |shard| {
        let mut st = Stats::new();
        for i in 0..n {
            if i % shards != shard {
                continue;
            }
            for j in 0..n {
                for k in 0..n {
                    for sk in 0..SKELETONS {
                        if denom > 1 && stable_hash(&(i, j, k, sk)).wrapping_add(seed) % denom != 0 {
                            continue;
                        }
                        let tree = skeleton(sk, leaves[i].clone(), leaves[j].clone(), leaves[k].clone());
                        let v = judge(&tree);
                        let v = match v {
                            Verdict::Pass { nt: _, class: _ } => Verdict::Pass { nt: i != j && j != k && i != k, class: "interaction triple (three leaf kinds x operator skeleton)" },
                            o => o,
                        };
                        st.record(&v, stable_hash(&tree), true, || to_json(&tree));
                    }
                }
            }
        }
        st
    });
    st.exhaustive_parts.push(format!(
        "interaction triples: {} leaf kinds ^3 x {} operator skeletons, {}",
        n,
        SKELETONS,
        if denom <= 1 { "all of them".to_string() } else { format!("the seed-selected 1/{denom} slice") }
    ));
    st
}
