//! Input corpora shared by C03 (totality) and C17 (debug == release):
//! deterministic functions of (seed, tier).

use crate::checks::{c05, c07, c14, c18};
use crate::gen;
use crate::render::{self, Stream, ALL_LAYOUT};
use crate::tree::*;
use crate::util::*;
use proptest::prelude::*;

pub const ARG_ALPHABET: [char; 20] = ['0', '1', '7', '8', '9', '+', '-', '/', ',', '=', 'u', 'r', 'x', 'k', 'M', 's', 'd', '%', '\\', 'f'];
pub const MUTATION_CHARS: [char; 24] = ['"', '\'', '\\', '%', '(', ')', '!', ',', '-', '+', '/', ' ', '\t', '\n', '\r', '0', '9', 'a', 'Z', '~', ';', '#', 'é', '\u{1}'];

/// The property's bounds: valid UTF-8 (a &str), at most 4 KiB, at most 64 of '(' / '!' in total.
pub fn within_bounds(s: &str) -> bool {
    s.len() <= 4096 && s.chars().filter(|c| *c == '(' || *c == '!').count() <= 64
}

/// (1) grammar-aware texts: random trees over the whole vocabulary, canonical and in layout variants
pub fn grammar_texts(seed: u64, n: usize) -> Vec<String> {
    let strat = (gen::expr_over(prop_oneof![8 => gen::text_leaf(), 1 => crate::checks::c13::option().prop_map(E::G), 1 => Just(E::Pos)].boxed(), 5, 16, true), gen::choice_stream(40));
    let mut out = vec![];
    for (t, c) in sample_values(seed, "corpus-grammar", 0, n, &strat) {
        let mut ch = Stream::new(&c, ALL_LAYOUT | render::Cat::ArgSpell as u32);
        if let Some(s) = render::variant(&t, &mut ch) {
            out.push(s);
        }
    }
    out
}

/// (2) every prefix and every single-character mutation of `base`
pub fn mutations(base: &str) -> Vec<String> {
    let chars: Vec<char> = base.chars().collect();
    let mut out = vec![];
    for i in 0..=chars.len() {
        out.push(chars[..i].iter().collect::<String>());
    }
    for i in 0..chars.len() {
        let mut d = chars.clone();
        d.remove(i);
        out.push(d.iter().collect());
        let mut d = chars.clone();
        d.insert(i, chars[i]);
        out.push(d.iter().collect());
        for m in MUTATION_CHARS {
            if m != chars[i] {
                let mut d = chars.clone();
                d[i] = m;
                out.push(d.iter().collect());
            }
        }
    }
    out
}

/// (3) all strings of length 1..=3 over the 20-symbol alphabet after keyword number `k`
pub fn short_args(kw: &str, lang: c18::Lang, out: &mut Vec<String>) {
    let n = ARG_ALPHABET.len();
    let mut emit = |s: &str| {
        match lang {
            c18::Lang::Str2 => out.push(format!("{kw} a {s}")),
            c18::Lang::StrFmt => out.push(format!("{kw} f {s}")),
            _ => out.push(format!("{kw} {s}")),
        }
        if matches!(lang, c18::Lang::Fmt | c18::Lang::Perm) {
            out.push(format!("{kw} '{s}'"));
        }
    };
    for a in 0..n {
        emit(&ARG_ALPHABET[a].to_string());
        for b in 0..n {
            emit(&format!("{}{}", ARG_ALPHABET[a], ARG_ALPHABET[b]));
            for c in 0..n {
                emit(&format!("{}{}{}", ARG_ALPHABET[a], ARG_ALPHABET[b], ARG_ALPHABET[c]));
            }
        }
    }
}

/// (4) numeric boundary strings after every numeric keyword; long octal runs after -perm and '\'
pub fn numeric_texts() -> Vec<String> {
    let mut out = vec![];
    let mut digit_strings: Vec<String> = vec![];
    for b in [0u128, 1 << 16, 1 << 31, 1 << 32, 1 << 63, 1 << 64, (1u128 << 64) / 512, (1u128 << 64) / 1024, (1u128 << 64) >> 20, (1u128 << 64) >> 30, (1u128 << 64) >> 40, (1u128 << 64) / 2] {
        for d in -2i128..=2 {
            let v = b as i128 + d;
            if v >= 0 {
                digit_strings.push(v.to_string());
                digit_strings.push(format!("0{v}"));
                digit_strings.push(format!("{}{v}", "0".repeat(30)));
            }
        }
    }
    // a count times any unit of time at the edge of 32/63/64 bits (also for carriers whose
    // emitted constant is the bare count: some arithmetic may still be done on count * unit)
    for unit in [60u128, 1440, 3600, 86_400, 604_800] {
        for top in [1u128 << 31, 1 << 32, 1 << 63, 1 << 64] {
            for d in -1i128..=1 {
                digit_strings.push(((top / unit) as i128 + d).to_string());
                digit_strings.push((((top - 1) / unit) as i128 + d).to_string());
            }
        }
    }
    digit_strings.push("9".repeat(40));
    digit_strings.push("1".repeat(25));
    digit_strings.sort();
    digit_strings.dedup();
    for c in c07::carriers() {
        for d in &digit_strings {
            for sign in ["", "+", "-"] {
                let case = c07::Case { carrier: c, sign: ' ', digits: d.clone() };
                let _ = case;
                out.push(format!("{} {}{}{}", carrier_kw(&c), sign, d, carrier_suffix(&c)));
            }
        }
    }
    for n in 1..=24 {
        for digit in ['0', '1', '7'] {
            let run: String = std::iter::repeat(digit).take(n).collect();
            for pre in ["", "-", "/"] {
                out.push(format!("-perm {pre}{run}"));
            }
            out.push(format!("-printf '\\{run}'"));
            out.push(format!("-printf 'a\\{run}b\\n'"));
            out.push(format!("-fprintf f \\{run}"));
        }
    }
    out
}

fn carrier_kw(c: &c07::Carrier) -> String {
    // the Debug name is stable; the keyword comes from the check's own table
    c07::keyword_of(c)
}
fn carrier_suffix(c: &c07::Carrier) -> String {
    c07::suffix_of(c)
}

/// (5) the member / non-member texts of C05
pub fn c05_texts(seed: u64, n: usize) -> Vec<String> {
    let mut out = vec![];
    for leaf in c05::leaf_per_keyword() {
        for wrap in 0..4u8 {
            for k in 0..22 {
                for c in c05::corruptions(&leaf, k, wrap) {
                    out.push(c.text);
                }
            }
        }
    }
    let strat = (gen::text_leaf(), 0usize..1000, 0u8..4);
    for (l, k, w) in sample_values(seed, "corpus-c05", 0, n, &strat) {
        if let Some(words) = render::primary_words(&l, &mut render::Canon) {
            out.push(words.iter().map(|t| t.text.clone()).collect::<Vec<_>>().join(" "));
        }
        for c in c05::corruptions(&l, k, w) {
            out.push(c.text);
        }
    }
    out
}

/// resource-rich expressions (repeated patterns, case twins, many printers) in text form
pub fn resource_texts(seed: u64, n: usize) -> Vec<String> {
    let mut out = vec![];
    for t in sample_values(seed, "corpus-resources", 0, n, &crate::checks::c11::chain_strategy(24)) {
        if let Some(s) = render::canonical(&t) {
            out.push(s);
        }
    }
    out
}

/// formats of C14's directive-biased grammar
pub fn format_texts(seed: u64, n: usize) -> Vec<String> {
    sample_values(seed, "corpus-fmt", 0, n, &c14::gen_format()).into_iter().filter(|s| !s.contains('\'')).map(|s| format!("-printf '{s}'")).collect()
}

/// many distinct names (each takes two generated identifiers) before file/stdout actions, so that
/// identifier and tag numbers cross 255; long -type lists
pub fn many_resources_texts() -> Vec<String> {
    let mut out = vec![];
    for n in [100usize, 126, 127, 128, 129, 130, 200] {
        let names: Vec<String> = (0..n).map(|i| format!("-name p{i}")).collect();
        for tail in ["-fprint found.txt", "-print0", "-fprintf o.txt %p -fprint0 q", "-print", "-printf %p\\n -print"] {
            let s = format!("( {} ) {tail}", names.join(" -o "));
            if within_bounds(&s) {
                out.push(s);
            }
        }
    }
    let dests: Vec<String> = (0..260).map(|i| format!("-fprint o{i}")).collect();
    out.push(dests.join(" "));
    out.push("-type f,d,l,b,c,p,s,f,d".into());
    out.push("-type f,d,f,d,f,d,f,d,f,d -print".into());
    out.push("-type b,c,d,p,f,l,s,b,c,d,p,f,l,s".into());
    // grammar errors whose failing token or neighbourhood is non-ASCII
    for s in ["-name éééééé )", "( -name 日本語", "-name é , ,", "-name ééé -o", ") -name éé (", "-name 😀😀 ! )", "! ! -name ü )"] {
        out.push(s.to_string());
    }
    out.push("-type f,f,f,f,f,f,f,f,f,f,f,f,f,f,f,f,f,d -print0".into());
    out.retain(|s| within_bounds(s));
    out
}

/// deep but bounded nesting (<= 64 of '(' and '!')
pub fn nesting_texts() -> Vec<String> {
    let mut out = vec![];
    for n in [1usize, 8, 32, 63, 64] {
        out.push(format!("{}-true{}", "( ".repeat(n), " )".repeat(n)));
        out.push(format!("{}-true", "! ".repeat(n)));
        out.push(format!("{}-true", "( ".repeat(n)));
        out.push(format!("{}-true{}", "( ! ".repeat(n / 2), " )".repeat(n / 2)));
        out.push(format!("-true{}", " -o -false".repeat(n * 4)));
        out.push(format!("-true{}", " , -false".repeat(n * 4)));
    }
    // groups that hold an operator at every level, the inner group on the left or on the right of
    // it (a parser that re-reads a group on some path takes time exponential in the depth), in
    // accepted and in rejected variants (last ')' missing, one ')' too many, unknown word innermost)
    for n in [8usize, 16, 24, 32, 64] {
        for op in [" , ", " -o ", " -a ", " "] {
            for inner in ["-true", "-bogus"] {
                let left = format!("{}{inner}{}", "( ".repeat(n), format!("{op}-false )").repeat(n));
                let right = format!("{}{inner}{}", format!("( -false{op}").repeat(n), " )".repeat(n));
                let neg = format!("{}{inner}{}", "! ( ".repeat(n / 2), format!("{op}-false )").repeat(n / 2));
                for t in [left, right, neg] {
                    out.push(t[..t.len() - 2].to_string());
                    out.push(format!("{t} )"));
                    out.push(format!("{t}{op}-print"));
                    out.push(t);
                }
            }
        }
    }
    // more families of deep nesting: a prefix per level, an inner primary, a suffix per level that
    // may hold an operator, further operands and an action (work that is repeated per level - a
    // scratch compilation, a second parse - explodes only for its own shape)
    for levels in [24usize, 32, 48] {
        for prefix in ["( ", "! ( ", "( ! ", "-true ( ", "-true -o ( "] {
            for suffix in [" , -false )", " -o -true ) -quit", " -o -true ) -print", " , -true ) -fprint f", " ) -o -name x", " -a -uid 1 ) -print0", " -false ) , -true", " -o -true ) -printf %p"] {
                let t = format!("{}-true{}", prefix.repeat(levels), suffix.repeat(levels));
                out.push(t);
            }
        }
    }
    // a documented format element repeated many times before a tail that is no directive (a
    // pre-pass that re-reads the rest at every element)
    for e in ["\\012", "\\0", "\\101", "%p", "%%", "%Ak", "%{fid}", "\\\\", "\\n", "ab"] {
        for n in [35usize, 48, 200] {
            for tail in ["%z", "%", "\\", "%{", "%A", ""] {
                out.push(format!("-printf '{}{tail}'", e.repeat(n)));
                out.push(format!("-fprintf f '{}{tail}' -print", e.repeat(n)));
            }
        }
    }
    // an error followed by a long non-ASCII rest (previews and excerpts of the unread input)
    for bad in ["-uid 12x", "-perm 0777x", "-bogus", "-size 5q", "( -name a -o", "-printf %q"] {
        for n in [30usize, 62, 126, 254, 510, 1022, 1900] {
            for shift in 0..4usize {
                for mb in ["é", "日", "😀"] {
                    out.push(format!("{bad} -name {}{}", "a".repeat(shift), mb.repeat(n)));
                    out.push(format!("( -name \"{}{}\" {bad}", "a".repeat(shift), mb.repeat(n / 8 + 2)));
                }
            }
        }
    }
    // every small number of distinct patterns before a stdout or file printer of framed mode
    for m in 0..=40usize {
        let names: Vec<String> = (0..m).map(|i| format!("-name p{i}")).collect();
        let head = if m == 0 { String::new() } else { format!("( {} ) ", names.join(" -o ")) };
        for tail in ["-print0", "-fprint f -print", "-printf %p -fprint0 g"] {
            out.push(format!("{head}{tail}"));
        }
    }
    out.push("-name ".to_string() + &"x".repeat(4000));
    out.push("-printf '".to_string() + &"%p".repeat(2000) + "'");
    out.push("-true ".repeat(680));
    out
}

/// long words whose multi-byte characters straddle power-of-two byte offsets (buffers, excerpts
/// and truncation in error paths are typically cut there)
pub fn long_word_texts() -> Vec<String> {
    let mut out = vec![];
    for t in [16usize, 32, 64, 128, 256, 512, 1024, 2048, 4000] {
        for shift in 0..4usize {
            for mb in ["é", "日", "😀"] {
                if t < 8 + shift {
                    continue;
                }
                let word = format!("{}{}{}", "a".repeat(t - 1 - shift), mb, "b".repeat(6));
                for ctx in ["-{w}", "-true -{w}", "-type {w}", "-perm {w}", "-size {w}", "-uid {w}", "-name {w}", "-printf {w}", "-name {w} -bogus", "-name x -o {w}", "-fprint {w} -ls", "-xattr-match {w} {w}"] {
                    let s = ctx.replace("{w}", &word);
                    if within_bounds(&s) {
                        out.push(s);
                    }
                }
            }
        }
    }
    out
}

/// Shapes an optimiser would simplify, nested in one another: every pair of the 16 redundancy
/// shapes over a few small subtrees (dead operands inside dead operands, and so on).
pub fn redundancy_texts() -> Vec<String> {
    use crate::tree::*;
    let subs = [
        E::or(E::T(Tst::Name("a".into())), E::A(Act::Print)),
        E::not(E::not(E::A(Act::Print0))),
        E::and(E::T(Tst::Uid(Cmp::Eq, 1)), E::A(Act::FPrint("out".into()))),
        E::T(Tst::True),
    ];
    let mut out = vec![];
    for s in &subs {
        for a in 0..16u8 {
            for b in 0..16u8 {
                let t = crate::gen::redundant(crate::gen::redundant(s.clone(), a), b);
                if let Some(text) = crate::render::canonical(&t) {
                    out.push(text);
                }
            }
        }
    }
    out
}

/// Every code point of the basic plane (and a stride through the others) as a one-character and
/// as an embedded argument of the primaries that process their string (case folding, escaping,
/// matching, byte-wise arithmetic on characters): slice `shard` of `nshards`.
pub fn codepoint_texts(shard: usize, nshards: usize, out: &mut Vec<String>) {
    let mut cps: Vec<u32> = (1u32..0x1_1000).collect();
    cps.extend((0x1_1000u32..=0x10_FFFF).step_by(251));
    for (i, cp) in cps.into_iter().enumerate() {
        if i % nshards != shard {
            continue;
        }
        let Some(c) = char::from_u32(cp) else { continue };
        let q = if c == '\'' { '"' } else { '\'' };
        out.push(format!("-iname {q}{c}{q} -o -ipath {q}a{c}b*{q}{}", if i % 2 == 0 { " -print0" } else { "" }));
        match i / nshards % 3 {
            0 => out.push(format!("-name {q}{c}*{q} -o -path {q}{c}{q} -fprint0 f")),
            1 => out.push(format!("-name {q}{c}{q} -o -xattr-match {q}{c}{q} {q}x{c}{q}")),
            _ => {
                if c != '%' && c != '\\' {
                    out.push(format!("-printf {q}{c}\\n{q} -fprint {q}f{c}{q}"));
                } else {
                    out.push(format!("-pool {q}{c}{q}"));
                }
            }
        }
    }
}

/// strings made of brackets and pattern characters in every arrangement up to length 4 (a scanner
/// that looks for the matching bracket computes positions), as pattern, attribute name and value
pub fn bracket_texts() -> Vec<String> {
    let alphabet = ['[', ']', 'a', '!', '-', '*'];
    let mut words: Vec<String> = vec![String::new()];
    let mut all: Vec<String> = vec![];
    for _ in 0..4 {
        let mut next = vec![];
        for w in &words {
            for c in alphabet {
                next.push(format!("{w}{c}"));
            }
        }
        all.extend(next.iter().cloned());
        words = next;
    }
    let mut out = vec![];
    for w in all {
        if !w.contains('[') && !w.contains(']') {
            continue;
        }
        out.push(format!("-xattr-match '{w}' v"));
        out.push(format!("-xattr-match user.a '{w}'"));
        out.push(format!("-name '{w}' -o -ipath '{w}' -fprint f"));
    }
    out
}

/// the parts of the corpus that C17 takes in full (C17 samples every third input of the rest)
pub fn full_part(shard: usize, nshards: usize) -> Vec<String> {
    let mut all = vec![];
    codepoint_texts(shard, nshards, &mut all);
    for (i, t) in bracket_texts().into_iter().enumerate() {
        if i % nshards == shard {
            all.push(t);
        }
    }
    // the directed trees of the other checks in text form (twins, sibling pairs, a slice of the
    // context pairs and of the interaction triples): what is decided there in one build is run
    // here in both
    {
        let mut trees: Vec<crate::tree::E> = crate::combo::concat_twin_trees();
        trees.extend(crate::combo::escape_twin_trees());
        trees.extend(crate::combo::sibling_pairs());
        let ctxs = crate::combo::context_leaves();
        let subs = crate::combo::supported_kinds();
        for (i, c) in ctxs.iter().enumerate() {
            for (j, sb) in subs.iter().enumerate() {
                if (i * 31 + j * 7) % 8 == 0 {
                    trees.push(crate::combo::pair_skeleton(i + j, c.clone(), sb.clone()));
                }
            }
        }
        let kinds = crate::combo::all_kinds();
        let n = kinds.len();
        for i in 0..n {
            for j in 0..n {
                for k in 0..n {
                    let h = crate::util::stable_hash(&(i, j, k, 0xc17u16));
                    if h % 64 == 0 {
                        trees.push(crate::combo::skeleton((h >> 8) as usize, kinds[i].clone(), kinds[j].clone(), kinds[k].clone()));
                    }
                }
            }
        }
        for (i, t) in trees.iter().enumerate() {
            if i % nshards == shard {
                if let Some(text) = crate::render::canonical(t) {
                    all.push(text);
                }
            }
        }
    }
    // two constructs the target cannot express in one input (which of them the refusal names must
    // not depend on the build): directives before and after \c, unsupported tests and actions
    if shard == 1 % nshards {
        let dirs = ["%d", "%D", "%F", "%l", "%M", "%Y", "%Z"];
        for a in dirs {
            for b in dirs {
                for f in [format!("{a}{b}"), format!("{a}\\c{b}"), format!("\\c{a}{b}"), format!("%p{a}\\c%p{b}\\n"), format!("{a}\\c\\c{b}")] {
                    all.push(format!("-printf '{f}'"));
                    all.push(format!("-fprintf out '{f}' -ls"));
                }
            }
        }
        let prims = ["-nouser", "-nogroup", "-user u", "-group g", "-regex r", "-samefile f", "-fstype x", "-anewer f", "-ls", "-prune", "-fls f", "-printf %d", "nope"];
        for a in prims {
            for b in prims {
                for op in [" ", " -o ", " , "] {
                    all.push(format!("{a}{op}{b}"));
                    all.push(format!("-name x {a}{op}! {b} -print"));
                }
            }
        }
    }
    all.retain(|s| within_bounds(s));
    all
}

/// The whole corpus, split in `nshards` deterministic slices; returns slice `shard`.
pub fn texts(seed: u64, tier: Tier, shard: usize, nshards: usize) -> Vec<String> {
    let mut all: Vec<String> = vec![];
    let (n_grammar, n_mut_bases, n_c05, n_fmt) = tier.pick((3_000, 120, 4_000, 5_000), (60_000, 1_500, 60_000, 80_000));
    let sc = crate::util::scaled_usize;
    let (n_grammar, n_mut_bases, n_c05, n_fmt) = (sc(n_grammar), sc(n_mut_bases), sc(n_c05), sc(n_fmt));
    // sampled parts are generated per shard so that the work is spread
    let gs = grammar_texts(seed.wrapping_add(shard as u64 * 7919), n_grammar / nshards + 1);
    for (i, g) in gs.iter().enumerate() {
        if i < n_mut_bases / nshards + 1 && g.chars().count() <= 90 {
            all.extend(mutations(g));
        }
    }
    all.extend(gs);
    all.extend(c05_texts(seed.wrapping_add(shard as u64 * 104729), n_c05 / nshards + 1).into_iter().enumerate().filter(|(i, _)| i % 1 == 0).map(|(_, s)| s));
    all.extend(resource_texts(seed.wrapping_add(shard as u64 * 32452843), tier.pick(3_000, 40_000) / nshards + 1));
    all.extend(format_texts(seed.wrapping_add(shard as u64 * 15485863), n_fmt / nshards + 1));
    // systematic parts are sliced
    let mut kws: Vec<(&str, c18::Lang)> = c18::ARG_KEYWORDS.iter().take(40).cloned().collect();
    kws.push(("-true", c18::Lang::Str));
    for (i, (kw, lang)) in kws.iter().enumerate() {
        if i % nshards == shard {
            short_args(kw, *lang, &mut all);
        }
    }
    for (i, t) in numeric_texts().into_iter().enumerate() {
        if i % nshards == shard {
            all.push(t);
        }
    }
    for (i, t) in long_word_texts().into_iter().enumerate() {
        if i % nshards == shard {
            all.push(t);
        }
    }
    for (i, t) in many_resources_texts().into_iter().enumerate() {
        if i % nshards == shard {
            all.push(t);
        }
    }
    for (i, t) in redundancy_texts().into_iter().enumerate() {
        if i % nshards == shard {
            all.push(t);
        }
    }
    if shard == 0 {
        all.extend(nesting_texts());
        all.push(String::new());
        all.push(" ".into());
        for k in c05::KEYWORDS {
            all.push(k.to_string());
            all.push(format!("{k} "));
        }
    }
    all.retain(|s| within_bounds(s));
    // last: the part C17 takes in full (it identifies it by its position at the end)
    all.extend(full_part(shard, nshards));
    all
}
