//! Dictionary of "magic" tokens taken from the sources under test (the classic
//! fuzzing dictionary): placeholders of format strings such as `{mdt}` or `{}`,
//! and the string literals of the code generator.  A user string equal to one
//! of them must still be plain data.

use std::collections::BTreeSet;

fn scan(text: &str, out: &mut BTreeSet<String>) {
    let c: Vec<char> = text.chars().collect();
    let mut i = 0;
    while i < c.len() {
        if c[i] == '{' {
            // {ident}, {}, {0}, {x:02x}
            if let Some(j) = c[i..].iter().take(16).position(|x| *x == '}') {
                let tok: String = c[i..=i + j].iter().collect();
                if tok.chars().all(|x| x.is_ascii_alphanumeric() || "{}:_".contains(x)) {
                    out.insert(tok);
                }
            }
        }
        if c[i] == '"' {
            // Rust string literal (escapes kept verbatim; short ones only)
            let mut j = i + 1;
            let mut lit = String::new();
            while j < c.len() && c[j] != '"' {
                if c[j] == '\\' && j + 1 < c.len() {
                    j += 1;
                    match c[j] {
                        'n' => lit.push('\n'),
                        't' => lit.push('\t'),
                        '\\' => lit.push('\\'),
                        '"' => lit.push('"'),
                        o => lit.push(o),
                    }
                } else {
                    lit.push(c[j]);
                }
                j += 1;
            }
            if !lit.is_empty() && lit.chars().count() <= 24 && !lit.contains('\u{1e}') {
                out.insert(lit.clone());
                for w in lit.split(|x: char| x.is_whitespace() || x == '(' || x == ')') {
                    if !w.is_empty() && w.len() <= 16 {
                        out.insert(w.to_string());
                    }
                }
            }
            i = j;
        }
        i += 1;
    }
}

/// tokens from /repo/src/scheme/*.rs plus a fixed list of template-language classics
pub fn tokens() -> Vec<String> {
    static CELL: std::sync::OnceLock<Vec<String>> = std::sync::OnceLock::new();
    CELL.get_or_init(|| {
        let mut set = BTreeSet::new();
        for f in ["/repo/src/scheme/mod.rs", "/repo/src/scheme/manager.rs", "/repo/src/scheme/target_scheme.rs"] {
            if let Ok(t) = std::fs::read_to_string(f) {
                scan(&t, &mut set);
            }
        }
        for t in ["{mdt}", "{}", "{0}", "{{", "}}", "{pattern}", "{template}", "{items}", "{matcher}", "{index}", "$1", "$0", "%s", "%d", "~a", "~d", "~%", "~~", "#t", "#f", "\\0", "\\n", "#\\x1e", "%lf3:print:2", "%lf3:match:1", "line", "s", "d", "/", "/dev/mdt0", "w"] {
            set.insert(t.to_string());
        }
        set.into_iter().filter(|t| !t.is_empty()).collect()
    })
    .clone()
}
