//! Dictionary of "magic" tokens taken from the sources under test (the classic
//! fuzzing dictionary): placeholders of format strings such as `{mdt}` or `{}`,
//! and the string literals of the code generator.  A user string equal to one
//! of them must still be plain data.

use std::collections::BTreeSet;

fn scan(text: &str, out: &mut BTreeSet<String>) {
    let c: Vec<char> = text.chars().collect();
    let mut i = 0;
    while i < c.len() {
        if c[i] == '{' {
            // {ident}, {}, {0}, {x:02x}
            if let Some(j) = c[i..].iter().take(16).position(|x| *x == '}') {
                let tok: String = c[i..=i + j].iter().collect();
                if tok.chars().all(|x| x.is_ascii_alphanumeric() || "{}:_".contains(x)) {
                    out.insert(tok);
                }
            }
        }
        if c[i] == '"' {
            // Rust string literal (escapes kept verbatim; short ones only)
            let mut j = i + 1;
            let mut lit = String::new();
            while j < c.len() && c[j] != '"' {
                if c[j] == '\\' && j + 1 < c.len() {
                    j += 1;
                    match c[j] {
                        'n' => lit.push('\n'),
                        't' => lit.push('\t'),
                        '\\' => lit.push('\\'),
                        '"' => lit.push('"'),
                        o => lit.push(o),
                    }
                } else {
                    lit.push(c[j]);
                }
                j += 1;
            }
            if !lit.is_empty() && lit.chars().count() <= 24 && !lit.contains('\u{1e}') {
                out.insert(lit.clone());
                for w in lit.split(|x: char| x.is_whitespace() || x == '(' || x == ')' || x == '"') {
                    if !w.is_empty() && w.len() <= 16 {
                        out.insert(w.to_string());
                    }
                }
            }
            i = j;
        }
        i += 1;
    }
}

fn rust_files(dir: &std::path::Path, out: &mut Vec<std::path::PathBuf>) {
    let Ok(rd) = std::fs::read_dir(dir) else { return };
    let mut entries: Vec<_> = rd.filter_map(|e| e.ok()).map(|e| e.path()).collect();
    entries.sort();
    for p in entries {
        if p.is_dir() {
            rust_files(&p, out);
        } else if p.extension().map(|e| e == "rs").unwrap_or(false) {
            out.push(p);
        }
    }
}

/// tokens from every source file of the crate under test plus a fixed list of template-language classics
pub fn tokens() -> Vec<String> {
    static CELL: std::sync::OnceLock<Vec<String>> = std::sync::OnceLock::new();
    CELL.get_or_init(|| {
        let mut set = BTreeSet::new();
        let mut files = vec![];
        rust_files(std::path::Path::new(&crate::util::repo_src()), &mut files);
        for f in files {
            if let Ok(t) = std::fs::read_to_string(&f) {
                // the unit tests at the end of the files are not part of the generator
                let t = t.split("#[cfg(test)]").next().unwrap_or("").to_string();
                scan(&t, &mut set);
            }
        }
        for t in ["{mdt}", "{}", "{0}", "{{", "}}", "{pattern}", "{template}", "{items}", "{matcher}", "{index}", "$1", "$0", "%s", "%d", "~a", "~d", "~%", "~~", "#t", "#f", "\\0", "\\n", "#\\x1e", "%lf3:print:2", "%lf3:match:1", "line", "s", "d", "/", "/dev/mdt0", "w"] {
            set.insert(t.to_string());
        }
        // templates with holes, instantiated with the numbers a generator would put there (small
        // indexes and the extreme values of the integer types): `%lf3:print:{}` -> `%lf3:print:0`,
        // `...:{}` -> `...:4294967295` (a sentinel built with `format!("..{}", u32::MAX)` is such a token)
        let templates: Vec<String> = set.iter().filter(|t| t.contains('{') && t.contains('}') && t.len() > 2 && !t.starts_with('{')).cloned().collect();
        for t in templates {
            for v in ["0", "1", "2", "3", "255", "256", "65535", "2147483647", "4294967295", "18446744073709551615", "-1"] {
                let mut out = String::new();
                let mut rest = t.as_str();
                let mut ok = false;
                while let Some(i) = rest.find('{') {
                    match rest[i..].find('}') {
                        Some(j) if j <= 12 => {
                            out.push_str(&rest[..i]);
                            out.push_str(v);
                            rest = &rest[i + j + 1..];
                            ok = true;
                        }
                        _ => break,
                    }
                }
                out.push_str(rest);
                if ok && out.len() <= 40 {
                    set.insert(out);
                }
            }
        }
        set.into_iter().filter(|t| !t.is_empty()).collect()
    })
    .clone()
}

/// dictionary tokens that are plain words (letters, digits, '-', '_', '.'): usable as names
pub fn words() -> Vec<String> {
    let mut set = BTreeSet::new();
    for t in tokens() {
        for w in t.split(|c: char| !(c.is_ascii_alphanumeric() || c == '-' || c == '_' || c == '.')) {
            if w.len() >= 2 && w.len() <= 16 {
                set.insert(w.to_string());
            }
        }
    }
    for w in ["fid", "projid", "mirror-count", "stripe-count", "stripe-size", "xattr", "mdt", "stdout", "stderr"] {
        set.insert(w.to_string());
    }
    set.into_iter().collect()
}

/// dictionary tokens usable as name/path patterns of a command line: representable as an
/// argument word, no backslash (an fnmatch escape), no control character
pub fn names() -> Vec<String> {
    let mut v: Vec<String> = tokens()
        .into_iter()
        .filter(|t| !t.contains('\\') && !t.chars().any(|c| c.is_control()) && crate::render::representable(t) && !t.starts_with('-') && t.trim() == t)
        .collect();
    v.sort();
    v.dedup();
    v
}

/// dictionary tokens that look like file-system paths (plus the classic special files)
pub fn paths() -> Vec<String> {
    let mut set = BTreeSet::new();
    for t in tokens() {
        if t.contains('/') && !t.contains(' ') && !t.contains('{') && t.len() <= 24 {
            set.insert(t);
        }
    }
    for w in ["/dev/stdout", "/dev/stderr", "/dev/null", "-", "/dev/fd/1", "/proc/self/fd/1", "."] {
        set.insert(w.to_string());
    }
    set.into_iter().collect()
}
