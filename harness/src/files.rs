//! File records the policies are evaluated on, and generators for them:
//! directed at the constants of an expression, and random.

use crate::tree::*;
use proptest::prelude::*;

#[derive(Debug, Clone, PartialEq, Eq, Hash)]
pub struct FileRec {
    pub rel_path: String,
    pub mount: String,
    /// st_mode: file type bits | 12 permission bits
    pub mode: u32,
    pub uid: u32,
    pub gid: u32,
    pub ino: u64,
    pub nlink: u64,
    pub size: u64,
    pub blocks: u64,
    pub atime: u64,
    pub ctime: u64,
    pub mtime: u64,
    pub projid: u32,
    pub fid: String,
    pub pools: Vec<String>,
    pub xattrs: Vec<(String, String)>,
    pub stripe_count: u32,
    pub stripe_size: u64,
    pub mirror_count: u32,
    pub empty: bool,
    pub readable: bool,
    pub writable: bool,
    pub executable: bool,
}

impl FileRec {
    pub fn base(now: u64) -> FileRec {
        FileRec {
            rel_path: "dir/sub/file.txt".into(),
            mount: "/mnt/lustre".into(),
            mode: 0o100644,
            uid: 1000,
            gid: 100,
            ino: 4242,
            nlink: 3,
            size: 4096,
            blocks: 8,
            atime: now.saturating_sub(1_000),
            ctime: now.saturating_sub(20_000),
            mtime: now.saturating_sub(300_000),
            projid: 7,
            fid: "[0x200000401:0x1:0x0]".into(),
            pools: vec!["pool1".into()],
            xattrs: vec![("user.tag".into(), "v1".into())],
            // every numeric attribute of the base record is different from every other one, so that
            // a comparison or a directive reading the wrong attribute shows on the very first file
            stripe_count: 4,
            stripe_size: 1 << 20,
            mirror_count: 2,
            empty: false,
            readable: true,
            writable: true,
            executable: false,
        }
    }
    pub fn name(&self) -> &str {
        self.rel_path.rsplit('/').next().unwrap_or(&self.rel_path)
    }
    pub fn abs_path(&self) -> String {
        format!("{}/{}", self.mount, self.rel_path)
    }
    pub fn xattr(&self, name: &str) -> Option<&str> {
        self.xattrs.iter().find(|(k, _)| k == name).map(|(_, v)| v.as_str())
    }
    pub fn with_name(&self, name: &str) -> FileRec {
        let mut f = self.clone();
        let dir = match f.rel_path.rfind('/') {
            Some(p) => f.rel_path[..=p].to_string(),
            None => String::new(),
        };
        f.rel_path = format!("{dir}{name}");
        f
    }
    pub fn summary(&self) -> String {
        format!(
            "{{path={:?} mode={:o} uid={} gid={} ino={} nlink={} size={} blocks={} a/c/m={}/{}/{} projid={} pools={:?} xattrs={:?} sc={} ss={} mc={} e/r/w/x={}{}{}{}}}",
            self.rel_path,
            self.mode,
            self.uid,
            self.gid,
            self.ino,
            self.nlink,
            self.size,
            self.blocks,
            self.atime,
            self.ctime,
            self.mtime,
            self.projid,
            self.pools,
            self.xattrs,
            self.stripe_count,
            self.stripe_size,
            self.mirror_count,
            self.empty as u8,
            self.readable as u8,
            self.writable as u8,
            self.executable as u8
        )
    }
}

/// A string matching a glob pattern (best effort): '*' -> "zz", '?' -> 'q', bracket -> first member.
pub fn instance_of(pattern: &str) -> String {
    let p: Vec<char> = pattern.chars().collect();
    let mut out = String::new();
    let mut i = 0;
    while i < p.len() {
        match p[i] {
            '*' => out.push_str("zz"),
            '?' => out.push('q'),
            '[' => {
                // find the closing bracket
                let mut j = i + 1;
                let neg = j < p.len() && (p[j] == '!' || p[j] == '^');
                if neg {
                    j += 1;
                }
                let start = j;
                let mut k = j;
                if k < p.len() && p[k] == ']' {
                    k += 1;
                }
                while k < p.len() && p[k] != ']' {
                    k += 1;
                }
                if k < p.len() {
                    if neg {
                        out.push('~');
                    } else {
                        out.push(p[start]);
                    }
                    i = k;
                } else {
                    out.push('[');
                }
            }
            c => out.push(c),
        }
        i += 1;
    }
    out
}

fn swap_case(s: &str) -> String {
    s.chars()
        .map(|c| {
            if c.is_lowercase() {
                c.to_uppercase().next().unwrap_or(c)
            } else if c.is_uppercase() {
                c.to_lowercase().next().unwrap_or(c)
            } else {
                c
            }
        })
        .collect()
}

fn name_probes(pattern: &str) -> Vec<String> {
    let inst = instance_of(pattern);
    let mut v = vec![inst.clone(), swap_case(&inst), pattern.to_string(), format!("x{inst}"), format!("{inst}x")];
    if inst.chars().count() > 1 {
        let mut dropped: Vec<char> = inst.chars().collect();
        dropped.pop();
        v.push(dropped.into_iter().collect());
    }
    // the shortest instance ('*' matches nothing) and the name one character shorter than it:
    // the boundary of patterns made of wildcards only (`*??` needs two characters)
    let shortest: String = instance_of(&pattern.replace('*', ""));
    if !shortest.is_empty() {
        let mut s1: Vec<char> = shortest.chars().collect();
        v.push(shortest.clone());
        s1.pop();
        if !s1.is_empty() {
            v.push(s1.into_iter().collect());
        }
    }
    v.push("a".to_string());
    v.push("é".to_string());
    // one-character names on both sides of the letter ranges (bracket ranges with punctuation end
    // points tell the cases apart; case folding of a range is the matcher's business)
    for n in ["A", "Z", "z", "_", "0", "~", "É"] {
        v.push(n.to_string());
    }
    let mut changed: Vec<char> = inst.chars().collect();
    if let Some(c) = changed.first_mut() {
        *c = if *c == 'k' { 'j' } else { 'k' };
    }
    v.push(changed.into_iter().collect());
    v.retain(|s| !s.is_empty() && !s.contains('\0'));
    v
}

fn sat_u64(c: Cmp, n: u64) -> u64 {
    match c {
        Cmp::Eq => n,
        Cmp::Gt => n.saturating_add(1),
        Cmp::Lt => n.saturating_sub(1),
    }
}

/// File set directed at every constant of `e` (DESIGN.md 3.5).
pub fn directed(e: &E, now: u64) -> Vec<FileRec> {
    // a base that tries to satisfy every leaf (later leaves win)
    let mut base = FileRec::base(now);
    for leaf in e.leaves() {
        if let E::T(t) = leaf {
            match t {
                Tst::Time(w, c, n, u) => {
                    let age = sat_u64(*c, *n).saturating_mul(u.secs()).min(now);
                    let t = now - age;
                    match w {
                        Which::A => base.atime = t,
                        Which::C => base.ctime = t,
                        Which::M => base.mtime = t,
                    }
                }
                Tst::Gid(c, n) => base.gid = sat_u64(*c, *n as u64).min(u32::MAX as u64) as u32,
                Tst::Uid(c, n) => base.uid = sat_u64(*c, *n as u64).min(u32::MAX as u64) as u32,
                Tst::Inum(c, n) => base.ino = sat_u64(*c, *n as u64),
                Tst::MirrorCount(c, n) => base.mirror_count = sat_u64(*c, *n as u64).min(u32::MAX as u64) as u32,
                Tst::StripeCount(c, n) => base.stripe_count = sat_u64(*c, *n as u64).min(u32::MAX as u64) as u32,
                Tst::Links(c, n) => base.nlink = sat_u64(*c, *n),
                Tst::Size(c, n, u) => base.size = sat_u64(*c, *n).saturating_mul(u.bytes()),
                Tst::Name(p) | Tst::IName(p) => base = base.with_name(&instance_of(p)),
                Tst::Path(p) | Tst::IPath(p) => base.rel_path = instance_of(p),
                Tst::Pool(p) => base.pools = vec![p.clone()],
                Tst::Xattr(a) => base.xattrs = vec![(a.clone(), "v".into())],
                Tst::XattrMatch(a, v) => base.xattrs = vec![(instance_of(a), instance_of(v))],
                Tst::Type(v) => {
                    if let Some(t) = v.first() {
                        base.mode = (base.mode & 0o7777) | t.bits();
                    }
                }
                Tst::Perm(_, m) => base.mode = (base.mode & !0o7777) | (m & 0o7777),
                Tst::Empty => base.empty = true,
                Tst::Executable => base.executable = true,
                Tst::Readable => base.readable = true,
                Tst::Writable => base.writable = true,
                _ => {}
            }
        }
    }
    let mut out = vec![base.clone(), FileRec::base(now)];
    for leaf in e.leaves() {
        let E::T(t) = leaf else { continue };
        match t {
            Tst::Time(w, _, n, u) => {
                let s = u.secs() as u128;
                let n = *n as u128;
                let mut ages: Vec<u128> = vec![n * s, n * s + 1, (n + 1) * s, (n + 1) * s + 1, 0];
                if n * s >= 1 {
                    ages.push(n * s - 1);
                }
                if (n + 1) * s >= 1 {
                    ages.push((n + 1) * s - 1);
                }
                if n >= 1 {
                    ages.push((n - 1) * s);
                    ages.push((n - 1) * s + s - 1);
                }
                for age in ages {
                    if age <= now as u128 {
                        let mut f = base.clone();
                        let t = now - age as u64;
                        match w {
                            Which::A => f.atime = t,
                            Which::C => f.ctime = t,
                            Which::M => f.mtime = t,
                        }
                        out.push(f);
                    }
                }
            }
            Tst::Gid(_, n) | Tst::Uid(_, n) | Tst::Inum(_, n) | Tst::MirrorCount(_, n) | Tst::StripeCount(_, n) => {
                let n = *n as u64;
                for v in [n.saturating_sub(1), n, n + 1, 0] {
                    let mut f = base.clone();
                    match t {
                        Tst::Gid(..) => f.gid = v.min(u32::MAX as u64) as u32,
                        Tst::Uid(..) => f.uid = v.min(u32::MAX as u64) as u32,
                        Tst::Inum(..) => f.ino = v,
                        Tst::MirrorCount(..) => f.mirror_count = v.min(u32::MAX as u64) as u32,
                        _ => f.stripe_count = v.min(u32::MAX as u64) as u32,
                    }
                    out.push(f);
                }
            }
            Tst::Links(_, n) => {
                for v in [n.saturating_sub(1), *n, n.saturating_add(1)] {
                    let mut f = base.clone();
                    f.nlink = v;
                    out.push(f);
                }
            }
            Tst::Size(_, n, u) => {
                let b = u.bytes() as u128;
                let n = *n as u128;
                let mut sizes: Vec<u128> = vec![n * b, n * b + 1, (n + 1) * b, (n + 1) * b + 1, 0, 1];
                if n * b >= 1 {
                    sizes.push(n * b - 1);
                }
                if n >= 1 {
                    sizes.push((n - 1) * b);
                    sizes.push((n - 1) * b + 1);
                }
                for s in sizes {
                    if s <= u64::MAX as u128 {
                        let mut f = base.clone();
                        f.size = s as u64;
                        out.push(f);
                    }
                }
            }
            Tst::Name(p) | Tst::IName(p) => {
                for n in name_probes(p) {
                    if !n.contains('/') {
                        out.push(base.with_name(&n));
                    }
                }
            }
            Tst::Path(p) | Tst::IPath(p) => {
                for n in name_probes(p) {
                    let mut f = base.clone();
                    f.rel_path = n;
                    out.push(f);
                }
            }
            Tst::Pool(p) => {
                for pools in [vec![], vec![p.clone()], vec!["other".to_string()], vec!["other".to_string(), p.clone()], vec![swap_case(p)], vec![format!("{p}x")]] {
                    let mut f = base.clone();
                    f.pools = pools;
                    out.push(f);
                }
            }
            Tst::Xattr(a) => {
                for x in [vec![], vec![(a.clone(), "v".to_string())], vec![("other".to_string(), "v".to_string())], vec![(format!("{a}x"), "v".to_string())]] {
                    let mut f = base.clone();
                    f.xattrs = x;
                    out.push(f);
                }
            }
            Tst::XattrMatch(a, v) => {
                let (ia, iv) = (instance_of(a), instance_of(v));
                for x in [
                    vec![],
                    vec![(ia.clone(), iv.clone())],
                    vec![(ia.clone(), format!("{iv}x"))],
                    vec![(ia.clone(), swap_case(&iv))],
                    vec![("other".to_string(), iv.clone())],
                    vec![(ia.clone(), v.clone())],
                ] {
                    let mut f = base.clone();
                    f.xattrs = x;
                    out.push(f);
                }
            }
            Tst::Type(_) => {
                for t in FT::ALL {
                    let mut f = base.clone();
                    f.mode = (f.mode & 0o7777) | t.bits();
                    out.push(f);
                }
            }
            Tst::Perm(_, m) => {
                let m = m & 0o7777;
                let mut modes = vec![m, 0, 0o7777];
                for b in 0..12 {
                    modes.push(m ^ (1 << b));
                }
                for pm in modes {
                    let mut f = base.clone();
                    f.mode = (f.mode & !0o7777) | pm;
                    out.push(f.clone());
                    f.mode = 0o040000 | pm;
                    out.push(f);
                }
            }
            Tst::Empty | Tst::Executable | Tst::Readable | Tst::Writable => {
                for b in [false, true] {
                    let mut f = base.clone();
                    match t {
                        Tst::Empty => f.empty = b,
                        Tst::Executable => f.executable = b,
                        Tst::Readable => f.readable = b,
                        _ => f.writable = b,
                    }
                    out.push(f);
                }
            }
            _ => {}
        }
    }
    out.dedup();
    out
}

pub fn random_file(now: u64) -> BoxedStrategy<FileRec> {
    let ids = (
        prop_oneof![Just(0u32), 0u32..2000, any::<u32>()],
        prop_oneof![Just(0u32), 0u32..2000, any::<u32>()],
        prop_oneof![0u64..100000, any::<u32>().prop_map(|v| v as u64), any::<u64>()],
        prop_oneof![1u64..5, any::<u64>()],
        0u32..100,
    );
    let sizes = (prop_oneof![Just(0u64), 1u64..10000, 1u64..(1 << 45), any::<u64>()], 0u64..(1 << 40));
    let times = (0u64..=now, 0u64..=now, 0u64..=now, 0u64..700_000u64, 0u8..4);
    let path = prop_oneof![
        prop::sample::select(vec!["a", "foo", "Foo", "dir/sub/x", "a.c", "a.C", "dir/foo", "x/y/z.bin", "DATA.BIN", "héllo"]).prop_map(|s| s.to_string()),
        "[a-cA-C./]{1,8}".prop_filter("path component", |s| !s.starts_with('/') && !s.ends_with('/') && !s.contains("//")),
    ];
    let lov = (
        prop::collection::vec(prop::sample::select(vec!["pool1", "ssd", "a", "b"]).prop_map(|s| s.to_string()), 0..3),
        prop::collection::vec((prop::sample::select(vec!["user.tag", "tag", "user", "a", "trusted.lov"]).prop_map(|s| s.to_string()), prop::sample::select(vec!["v1", "a", "x", "foo", ""]).prop_map(|s| s.to_string())), 0..3),
        0u32..6,
        prop_oneof![Just(1u64 << 20), Just(65536u64), any::<u32>().prop_map(|v| v as u64)],
        0u32..4,
    );
    let flags = (any::<bool>(), any::<bool>(), any::<bool>(), any::<bool>());
    (ids, sizes, times, path, (prop::sample::select(FT::ALL.to_vec()), 0u32..0o10000), lov, flags)
        .prop_map(move |((uid, gid, ino, nlink, projid), (size, blocks), (a, c, m, recent, which), path, (ft, perm), (pools, mut xattrs, sc, ss, mc), (e, r, w, x))| {
            // half of the time make one timestamp recent so small time constants are hit
            let (mut a, mut c, mut m) = (a, c, m);
            match which {
                0 => a = now.saturating_sub(recent),
                1 => c = now.saturating_sub(recent),
                2 => m = now.saturating_sub(recent),
                _ => {}
            }
            xattrs.dedup_by(|x, y| x.0 == y.0);
            let mut seen = std::collections::HashSet::new();
            xattrs.retain(|x| seen.insert(x.0.clone()));
            FileRec {
                rel_path: path,
                mount: "/mnt/lustre".into(),
                mode: ft.bits() | perm,
                uid,
                gid,
                ino,
                nlink,
                size,
                blocks,
                atime: a,
                ctime: c,
                mtime: m,
                projid,
                fid: format!("[0x2000{:05x}:0x{:x}:0x0]", ino % 0xfffff, uid % 0xffff),
                pools,
                xattrs,
                stripe_count: sc,
                stripe_size: ss,
                mirror_count: mc,
                empty: e,
                readable: r,
                writable: w,
                executable: x,
            }
        })
        .boxed()
}

// ---------------------------------------------------------------------------
// replay encoding

use serde_json::{json, Value};

pub const PLACEHOLDER_NOW: u64 = 2_000_000_000;

/// Shift the timestamps of a record generated against `from` so that ages are preserved against `to`.
pub fn rebase(f: &FileRec, from: u64, to: u64) -> FileRec {
    let mut g = f.clone();
    let sh = |t: u64| to.saturating_sub(from.saturating_sub(t));
    g.atime = sh(f.atime);
    g.ctime = sh(f.ctime);
    g.mtime = sh(f.mtime);
    g
}

pub fn file_to_json(f: &FileRec) -> Value {
    json!({
        "rel_path": f.rel_path, "mount": f.mount, "mode": f.mode, "uid": f.uid, "gid": f.gid, "ino": f.ino, "nlink": f.nlink,
        "size": f.size, "blocks": f.blocks, "atime": f.atime, "ctime": f.ctime, "mtime": f.mtime, "projid": f.projid, "fid": f.fid,
        "pools": f.pools, "xattrs": f.xattrs.iter().map(|(a, b)| json!([a, b])).collect::<Vec<_>>(),
        "stripe_count": f.stripe_count, "stripe_size": f.stripe_size, "mirror_count": f.mirror_count,
        "empty": f.empty, "readable": f.readable, "writable": f.writable, "executable": f.executable,
    })
}

pub fn file_from_json(v: &Value) -> Result<FileRec, String> {
    let s = |k: &str| v[k].as_str().map(|x| x.to_string()).ok_or_else(|| format!("file record: missing {k}"));
    let n = |k: &str| v[k].as_u64().ok_or_else(|| format!("file record: missing {k}"));
    let b = |k: &str| v[k].as_bool().ok_or_else(|| format!("file record: missing {k}"));
    Ok(FileRec {
        rel_path: s("rel_path")?,
        mount: s("mount")?,
        mode: n("mode")? as u32,
        uid: n("uid")? as u32,
        gid: n("gid")? as u32,
        ino: n("ino")?,
        nlink: n("nlink")?,
        size: n("size")?,
        blocks: n("blocks")?,
        atime: n("atime")?,
        ctime: n("ctime")?,
        mtime: n("mtime")?,
        projid: n("projid")? as u32,
        fid: s("fid")?,
        pools: v["pools"].as_array().ok_or("pools")?.iter().filter_map(|x| x.as_str().map(|s| s.to_string())).collect(),
        xattrs: v["xattrs"].as_array().ok_or("xattrs")?.iter().filter_map(|x| Some((x[0].as_str()?.to_string(), x[1].as_str()?.to_string()))).collect(),
        stripe_count: n("stripe_count")? as u32,
        stripe_size: n("stripe_size")?,
        mirror_count: n("mirror_count")? as u32,
        empty: b("empty")?,
        readable: b("readable")?,
        writable: b("writable")?,
        executable: b("executable")?,
    })
}
