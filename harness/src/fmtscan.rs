//! Linear scanner for find's -printf mini-language, written from find(1) and the
//! documentation comments of `ast::FormatSpecial` / `ast::FormatField`.

use crate::tree::{Esc, FEl, Fld};

fn is_oct(c: char) -> bool {
    ('0'..='7').contains(&c)
}

/// `strict3`: an octal escape is exactly three digits (the `\NNN` of ast.rs);
/// otherwise find(1)'s reading: one to three digits.
fn scan_with(s: &str, strict3: bool) -> Result<Vec<FEl>, String> {
    let c: Vec<char> = s.chars().collect();
    let mut out: Vec<FEl> = vec![];
    let mut lit = String::new();
    let mut i = 0;
    macro_rules! flush {
        () => {
            if !lit.is_empty() {
                out.push(FEl::Lit(std::mem::take(&mut lit)));
            }
        };
    }
    while i < c.len() {
        match c[i] {
            '%' => {
                let rest: String = c[i + 1..].iter().collect();
                let (f, used) = directive(&rest).ok_or_else(|| format!("unknown directive at {i}"))?;
                flush!();
                out.push(FEl::F(f));
                i += 1 + used;
            }
            '\\' => {
                flush!();
                let n_oct = c[i + 1..].iter().take(3).take_while(|c| is_oct(**c)).count();
                let take = if strict3 {
                    if n_oct == 3 {
                        3
                    } else {
                        0
                    }
                } else {
                    n_oct
                };
                if take > 0 && !(take == 1 && c[i + 1] == '0') {
                    let v = c[i + 1..i + 1 + take].iter().fold(0u16, |a, d| a * 8 + d.to_digit(8).unwrap() as u16);
                    out.push(FEl::E(Esc::Ascii(v)));
                    i += 1 + take;
                    continue;
                }
                let e = match c.get(i + 1) {
                    Some('a') => Some(Esc::Alarm),
                    Some('b') => Some(Esc::Backspace),
                    Some('c') => Some(Esc::Clear),
                    Some('f') => Some(Esc::Form),
                    Some('n') => Some(Esc::Newline),
                    Some('r') => Some(Esc::CarriageReturn),
                    Some('t') => Some(Esc::Tab),
                    Some('v') => Some(Esc::VTab),
                    Some('0') => Some(Esc::Null),
                    Some('\\') => Some(Esc::Backslash),
                    _ => None,
                };
                match e {
                    Some(e) => {
                        out.push(FEl::E(e));
                        i += 2;
                    }
                    None => {
                        // a backslash before any other character (or at the end) stands for itself
                        out.push(FEl::E(Esc::Backslash));
                        i += 1;
                    }
                }
            }
            ch => {
                lit.push(ch);
                i += 1;
            }
        }
    }
    flush!();
    Ok(out)
}

/// Directive table: text after '%' -> (field, characters consumed).
fn directive(rest: &str) -> Option<(Fld, usize)> {
    let mut it = rest.chars();
    let c = it.next()?;
    let simple = |f: Fld| Some((f, 1));
    match c {
        '%' => simple(Fld::Percent),
        'a' => simple(Fld::Access),
        'b' => simple(Fld::Blocks),
        'c' => simple(Fld::Change),
        'd' => simple(Fld::Depth),
        'D' => simple(Fld::DevNum),
        'f' => simple(Fld::Basename),
        'F' => simple(Fld::FsType),
        'g' => simple(Fld::Group),
        'G' => simple(Fld::GroupId),
        'h' => simple(Fld::Parents),
        'H' => simple(Fld::StartingPoint),
        'i' => simple(Fld::Inode),
        'k' => simple(Fld::Kilos),
        'l' => simple(Fld::SymTarget),
        'm' => simple(Fld::PermOctal),
        'M' => simple(Fld::PermSymbolic),
        'n' => simple(Fld::Hardlinks),
        'p' => simple(Fld::Name),
        'P' => simple(Fld::NameNoStart),
        's' => simple(Fld::Bytes),
        'S' => simple(Fld::Sparseness),
        't' => simple(Fld::Modify),
        'u' => simple(Fld::User),
        'U' => simple(Fld::UserId),
        'y' => simple(Fld::Type),
        'Y' => simple(Fld::TypeSymlink),
        'Z' => simple(Fld::SecCtx),
        'A' => it.next().map(|k| (Fld::AccessFmt(k), 2)),
        'C' => it.next().map(|k| (Fld::ChangeFmt(k), 2)),
        'T' => it.next().map(|k| (Fld::ModifyFmt(k), 2)),
        '{' => {
            let close = rest.find('}')?;
            let inner = &rest[1..close];
            let used = rest[..=close].chars().count();
            match inner {
                "fid" => Some((Fld::Fid, used)),
                "projid" => Some((Fld::ProjId, used)),
                "mirror-count" => Some((Fld::MirrorCount, used)),
                "stripe-count" => Some((Fld::StripeCount, used)),
                "stripe-size" => Some((Fld::StripeSize, used)),
                _ => {
                    let name = inner.strip_prefix("xattr:")?;
                    if !name.is_empty() && name.chars().all(|c| c.is_ascii_alphabetic()) {
                        Some((Fld::XAttr(name.to_string()), used))
                    } else {
                        None
                    }
                }
            }
        }
        _ => None,
    }
}

/// The acceptable segmentations of `s` (one, or two where the documentation
/// admits two readings of a one/two-digit octal escape), or Err for a string
/// that is not a format (unknown directive).
pub fn scan(s: &str) -> Result<Vec<Vec<FEl>>, String> {
    let a = scan_with(s, true)?;
    let b = scan_with(s, false)?;
    if a == b {
        Ok(vec![a])
    } else {
        Ok(vec![a, b])
    }
}

/// Does the name of a `%{xattr:NAME}` directive in `s` use characters whose
/// status is undocumented (anything but ASCII letters)?  Such strings are not
/// asserted either way.
pub fn has_undocumented_xattr_name(s: &str) -> bool {
    let mut rest = s;
    while let Some(p) = rest.find("%{xattr:") {
        let after = &rest[p + 8..];
        match after.find('}') {
            Some(q) => {
                let name = &after[..q];
                if name.is_empty() || !name.chars().all(|c| c.is_ascii_alphabetic()) {
                    return true;
                }
                rest = &after[q..];
            }
            None => return true,
        }
    }
    false
}
