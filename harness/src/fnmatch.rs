//! POSIX fnmatch(3) without flags (as find's -name/-path use it: no special
//! treatment of '/' or a leading '.'), plus case folding for the -i variants.
//! Backslash escapes are outside the generated domain.

fn fold(c: char, ci: bool) -> char {
    if ci {
        c.to_lowercase().next().unwrap_or(c)
    } else {
        c
    }
}

/// Parse a bracket expression starting after '['. Returns (matches c?, index after ']') or None if unterminated.
fn bracket(p: &[char], mut i: usize, c: char, ci: bool) -> Option<(bool, usize)> {
    let mut neg = false;
    if i < p.len() && (p[i] == '!' || p[i] == '^') {
        neg = true;
        i += 1;
    }
    let mut matched = false;
    let mut first = true;
    let cf = fold(c, ci);
    loop {
        if i >= p.len() {
            return None;
        }
        if p[i] == ']' && !first {
            return Some((matched != neg, i + 1));
        }
        first = false;
        let lo = p[i];
        if i + 2 < p.len() && p[i + 1] == '-' && p[i + 2] != ']' {
            let hi = p[i + 2];
            if (lo..=hi).contains(&c) || (fold(lo, ci)..=fold(hi, ci)).contains(&cf) {
                matched = true;
            }
            i += 3;
        } else {
            if fold(lo, ci) == cf {
                matched = true;
            }
            i += 1;
        }
    }
}

fn m(p: &[char], s: &[char], ci: bool) -> bool {
    let (mut pi, mut si) = (0usize, 0usize);
    // iterative with backtracking on the last '*'
    let mut star: Option<(usize, usize)> = None;
    loop {
        if pi < p.len() {
            match p[pi] {
                '*' => {
                    star = Some((pi + 1, si));
                    pi += 1;
                    continue;
                }
                '?' => {
                    if si < s.len() {
                        pi += 1;
                        si += 1;
                        continue;
                    }
                }
                '[' => {
                    if si < s.len() {
                        match bracket(p, pi + 1, s[si], ci) {
                            Some((true, next)) => {
                                pi = next;
                                si += 1;
                                continue;
                            }
                            Some((false, _)) => {}
                            None => {
                                // unterminated: '[' is an ordinary character
                                if s[si] == '[' {
                                    pi += 1;
                                    si += 1;
                                    continue;
                                }
                            }
                        }
                    }
                }
                c => {
                    if si < s.len() && fold(c, ci) == fold(s[si], ci) {
                        pi += 1;
                        si += 1;
                        continue;
                    }
                }
            }
        } else if si == s.len() {
            return true;
        }
        // mismatch: backtrack
        match star {
            Some((sp, ss)) if ss < s.len() => {
                star = Some((sp, ss + 1));
                pi = sp;
                si = ss + 1;
            }
            _ => return false,
        }
    }
}

pub fn fnmatch(pattern: &str, s: &str, ci: bool) -> bool {
    let p: Vec<char> = pattern.chars().collect();
    let s: Vec<char> = s.chars().collect();
    m(&p, &s, ci)
}

#[cfg(test)]
mod tests {
    use super::fnmatch;
    #[test]
    fn basics() {
        assert!(fnmatch("*.c", "a.c", false));
        assert!(!fnmatch("*.c", "a.C", false));
        assert!(fnmatch("*.c", "a.C", true));
        assert!(fnmatch("f?o", "foo", false));
        assert!(fnmatch("[ab]", "a", false));
        assert!(!fnmatch("[!a]*", "abc", false));
        assert!(fnmatch("[a-c]x", "bx", false));
        assert!(fnmatch("dir/*", "dir/sub/x", false));
        assert!(fnmatch("*", "", false));
        assert!(!fnmatch("?", "", false));
        assert!(fnmatch("foo", "foo", false));
        assert!(!fnmatch("foo", "Foo", false));
        assert!(fnmatch("a*b*c", "aXbYbZc", false));
    }
}
