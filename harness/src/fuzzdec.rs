//! Decoders from fuzzer bytes to structured cases, shared by the libFuzzer
//! targets in /verif/fuzz and by the corpus replay of the quick tier.

use crate::checks::{c01, c03, c14};
use crate::grammar::W;
use crate::tree::*;
use crate::util::Verdict;

pub fn total_case(data: &[u8]) -> Option<String> {
    let s = std::str::from_utf8(data).ok()?;
    if crate::corpus::within_bounds(s) {
        Some(s.to_string())
    } else {
        None
    }
}

pub fn fmt_case(data: &[u8]) -> Option<String> {
    let s = std::str::from_utf8(data).ok()?;
    if s.is_empty() || s.len() > 200 || s.contains('\'') {
        return None;
    }
    Some(s.to_string())
}

/// one byte per word (mod 11)
pub fn grammar_case(data: &[u8]) -> Option<Vec<W>> {
    if data.is_empty() || data.len() > 64 {
        return None;
    }
    let al = [
        W::LP,
        W::RP,
        W::Not,
        W::Comma,
        W::And(false),
        W::And(true),
        W::Or(false),
        W::Or(true),
        W::Prim(E::T(Tst::True)),
        W::Prim(E::T(Tst::Name("x".into()))),
        W::Prim(E::A(Act::Print)),
    ];
    Some(data.iter().map(|b| al[(*b as usize) % al.len()].clone()).collect())
}

/// judge one corpus/fuzz input for `target`; None = input outside the target's domain
pub fn judge(target: &str, data: &[u8]) -> Option<Verdict> {
    match target {
        "total" => total_case(data).map(|s| c03::judge(&s)),
        "fmtdiff" => fmt_case(data).map(|s| c14::judge(&s)),
        "grammar" => grammar_case(data).map(|w| c01::judge_words(&w)),
        _ => None,
    }
}

/// inputs taken from the repository's own tests
pub const REPO_TEST_INPUTS: [&str; 34] = [
    "-amin 44", "-true", "-false", "-amin", "-amin test", "-depth", "-maxdepth -44", "-mindepth -44", "! -true", "-true -o -false", "-true -a -false", "-true -false",
    "-true -a -false -o -name test", "-true -o -false -a -name test", "-true -a (-false -o -name test)", "-true -a ! -false", "! -true -o -false", "! ( -true -o -false )",
    "-perm 667", "-perm -244", "-perm a=x", "-perm u=w", "-perm a+x", "-perm g+w", "-perm a-x", "-perm ug-rw", "-perm /u+w", "-print", "-print0", "-fprint filelist.out",
    "-printf \"%p,%U,%G,%m,%s,%A@,%C@,%T@,%{projid},%{fid}\\n\"", "-fprintf user_files.txt \"%p,%U,%{fid}\\n\"", "! -atime 77 ( -name test )", "-anerr param -name test",
];

pub fn make_corpora(seed: u64) -> i32 {
    use crate::util::{stable_hash, verif_dir};
    let write = |target: &str, items: Vec<Vec<u8>>| {
        let dir = format!("{}/corpus/{target}", verif_dir());
        let _ = std::fs::remove_dir_all(&dir);
        let _ = std::fs::create_dir_all(&dir);
        for it in items {
            let _ = std::fs::write(format!("{dir}/{:016x}", stable_hash(&it)), it);
        }
    };
    let mut total: Vec<Vec<u8>> = REPO_TEST_INPUTS.iter().map(|s| s.as_bytes().to_vec()).collect();
    for t in crate::corpus::grammar_texts(seed, 160) {
        if t.len() <= 300 {
            total.push(t.into_bytes());
        }
    }
    for t in crate::corpus::numeric_texts().into_iter().step_by(97).chain(crate::corpus::nesting_texts().into_iter().filter(|t| t.len() < 400)) {
        total.push(t.into_bytes());
    }
    write("total", total);
    let mut fmts: Vec<Vec<u8>> = crate::checks::c14::documented_elements().into_iter().map(|s| s.into_bytes()).collect();
    for t in crate::util::sample_values(seed, "corpus-fmtdiff", 0, 120, &crate::checks::c14::gen_format()) {
        if !t.contains('\'') {
            fmts.push(t.into_bytes());
        }
    }
    write("fmtdiff", fmts);
    let mut gr: Vec<Vec<u8>> = vec![vec![8], vec![2, 8], vec![0, 8, 1], vec![8, 4, 9, 6, 10], vec![8, 3, 9], vec![0, 0, 2, 8, 1, 5, 9, 1, 7, 10], vec![8, 8, 8], vec![8, 6], vec![1], vec![0, 1]];
    for (i, t) in crate::util::sample_values(seed, "corpus-grammar-bytes", 0, 60, &proptest::collection::vec(0u8..11, 1..24)).into_iter().enumerate() {
        let _ = i;
        gr.push(t);
    }
    write("grammar", gr);
    0
}
