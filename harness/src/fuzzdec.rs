//! Decoders from fuzzer bytes to structured cases, shared by the libFuzzer
//! targets in /verif/fuzz and by the corpus replay of the quick tier.

use crate::checks::{c01, c03, c14};
use crate::grammar::W;
use crate::tree::*;
use crate::util::Verdict;

pub fn total_case(data: &[u8]) -> Option<String> {
    let s = std::str::from_utf8(data).ok()?;
    if crate::corpus::within_bounds(s) {
        Some(s.to_string())
    } else {
        None
    }
}

pub fn fmt_case(data: &[u8]) -> Option<String> {
    let s = std::str::from_utf8(data).ok()?;
    if s.is_empty() || s.len() > 200 || s.contains('\'') {
        return None;
    }
    Some(s.to_string())
}

/// one byte per word (mod 11)
pub fn grammar_case(data: &[u8]) -> Option<Vec<W>> {
    if data.is_empty() || data.len() > 64 {
        return None;
    }
    let al = [
        W::LP,
        W::RP,
        W::Not,
        W::Comma,
        W::And(false),
        W::And(true),
        W::Or(false),
        W::Or(true),
        W::Prim(E::T(Tst::True)),
        W::Prim(E::T(Tst::Name("x".into()))),
        W::Prim(E::A(Act::Print)),
    ];
    Some(data.iter().map(|b| al[(*b as usize) % al.len()].clone()).collect())
}

/// judge one corpus/fuzz input for `target`; None = input outside the target's domain
pub fn judge(target: &str, data: &[u8]) -> Option<Verdict> {
    match target {
        "total" => total_case(data).map(|s| c03::judge(&s)),
        "fmtdiff" => fmt_case(data).map(|s| c14::judge(&s)),
        "grammar" => grammar_case(data).map(|w| c01::judge_words(&w)),
        _ => None,
    }
}
