//! Decoders from fuzzer bytes to structured cases, shared by the libFuzzer
//! targets in /verif/fuzz and by the corpus replay of the quick tier.

use crate::checks::{c01, c03, c14};
use crate::grammar::W;
use crate::tree::*;
use crate::util::Verdict;

pub fn total_case(data: &[u8]) -> Option<String> {
    let s = std::str::from_utf8(data).ok()?;
    if crate::corpus::within_bounds(s) {
        Some(s.to_string())
    } else {
        None
    }
}

pub fn fmt_case(data: &[u8]) -> Option<String> {
    let s = std::str::from_utf8(data).ok()?;
    if s.is_empty() || s.len() > 200 || s.contains('\'') {
        return None;
    }
    Some(s.to_string())
}

/// one byte per word (mod 11)
pub fn grammar_case(data: &[u8]) -> Option<Vec<W>> {
    if data.is_empty() || data.len() > 64 {
        return None;
    }
    let al = [
        W::LP,
        W::RP,
        W::Not,
        W::Comma,
        W::And(false),
        W::And(true),
        W::Or(false),
        W::Or(true),
        W::Prim(E::T(Tst::True)),
        W::Prim(E::T(Tst::Name("x".into()))),
        W::Prim(E::A(Act::Print)),
    ];
    Some(data.iter().map(|b| al[(*b as usize) % al.len()].clone()).collect())
}

/// judge one corpus/fuzz input for `target`; None = input outside the target's domain
pub fn judge(target: &str, data: &[u8]) -> Option<Verdict> {
    match target {
        "total" => total_case(data).map(|s| c03::judge(&s)),
        "fmtdiff" => fmt_case(data).map(|s| c14::judge(&s)),
        "grammar" => grammar_case(data).map(|w| c01::judge_words(&w)),
        "spell" => spell_case(data).map(|(leading, tree, choices)| {
            // the oracles of C06 (variant == canonical) and C13 (options anywhere; parsed tree == written tree)
            let guarded = if matches!(tree.leaves().first(), Some(E::G(_))) { E::and(E::T(Tst::Name("first".into())), tree.clone()) } else { tree.clone() };
            match crate::checks::c06::judge(&guarded, &choices) {
                Verdict::Fail(m) => return Verdict::Fail(format!("C06 oracle: {m}")),
                _ => {}
            }
            match crate::checks::c13::judge(&leading, &Some(guarded), &choices) {
                Verdict::Fail(m) => Verdict::Fail(format!("C13 oracle: {m}")),
                o => o,
            }
        }),
        "policy" => policy_case(data).map(|c| match crate::checks::c02::judge(&c) {
            Verdict::Fail(m) => Verdict::Fail(format!("{m}\ncase: {}", crate::checks::c02::case_json(&c))),
            o => o,
        }),
        _ => None,
    }
}

/// inputs taken from the repository's own tests
pub const REPO_TEST_INPUTS: [&str; 34] = [
    "-amin 44", "-true", "-false", "-amin", "-amin test", "-depth", "-maxdepth -44", "-mindepth -44", "! -true", "-true -o -false", "-true -a -false", "-true -false",
    "-true -a -false -o -name test", "-true -o -false -a -name test", "-true -a (-false -o -name test)", "-true -a ! -false", "! -true -o -false", "! ( -true -o -false )",
    "-perm 667", "-perm -244", "-perm a=x", "-perm u=w", "-perm a+x", "-perm g+w", "-perm a-x", "-perm ug-rw", "-perm /u+w", "-print", "-print0", "-fprint filelist.out",
    "-printf \"%p,%U,%G,%m,%s,%A@,%C@,%T@,%{projid},%{fid}\\n\"", "-fprintf user_files.txt \"%p,%U,%{fid}\\n\"", "! -atime 77 ( -name test )", "-anerr param -name test",
];

pub fn make_corpora(seed: u64) -> i32 {
    use crate::util::{stable_hash, verif_dir};
    // FFV_ONLY_CORPUS=<target>: (re)generate that corpus only (the others may hold merged campaign output)
    let only = std::env::var("FFV_ONLY_CORPUS").ok();
    let write = |target: &str, items: Vec<Vec<u8>>| {
        if only.as_deref().map(|o| o != target).unwrap_or(false) {
            return;
        }
        let dir = format!("{}/corpus/{target}", verif_dir());
        let _ = std::fs::remove_dir_all(&dir);
        let _ = std::fs::create_dir_all(&dir);
        for it in items {
            let _ = std::fs::write(format!("{dir}/{:016x}", stable_hash(&it)), it);
        }
    };
    let mut total: Vec<Vec<u8>> = REPO_TEST_INPUTS.iter().map(|s| s.as_bytes().to_vec()).collect();
    for t in crate::corpus::grammar_texts(seed, 160) {
        if t.len() <= 300 {
            total.push(t.into_bytes());
        }
    }
    for t in crate::corpus::numeric_texts().into_iter().step_by(97).chain(crate::corpus::nesting_texts().into_iter().filter(|t| t.len() < 400)) {
        total.push(t.into_bytes());
    }
    write("total", total);
    let mut fmts: Vec<Vec<u8>> = crate::checks::c14::documented_elements().into_iter().map(|s| s.into_bytes()).collect();
    for t in crate::util::sample_values(seed, "corpus-fmtdiff", 0, 120, &crate::checks::c14::gen_format()) {
        if !t.contains('\'') {
            fmts.push(t.into_bytes());
        }
    }
    write("fmtdiff", fmts);
    let mut gr: Vec<Vec<u8>> = vec![vec![8], vec![2, 8], vec![0, 8, 1], vec![8, 4, 9, 6, 10], vec![8, 3, 9], vec![0, 0, 2, 8, 1, 5, 9, 1, 7, 10], vec![8, 8, 8], vec![8, 6], vec![1], vec![0, 1]];
    for (i, t) in crate::util::sample_values(seed, "corpus-grammar-bytes", 0, 60, &proptest::collection::vec(0u8..11, 1..24)).into_iter().enumerate() {
        let _ = i;
        gr.push(t);
    }
    write("grammar", gr);
    let sp: Vec<Vec<u8>> = crate::util::sample_values(seed, "corpus-spell-bytes", 0, 200, &proptest::collection::vec(proptest::prelude::any::<u8>(), 8..120));
    write("spell", sp);
    let pol: Vec<Vec<u8>> = crate::util::sample_values(seed, "corpus-policy-bytes", 0, 150, &proptest::collection::vec(proptest::prelude::any::<u8>(), 8..160));
    write("policy", pol);
    0
}

// ---------------------------------------------------------------------------
// structure-aware decoding: bytes -> (expression tree, file records) for the `policy` target

struct Cur<'a> {
    d: &'a [u8],
    i: usize,
}
impl<'a> Cur<'a> {
    fn u8(&mut self) -> u8 {
        let v = self.d.get(self.i).copied().unwrap_or(0);
        self.i += 1;
        v
    }
    fn pick(&mut self, n: usize) -> usize {
        (self.u8() as usize) % n.max(1)
    }
    fn u64(&mut self) -> u64 {
        // boundary-rich: a table entry, a small number, or raw bytes
        const T: [u64; 16] = [0, 1, 2, 59, 60, 61, 1023, 1024, 1025, (1 << 31) - 1, 1 << 31, (1 << 32) - 1, 1 << 32, (1 << 63) - 1, 1 << 63, u64::MAX];
        match self.pick(4) {
            0 => T[self.pick(16)],
            1 => self.u8() as u64,
            2 => T[self.pick(16)].wrapping_add(self.u8() as u64).wrapping_sub(2),
            _ => {
                let mut v = 0u64;
                for _ in 0..8 {
                    v = (v << 8) | self.u8() as u64;
                }
                v
            }
        }
    }
    fn u32(&mut self) -> u32 {
        self.u64() as u32
    }
    fn cmp(&mut self) -> Cmp {
        [Cmp::Eq, Cmp::Gt, Cmp::Lt][self.pick(3)]
    }
    fn name(&mut self) -> String {
        crate::gen::NAME_POOL[self.pick(crate::gen::NAME_POOL.len())].to_string()
    }
    fn ident(&mut self) -> String {
        ["a", "b", "c", "pool1", "ssd", "user.tag", "tag", "user", "v1", "x"][self.pick(10)].to_string()
    }
    fn fmt(&mut self) -> Vec<FEl> {
        let fields = crate::gen::supported_fields();
        let n = self.pick(6);
        let mut out: Vec<FEl> = vec![];
        for _ in 0..n {
            match self.pick(4) {
                0 => {
                    let l = [",", ":", " ", "x", "~", "~a", "é", "#", "\"", "\\"][self.pick(8)].to_string();
                    if !matches!(out.last(), Some(FEl::Lit(_))) {
                        out.push(FEl::Lit(l));
                    }
                }
                1 | 2 => out.push(FEl::F(fields[self.pick(fields.len())].clone())),
                _ => {
                    let e = match self.pick(12) {
                        0 => Esc::Alarm,
                        1 => Esc::Backspace,
                        2 => Esc::Clear,
                        3 => Esc::Form,
                        4 => Esc::Newline,
                        5 => Esc::CarriageReturn,
                        6 => Esc::Tab,
                        7 => Esc::VTab,
                        8 => Esc::Null,
                        9 => Esc::Backslash,
                        _ => {
                            let v = (self.u8() % 128) as u16;
                            Esc::Ascii(if v == 0x1e { 0x1f } else { v })
                        }
                    };
                    out.push(FEl::E(e));
                }
            }
        }
        if self.pick(2) == 0 {
            out.push(FEl::E(Esc::Newline));
        }
        out
    }
    fn leaf(&mut self) -> E {
        let f = ["a", "b", "c"];
        match self.pick(30) {
            0 => E::T(Tst::Time([Which::A, Which::C, Which::M][self.pick(3)], self.cmp(), self.u64(), TUnit::ALL[self.pick(4)])),
            1 => E::T([Tst::Empty, Tst::Executable, Tst::Readable, Tst::Writable, Tst::True, Tst::False][self.pick(6)].clone()),
            2 => E::T(Tst::Gid(self.cmp(), self.u32())),
            3 => E::T(Tst::Uid(self.cmp(), self.u32())),
            4 => E::T(Tst::Inum(self.cmp(), self.u32())),
            5 => E::T(Tst::MirrorCount(self.cmp(), self.u32())),
            6 => E::T(Tst::StripeCount(self.cmp(), self.u32())),
            7 => E::T(Tst::Links(self.cmp(), self.u64())),
            8 | 9 => E::T(Tst::Name(self.name())),
            10 | 11 => E::T(Tst::IName(self.name())),
            12 => E::T(Tst::Path(self.name())),
            13 => E::T(Tst::IPath(self.name())),
            14 => E::T(Tst::Pool(self.ident())),
            15 => E::T(Tst::Xattr(self.ident())),
            16 => E::T(Tst::XattrMatch(self.ident(), if self.pick(2) == 0 { self.ident() } else { self.name() })),
            17 | 18 => {
                let u = SUnit::ALL[self.pick(7)];
                let max = u64::MAX / u.bytes();
                let raw = self.u64();
                let n = if max == u64::MAX { raw } else { raw % (max + 1) };
                E::T(Tst::Size(self.cmp(), n, u))
            }
            19 => {
                let n = 1 + self.pick(3);
                E::T(Tst::Type((0..n).map(|_| FT::ALL[self.pick(7)]).collect()))
            }
            20 | 21 => E::T(Tst::Perm([PKind::Equal, PKind::AtLeast, PKind::Any][self.pick(3)], self.u32() & 0o7777)),
            22 => E::A(Act::Print),
            23 => E::A(Act::Print0),
            24 | 25 => E::A(Act::Printf(self.fmt())),
            26 => E::A(Act::FPrint(f[self.pick(3)].into())),
            27 => E::A(Act::FPrint0(f[self.pick(3)].into())),
            28 => E::A(Act::FPrintf(f[self.pick(3)].into(), self.fmt())),
            _ => E::A(if self.pick(2) == 0 { Act::Quit } else { Act::PrintFid }),
        }
    }
    fn tree(&mut self, depth: usize) -> E {
        if depth == 0 || self.i >= self.d.len() {
            return self.leaf();
        }
        match self.pick(8) {
            0 => E::not(self.tree(depth - 1)),
            1 | 2 => E::and(self.tree(depth - 1), self.tree(depth - 1)),
            3 => E::or(self.tree(depth - 1), self.tree(depth - 1)),
            4 => E::list(self.tree(depth - 1), self.tree(depth - 1)),
            _ => self.leaf(),
        }
    }
    fn file(&mut self) -> crate::files::FileRec {
        let now = crate::files::PLACEHOLDER_NOW;
        let mut f = crate::files::FileRec::base(now);
        f.rel_path = ["a", "foo", "Foo", "dir/sub/x", "a.c", "a.C", "dir/foo", "МОСКВА", "москва", "123", "x.7", "data.bin"][self.pick(12)].to_string();
        f.mode = FT::ALL[self.pick(7)].bits() | (self.u32() & 0o7777);
        f.uid = self.u32();
        f.gid = self.u32();
        f.ino = self.u64();
        f.nlink = self.u64();
        f.size = self.u64();
        f.blocks = self.u64() >> 12;
        f.atime = now.saturating_sub(self.u64() % 4_000_000);
        f.ctime = now.saturating_sub(self.u64() % 4_000_000_000);
        f.mtime = now.saturating_sub(self.u64() % 100_000);
        f.projid = self.u32() % 1000;
        f.stripe_count = self.u32() % 8;
        f.mirror_count = self.u32() % 4;
        f.pools = (0..self.pick(3)).map(|_| self.ident()).collect();
        let n = self.pick(3);
        let mut seen = std::collections::HashSet::new();
        f.xattrs = (0..n).map(|_| (self.ident(), self.ident())).filter(|x| seen.insert(x.0.clone())).collect();
        f.empty = self.pick(2) == 0;
        f.readable = self.pick(2) == 0;
        f.writable = self.pick(2) == 0;
        f.executable = self.pick(2) == 0;
        f
    }
}

/// bytes -> (leading options, tree over the whole text vocabulary, layout choices) for the `spell` target
pub fn spell_case(data: &[u8]) -> Option<(Vec<Glob>, E, Vec<u16>)> {
    if data.len() < 4 || data.len() > 400 {
        return None;
    }
    let mut c = Cur { d: data, i: 0 };
    let nlead = [0usize, 0, 0, 1, 2, 5][c.pick(6)];
    let leading: Vec<Glob> = (0..nlead).map(|_| c.option()).collect();
    let tree = c.text_tree(5);
    if tree.node_count() > 40 {
        return None;
    }
    // the rest of the bytes drive the layout (two bytes per choice)
    let rest = &data[c.i.min(data.len())..];
    let choices: Vec<u16> = rest.chunks(2).map(|ch| (ch[0] as u16) << 8 | *ch.get(1).unwrap_or(&0) as u16).take(80).collect();
    Some((leading, tree, choices))
}

impl<'a> Cur<'a> {
    fn option(&mut self) -> Glob {
        match self.pick(6) {
            0 => Glob::Depth,
            1 => Glob::Threads(self.u32()),
            2 => Glob::Threads([0u32, 1, 2, 4, 8][self.pick(5)]),
            3 => Glob::Depth,
            4 => Glob::Threads(self.u8() as u32),
            _ => Glob::Threads(7),
        }
    }
    fn word(&mut self) -> String {
        const W: [&str; 40] = [
            "a", "foo", "*.txt", "a b", "x)y", "it's", "say \"hi\"", "(", ")", "-print", "-o", "!", ",", "a\tb", "two  blanks", "'", "\"", "é x", "-", "%", "a(b", "$HOME", "~", ";#", "a,", "dir\\", "a,b",
            "-a", "-and", "-name", "0", "١", "[ab]c", "]a[", "a\u{a0}b", "{}", "{mdt}", "%lf3:print:2", "/dev/stdout", "core",
        ];
        let mut w = W[self.pick(W.len())].to_string();
        if self.pick(4) == 0 {
            w.push_str(W[self.pick(W.len())]);
        }
        w
    }
    fn text_leaf(&mut self) -> E {
        let k = self.pick(48);
        match k {
            0..=29 => self.leaf(),
            30 => E::T(Tst::Name(self.word())),
            31 => E::T(Tst::IPath(self.word())),
            32 => E::T(Tst::Pool(self.word())),
            33 => E::T(Tst::XattrMatch(self.word(), self.word())),
            34 => E::A(Act::FPrint(self.word())),
            35 => E::A(Act::FPrintf(self.word(), self.fmt())),
            36 => E::T(Tst::U(UTest::Regex(self.word()))),
            37 => E::T(Tst::U(UTest::User(self.word()))),
            38 => E::T(Tst::U([UTest::NoUser, UTest::NoGroup][self.pick(2)].clone())),
            39 => E::T(Tst::U(UTest::Samefile(self.word()))),
            40 => E::A([Act::Ls, Act::Prune][self.pick(2)].clone()),
            41 => E::A(Act::Fls(self.word())),
            42 | 43 => E::G(self.option()),
            44 => E::T(Tst::U(UTest::FsType(self.word()))),
            45 => E::T(Tst::U(UTest::ILName(self.word()))),
            46 => E::T(Tst::U(UTest::AccessNewer(self.word()))),
            _ => E::T(Tst::Xattr(self.word())),
        }
    }
    fn text_tree(&mut self, depth: usize) -> E {
        if depth == 0 || self.i >= self.d.len() {
            return self.text_leaf();
        }
        match self.pick(8) {
            0 => E::not(self.text_tree(depth - 1)),
            1 | 2 => E::and(self.text_tree(depth - 1), self.text_tree(depth - 1)),
            3 => E::or(self.text_tree(depth - 1), self.text_tree(depth - 1)),
            4 => E::list(self.text_tree(depth - 1), self.text_tree(depth - 1)),
            _ => self.text_leaf(),
        }
    }
}

pub fn policy_case(data: &[u8]) -> Option<crate::checks::c02::Case> {
    if data.len() < 4 || data.len() > 600 {
        return None;
    }
    let mut c = Cur { d: data, i: 0 };
    let threads = match c.pick(4) {
        0 => Some(c.u32()),
        _ => None,
    };
    let via_text = c.pick(5) == 0;
    let tree = c.tree(5);
    if tree.node_count() > 40 {
        return None;
    }
    let files = (0..2 + c.pick(3)).map(|_| c.file()).collect();
    Some(crate::checks::c02::Case { tree, files, threads, via_text })
}
