//! Driving the libFuzzer targets of /verif/fuzz from a check (thorough tier),
//! and replaying the committed corpora in-process (quick tier).

use crate::fuzzdec;
use crate::util::*;
use serde_json::{json, Value};

pub fn fuzz_bin_dir() -> String {
    format!("{}/fuzz/target/x86_64-unknown-linux-gnu/release", verif_dir())
}

fn hex(b: &[u8]) -> String {
    b.iter().map(|x| format!("{x:02x}")).collect()
}
pub fn unhex(s: &str) -> Vec<u8> {
    (0..s.len() / 2).filter_map(|i| u8::from_str_radix(&s[2 * i..2 * i + 2], 16).ok()).collect()
}

pub fn case_json(target: &str, data: &[u8]) -> Value {
    json!({"kind": "fuzz-input", "target": target, "hex": hex(data), "text": String::from_utf8_lossy(data)})
}

/// strict in-process re-execution of one fuzz input
pub fn replay(case: &Value) -> Result<Verdict, String> {
    let target = case["target"].as_str().ok_or("target")?;
    let data = unhex(case["hex"].as_str().ok_or("hex")?);
    Ok(fuzzdec::judge(target, &data).unwrap_or(Verdict::Skip("outside the target's domain")))
}

/// Quick tier: every committed corpus file through the in-target oracle.
pub fn replay_corpus(target: &str, st: &mut Stats) {
    let dir = format!("{}/corpus/{target}", verif_dir());
    let Ok(rd) = std::fs::read_dir(&dir) else { return };
    let mut files: Vec<_> = rd.filter_map(|e| e.ok()).map(|e| e.path()).collect();
    files.sort();
    let mut n = 0u64;
    for f in files {
        let Ok(data) = std::fs::read(&f) else { continue };
        if let Some(v) = fuzzdec::judge(target, &data) {
            let v = match v {
                Verdict::Pass { nt, .. } => Verdict::Pass { nt, class: "corpus replay" },
                o => o,
            };
            st.record(&v, stable_hash(&data), false, || case_json(target, &data));
            n += 1;
        }
    }
    st.extra.insert(format!("corpus_replayed_{target}"), json!(n));
}

/// The trees of the committed `policy` corpus (found by coverage-guided fuzzing against C02's
/// oracle) through another check's judge.
pub fn replay_policy_trees<J: Fn(&crate::tree::E) -> Verdict>(st: &mut Stats, judge: J) {
    let dir = format!("{}/corpus/policy", verif_dir());
    let Ok(rd) = std::fs::read_dir(&dir) else { return };
    let mut files: Vec<_> = rd.filter_map(|e| e.ok()).map(|e| e.path()).collect();
    files.sort();
    let mut n = 0u64;
    for f in files {
        let Ok(data) = std::fs::read(&f) else { continue };
        if let Some(c) = fuzzdec::policy_case(&data) {
            let v = match judge(&c.tree) {
                Verdict::Pass { nt, .. } => Verdict::Pass { nt, class: "tree of the policy fuzz corpus" },
                o => o,
            };
            st.record(&v, stable_hash(&c.tree), false, || json!({"kind": "tree", "tree": crate::term::encode_expr(&c.tree), "from": "corpus/policy"}));
            n += 1;
        }
    }
    st.extra.insert("policy_corpus_trees".into(), json!(n));
}

/// Thorough tier: a work-bounded libFuzzer campaign (`procs` processes x `runs` executions).
/// Crashes become failures after a strict in-process re-run; time-outs/OOMs are inconclusive.
pub fn campaign(target: &str, seed: u64, runs: u64, procs: usize, max_len: usize, st: &mut Stats) {
    // (one campaign per check run: the environment runs of the same check do not repeat it)
    if crate::util::current_environment().is_some() {
        return;
    }
    let bin = format!("{}/{target}", fuzz_bin_dir());
    if !std::path::Path::new(&bin).exists() {
        st.oracle_bugs.push(format!("fuzz target {bin} is not built (cargo +nightly fuzz build failed?)"));
        return;
    }
    let scratch = std::env::var("FFV_SCRATCH").unwrap_or_else(|_| format!("{}/harness/target/scratch", verif_dir()));
    let base = format!("{scratch}/fuzz-{target}-{}", std::process::id());
    let _ = std::fs::remove_dir_all(&base);
    let dict = format!("{base}/dict.txt");
    let _ = std::fs::create_dir_all(&base);
    let mut d = String::new();
    for k in crate::checks::c05::KEYWORDS {
        d.push_str(&format!("\"{}\"\n", k.replace('\\', "\\\\").replace('"', "\\\"")));
    }
    for k in ["%p", "%A@", "%{fid}", "%{xattr:", "\\\\n", "\\\\0", "\\\\101", "'", "u+x", "0644", "-size +5k", "-name x"] {
        d.push_str(&format!("\"{}\"\n", k.replace('"', "\\\"")));
    }
    let _ = std::fs::write(&dict, d);
    let mut children = vec![];
    for p in 0..procs {
        let corpus = format!("{base}/corpus-{p}");
        let arts = format!("{base}/artifacts-{p}/");
        let _ = std::fs::create_dir_all(&corpus);
        let _ = std::fs::create_dir_all(&arts);
        // start from the committed corpus (small valid inputs) in half of the processes, empty in the others
        if p % 2 == 0 {
            if let Ok(rd) = std::fs::read_dir(format!("{}/corpus/{target}", verif_dir())) {
                for e in rd.filter_map(|e| e.ok()) {
                    let _ = std::fs::copy(e.path(), format!("{corpus}/{}", e.file_name().to_string_lossy()));
                }
            }
        }
        let log = std::fs::File::create(format!("{base}/log-{p}.txt")).ok();
        let mut cmd = std::process::Command::new(&bin);
        cmd.arg(&corpus)
            .arg(format!("-runs={runs}"))
            .arg(format!("-seed={}", (seed.wrapping_mul(1000003).wrapping_add(p as u64 + 1)) % 4_000_000_000 + 1))
            .arg("-len_control=0")
            .arg(format!("-max_len={max_len}"))
            .arg(format!("-artifact_prefix={arts}"))
            .arg("-print_final_stats=1")
            .arg("-timeout=60")
            .arg("-detect_leaks=0")
            .arg("-rss_limit_mb=8192")
            .arg(format!("-dict={dict}"))
            .stdout(std::process::Stdio::null());
        if let Some(l) = log {
            cmd.stderr(l);
        } else {
            cmd.stderr(std::process::Stdio::null());
        }
        match cmd.spawn() {
            Ok(c) => children.push((p, c)),
            Err(e) => st.oracle_bugs.push(format!("cannot start {bin}: {e}")),
        }
    }
    let mut execs = 0u64;
    let mut crashes = 0u64;
    let mut inconclusive = 0u64;
    let mut hang_reported = false;
    for (p, mut c) in children {
        let _ = c.wait();
        let log = std::fs::read_to_string(format!("{base}/log-{p}.txt")).unwrap_or_default();
        for l in log.lines() {
            if let Some(v) = l.strip_prefix("stat::number_of_executed_units:") {
                execs += v.trim().parse::<u64>().unwrap_or(0);
            }
        }
        if let Ok(rd) = std::fs::read_dir(format!("{base}/artifacts-{p}")) {
            for e in rd.filter_map(|e| e.ok()) {
                let name = e.file_name().to_string_lossy().to_string();
                let Ok(data) = std::fs::read(e.path()) else { continue };
                if name.starts_with("crash-") {
                    crashes += 1;
                    // strict re-run bypassing the fuzzer
                    let v = fuzzdec::judge(target, &data);
                    match v {
                        Some(Verdict::Fail(m)) => {
                            if st.failures.len() < MAX_FAILURES {
                                st.failures.push(Failure { case: case_json(target, &data), msg: m });
                            }
                        }
                        _ => st.notes.push(format!("libFuzzer reported a crash on {} that the in-process oracle does not reproduce", hex(&data))),
                    }
                } else if name.starts_with("timeout-") && target == "total" && !hang_reported {
                    // a unit that took more than libFuzzer's time-out: decided by the CPU limit of C03
                    match fuzzdec::total_case(&data).map(|t| crate::checks::c03::judge_with_deadline(&t)) {
                        Some(Ok(Verdict::Fail(m))) => {
                            // (the thread that handles this input keeps running: further time-outs of
                            // this campaign are not judged in this process)
                            hang_reported = true;
                            if st.failures.len() < MAX_FAILURES {
                                st.failures.push(Failure { case: case_json(target, &data), msg: m });
                            }
                        }
                        _ => {
                            inconclusive += 1;
                            st.notes.push(format!("libFuzzer {name}: not over the CPU limit when run alone: inconclusive (not a violation)"));
                        }
                    }
                } else if name.starts_with("timeout-") || name.starts_with("oom-") {
                    inconclusive += 1;
                    st.notes.push(format!("libFuzzer {name}: inconclusive (not a violation)"));
                }
            }
        }
    }
    st.evaluations += execs;
    st.bump_by(&format!("libFuzzer executions ({target})"), execs);
    st.extra.insert(
        format!("fuzz_{target}"),
        json!({"engine": "libFuzzer (cargo-fuzz)", "processes": procs, "runs_per_process": runs, "executions": execs, "crashes": crashes, "timeouts_or_ooms": inconclusive, "max_len": max_len,
               "note": "campaigns are pinned by -seed/-runs only approximately; the saved failing input is the reproducible unit"}),
    );
    if inconclusive > 0 && !hang_reported {
        st.oracle_bugs.push(format!("{inconclusive} libFuzzer time-outs/OOMs in target {target}: inconclusive"));
    }
    let _ = std::fs::remove_dir_all(&base);
}
