//! proptest strategies for spec-side values.  Every random choice is made by
//! proptest so that shrinking and seeded replay work.

use crate::tree::*;
use proptest::prelude::*;
use proptest::strategy::BoxedStrategy;

/// choice stream for the variant grammar: biased to the canonical choice
pub fn choice_stream(max: usize) -> BoxedStrategy<Vec<u16>> {
    proptest::collection::vec(prop_oneof![2 => Just(0u16), 3 => any::<u16>()], 0..max).boxed()
}

pub fn cmp() -> BoxedStrategy<Cmp> {
    prop_oneof![Just(Cmp::Eq), Just(Cmp::Gt), Just(Cmp::Lt)].boxed()
}

/// boundary-rich u32 counts
/// powers of two and of ten with their neighbours, and the unit sizes of time: where narrowing,
/// shifting, digit-count limits and unit conversion go wrong
pub fn special_numbers() -> Vec<u64> {
    let mut v: Vec<u64> = vec![0, 3, 7, 59, 60, 61, 100, 1439, 1440, 1441, 3599, 3600, 3601, 86399, 86400, 86401, 604800, u64::MAX - 1, u64::MAX];
    for k in 0..64u32 {
        let p = 1u64 << k;
        v.extend([p - 1, p, p.saturating_add(1)]);
    }
    for k in 0..20u32 {
        let p = 10u64.pow(k);
        v.extend([p - 1, p, p + 1]);
    }
    for unit in [60u128, 1440, 3600, 86_400, 604_800, 512, 1024, 1 << 20, 1 << 30, 1u128 << 40] {
        for top in [1u128 << 31, 1 << 32, 1 << 63, 1 << 64] {
            let q = (top / unit) as u64;
            v.extend([q.saturating_sub(1), q, q.saturating_add(1)]);
        }
    }
    v.sort();
    v.dedup();
    v
}

pub fn count_u32() -> BoxedStrategy<u32> {
    prop_oneof![
        4 => prop::sample::select(vec![0u32, 1, 2, 3, 7, 59, 60, 61, 100, 1000, 1023, 1024, 1025, 65535, 65536]),
        2 => prop::sample::select(special_numbers().into_iter().filter(|v| *v <= u32::MAX as u64).map(|v| v as u32).collect::<Vec<_>>()),
        2 => 0u32..50,
        1 => prop::sample::select(vec![(1u32 << 31) - 1, 1 << 31, (1 << 31) + 1, u32::MAX - 1, u32::MAX]),
        1 => any::<u32>(),
    ]
    .boxed()
}

/// boundary-rich u64 counts, at most `max`
pub fn count_u64(max: u64) -> BoxedStrategy<u64> {
    let mut specials: Vec<u64> =
        vec![0, 1, 2, 3, 7, 59, 60, 61, 1023, 1024, 1025, (1 << 31) - 1, 1 << 31, (1 << 32) - 1, 1 << 32, (1 << 32) + 1, (1u64 << 63) - 1, 1 << 63, u64::MAX - 1, u64::MAX, max.saturating_sub(1), max];
    specials.retain(|v| *v <= max);
    let mut wide = special_numbers();
    wide.retain(|v| *v <= max);
    prop_oneof![
        4 => prop::sample::select(specials),
        2 => prop::sample::select(wide),
        3 => 0u64..50.min(max).max(1),
        1 => (0u64..=max),
    ]
    .boxed()
}

pub fn sunit() -> BoxedStrategy<SUnit> {
    prop::sample::select(SUnit::ALL.to_vec()).boxed()
}
pub fn tunit() -> BoxedStrategy<TUnit> {
    prop::sample::select(TUnit::ALL.to_vec()).boxed()
}
pub fn which() -> BoxedStrategy<Which> {
    prop_oneof![Just(Which::A), Just(Which::C), Just(Which::M)].boxed()
}

/// Small pools of names so that repeats, case twins and pattern/literal pairs occur.
pub const NAME_POOL: [&str; 40] = [
    // wildcards only: always true, or true from a minimal length on
    "*??", "??*", "?*?", "*???", "**", "?*", "*?", "???",

    "a", "b", "A", "foo", "Foo", "FOO", "foo*", "*.c", "*.C", "f?o", "[ab]", "[a-c]x", "x", "x*", "data.bin", "DATA.BIN", "a.b", "*", "?", "[!a]*", "dir/sub", "dir/*", "*/x", "héllo",
    // no ASCII letter at all (case folding must not depend on ASCII letters)
    "МОСКВА", "москва", "ÀÉÎ*", "àéî*", "123", "*.[0-9]", "_-.", "日本",
];

#[derive(Debug, Clone, Copy, PartialEq, Eq)]
pub enum StrKind {
    /// names/patterns drawn from the pool or simple words (no backslash, representable as text)
    Name,
    /// plain identifiers (pool names, attribute names, file names)
    Ident,
}

pub fn user_string(kind: StrKind) -> BoxedStrategy<String> {
    match kind {
        StrKind::Name => prop_oneof![
            3 => prop::sample::select(NAME_POOL.to_vec()).prop_map(|s| s.to_string()),
            2 => "[a-cA-C.*?]{1,5}",
            1 => "[a-z]{1,3}\\[[a-c]{1,2}\\][a-z]{0,2}",
            1 => "[a-z/]{1,6}",
            // strings that are special to the code under test (template holes, generated names)
            1 => prop::sample::select(crate::dict::names()),
        ]
        .boxed(),
        StrKind::Ident => prop_oneof![
            6 => prop::sample::select(vec!["a", "b", "c", "out.txt", "pool1", "ssd", "user.tag", "trusted.lov", "X", "v1"]).prop_map(|s| s.to_string()),
            2 => "[a-z][a-z0-9._]{0,6}",
            // words taken from the sources under test (a name that is special to the code must still be plain data)
            1 => prop::sample::select(crate::dict::words()),
            // whole tokens of the sources under test: emitted call texts, templates, sentinels
            1 => prop::sample::select(crate::dict::tokens()),
        ]
        .boxed(),
    }
}

pub fn file_types() -> BoxedStrategy<Vec<FT>> {
    prop_oneof![
        8 => proptest::collection::vec(prop::sample::select(FT::ALL.to_vec()), 1..4),
        // long lists with repeats (more entries than there are types)
        1 => proptest::collection::vec(prop::sample::select(FT::ALL.to_vec()), 7..20),
    ]
    .boxed()
}

pub fn pkind() -> BoxedStrategy<PKind> {
    prop_oneof![Just(PKind::Equal), Just(PKind::AtLeast), Just(PKind::Any)].boxed()
}

pub fn mode12() -> BoxedStrategy<u32> {
    prop_oneof![
        3 => prop::sample::select(vec![0u32, 0o777, 0o755, 0o644, 0o600, 0o400, 0o200, 0o100, 0o111, 0o222, 0o444, 0o4000, 0o2000, 0o1000, 0o7777, 0o4755, 0o1777, 0o070, 0o007]),
        2 => 0u32..0o10000,
    ]
    .boxed()
}

pub fn esc(all: bool) -> BoxedStrategy<Esc> {
    let mut v = vec![Esc::Alarm, Esc::Backspace, Esc::Form, Esc::Newline, Esc::CarriageReturn, Esc::Tab, Esc::VTab, Esc::Null, Esc::Backslash];
    if all {
        v.push(Esc::Clear);
    }
    prop_oneof![
        4 => prop::sample::select(v),
        1 => (1u16..128).prop_filter("U+001E is the frame separator of the output protocol", |v| *v != 0x1e).prop_map(Esc::Ascii),
        // code points that are special to the Scheme reader, to `format`, or to find's own format language
        2 => prop::sample::select(vec![34u16, 92, 126, 37, 40, 41, 59, 35, 39, 10, 9, 13, 1, 127, 48, 65, 0]).prop_map(Esc::Ascii),
    ]
    .boxed()
}

pub fn supported_fields() -> Vec<Fld> {
    vec![
        Fld::Percent,
        Fld::Access,
        Fld::AccessFmt('@'),
        Fld::AccessFmt('Y'),
        Fld::Blocks,
        Fld::Change,
        Fld::ChangeFmt('@'),
        Fld::ChangeFmt('H'),
        Fld::Basename,
        Fld::Group,
        Fld::GroupId,
        Fld::Parents,
        Fld::StartingPoint,
        Fld::Inode,
        Fld::Kilos,
        Fld::PermOctal,
        Fld::Hardlinks,
        Fld::Name,
        Fld::NameNoStart,
        Fld::Bytes,
        Fld::Sparseness,
        Fld::Modify,
        Fld::ModifyFmt('@'),
        Fld::ModifyFmt('s'),
        Fld::User,
        Fld::UserId,
        Fld::Type,
        Fld::Fid,
        Fld::ProjId,
        Fld::MirrorCount,
        Fld::StripeCount,
        Fld::StripeSize,
        Fld::XAttr("tag".into()),
        Fld::XAttr("user".into()),
        // attribute names that coincide with built-in directive names
        Fld::XAttr("fid".into()),
        Fld::XAttr("projid".into()),
    ]
}
pub fn unsupported_fields() -> Vec<Fld> {
    vec![Fld::Depth, Fld::DevNum, Fld::FsType, Fld::SymTarget, Fld::PermSymbolic, Fld::TypeSymlink, Fld::SecCtx]
}

pub fn field(supported_only: bool) -> BoxedStrategy<Fld> {
    if supported_only {
        prop::sample::select(supported_fields()).boxed()
    } else {
        prop_oneof![4 => prop::sample::select(supported_fields()), 1 => prop::sample::select(unsupported_fields())].boxed()
    }
}

/// literal text of a format: no `%`, no `\`; `tilde` allows `~`
pub fn fmt_literal() -> BoxedStrategy<String> {
    prop_oneof![
        3 => prop::sample::select(vec![",", ":", " ", "x", "size=", "-", "a b", "[", "]", "#", "~", "~a", "é"]).prop_map(|s| s.to_string()),
        1 => "[a-z,:=~ ]{1,4}",
    ]
    .boxed()
}

/// Format element lists that are the unique segmentation of their own text.
pub fn fmt_elements(supported_only: bool, allow_clear: bool, max: usize) -> BoxedStrategy<Vec<FEl>> {
    let el = prop_oneof![
        3 => fmt_literal().prop_map(FEl::Lit),
        5 => field(supported_only).prop_map(FEl::F),
        3 => esc(allow_clear).prop_map(FEl::E),
    ];
    proptest::collection::vec(el, 0..max)
        .prop_map(|v| {
            // normalise: merge adjacent literals, keep `\0` away from octal digits
            let mut out: Vec<FEl> = vec![];
            for e in v {
                match (&mut out.last_mut(), &e) {
                    (Some(FEl::Lit(a)), FEl::Lit(b)) => a.push_str(b),
                    _ => out.push(e),
                }
            }
            out
        })
        .prop_filter("renderable", |v| crate::render::fmt_renderable(v))
        .boxed()
}

/// A format that ends with the newline escape (keeps plain output mode) or not.
pub fn fmt_elements_nl(supported_only: bool, max: usize) -> BoxedStrategy<Vec<FEl>> {
    (fmt_elements(supported_only, true, max), any::<bool>())
        .prop_map(|(mut v, nl)| {
            if nl {
                v.push(FEl::E(Esc::Newline));
            }
            v
        })
        .boxed()
}

/// supported tests with boundary-rich arguments
pub fn supported_test() -> BoxedStrategy<Tst> {
    prop_oneof![
        3 => (which(), cmp(), count_u64(u64::MAX), tunit()).prop_map(|(w, c, n, u)| Tst::Time(w, c, n, u)),
        1 => prop::sample::select(vec![Tst::Empty, Tst::Executable, Tst::Readable, Tst::Writable, Tst::True, Tst::False]),
        1 => (cmp(), count_u32()).prop_map(|(c, n)| Tst::Gid(c, n)),
        1 => (cmp(), count_u32()).prop_map(|(c, n)| Tst::Uid(c, n)),
        1 => (cmp(), count_u32()).prop_map(|(c, n)| Tst::Inum(c, n)),
        1 => (cmp(), count_u32()).prop_map(|(c, n)| Tst::MirrorCount(c, n)),
        1 => (cmp(), count_u32()).prop_map(|(c, n)| Tst::StripeCount(c, n)),
        1 => (cmp(), count_u64(u64::MAX)).prop_map(|(c, n)| Tst::Links(c, n)),
        2 => user_string(StrKind::Name).prop_map(Tst::Name),
        2 => user_string(StrKind::Name).prop_map(Tst::IName),
        1 => user_string(StrKind::Name).prop_map(Tst::Path),
        1 => user_string(StrKind::Name).prop_map(Tst::IPath),
        1 => user_string(StrKind::Ident).prop_map(Tst::Pool),
        1 => user_string(StrKind::Ident).prop_map(Tst::Xattr),
        1 => (user_string(StrKind::Ident), prop_oneof![user_string(StrKind::Ident), user_string(StrKind::Name)]).prop_map(|(a, b)| Tst::XattrMatch(a, b)),
        3 => (cmp(), sunit()).prop_flat_map(|(c, u)| count_u64(u64::MAX / u.bytes()).prop_map(move |n| Tst::Size(c, n, u))),
        2 => file_types().prop_map(Tst::Type),
        3 => (pkind(), mode12()).prop_map(|(k, m)| Tst::Perm(k, m)),
    ]
    .boxed()
}

/// values that only a hand-built tree can carry (the parser never returns them)
pub fn handbuilt_only_test() -> BoxedStrategy<Tst> {
    prop_oneof![
        Just(Tst::Type(vec![])),
        (pkind(), prop::sample::select(vec![0o10000u32, 0o17777, 0o100644, 0o170000, u32::MAX])).prop_map(|(k, m)| Tst::Perm(k, m)),
        Just(Tst::Name(String::new())),
        Just(Tst::IName(String::new())),
        Just(Tst::Path(String::new())),
        Just(Tst::Pool(String::new())),
        Just(Tst::Xattr(String::new())),
        Just(Tst::XattrMatch(String::new(), String::new())),
        (cmp(), sunit()).prop_map(|(c, u)| Tst::Size(c, u64::MAX / u.bytes(), u)),
    ]
    .boxed()
}

pub fn unsupported_test() -> BoxedStrategy<Tst> {
    let s = || user_string(StrKind::Ident);
    prop_oneof![
        s().prop_map(|x| Tst::U(UTest::AccessNewer(x))),
        s().prop_map(|x| Tst::U(UTest::ChangeNewer(x))),
        s().prop_map(|x| Tst::U(UTest::ModifyNewer(x))),
        s().prop_map(|x| Tst::U(UTest::FsType(x))),
        s().prop_map(|x| Tst::U(UTest::Group(x))),
        s().prop_map(|x| Tst::U(UTest::User(x))),
        s().prop_map(|x| Tst::U(UTest::ILName(x))),
        s().prop_map(|x| Tst::U(UTest::IRegex(x))),
        s().prop_map(|x| Tst::U(UTest::Regex(x))),
        s().prop_map(|x| Tst::U(UTest::Samefile(x))),
        Just(Tst::U(UTest::NoGroup)),
        Just(Tst::U(UTest::NoUser)),
    ]
    .boxed()
}

pub fn file_name() -> BoxedStrategy<String> {
    prop_oneof![
        8 => prop::sample::select(vec!["a", "b", "c", "out.txt"]).prop_map(|s| s.to_string()),
        // other spellings of the same paths: still different destinations as far as the program goes
        1 => prop::sample::select(vec!["./a", "a/", "a/.", "./out.txt", "b//", "./b", "c/../a", "A"]).prop_map(|s| s.to_string()),
        // names a shell would expand: the library is not a shell
        1 => prop::sample::select(vec!["~/a", "~", "~root/a", "$HOME/a", "${HOME}/a", "$PWD/a", "*.out", "a?", "{a,b}", "`a`", "$(a)"]).prop_map(|s| s.to_string()),
        // special files and path-like tokens from the sources under test
        1 => prop::sample::select(crate::dict::paths()),
    ]
    .boxed()
}

pub fn supported_action() -> BoxedStrategy<Act> {
    prop_oneof![
        3 => Just(Act::Print),
        2 => Just(Act::Print0),
        3 => fmt_elements_nl(true, 6).prop_map(Act::Printf),
        2 => file_name().prop_map(Act::FPrint),
        1 => file_name().prop_map(Act::FPrint0),
        2 => (file_name(), fmt_elements_nl(true, 5)).prop_map(|(f, e)| Act::FPrintf(f, e)),
        1 => Just(Act::PrintFid),
        1 => Just(Act::Quit),
    ]
    .boxed()
}

pub fn unsupported_action() -> BoxedStrategy<Act> {
    prop_oneof![Just(Act::Ls), Just(Act::Prune), file_name().prop_map(Act::Fls)].boxed()
}

/// Operator trees over the given leaf strategy. `list` enables the ',' operator.
/// Shapes an optimiser would like to simplify: the same subtree twice, a subtree next to its
/// negation, double negation, constant operands. Evaluation order, short-circuiting and the side
/// effects of actions make most such simplifications wrong somewhere.
pub fn redundant(t: E, k: u8) -> E {
    let tt = || E::T(Tst::True);
    let ff = || E::T(Tst::False);
    match k % 16 {
        0 => E::and(t.clone(), t),
        1 => E::or(t.clone(), t),
        2 => E::and(t.clone(), E::not(t)),
        3 => E::or(E::not(t.clone()), t),
        4 => E::not(E::not(t)),
        5 => E::and(tt(), t),
        6 => E::and(t, tt()),
        7 => E::or(ff(), t),
        8 => E::or(t, ff()),
        9 => E::and(ff(), t),
        10 => E::or(tt(), t),
        11 => E::and(t, ff()),
        12 => E::or(t, tt()),
        13 => E::not(E::not(E::not(t))),
        14 => E::or(E::and(t.clone(), ff()), t),
        _ => E::and(E::or(t.clone(), tt()), t),
    }
}

pub fn expr_over(leaf: BoxedStrategy<E>, depth: u32, size: u32, list: bool) -> BoxedStrategy<E> {
    leaf.prop_recursive(depth, size, 2, move |inner| {
        if list {
            prop_oneof![
                4 => inner.clone().prop_map(E::not),
                8 => (inner.clone(), inner.clone()).prop_map(|(a, b)| E::and(a, b)),
                6 => (inner.clone(), inner.clone()).prop_map(|(a, b)| E::or(a, b)),
                2 => (inner.clone(), inner.clone()).prop_map(|(a, b)| E::list(a, b)),
                1 => (inner.clone(), any::<u8>()).prop_map(|(a, k)| if k % 17 == 16 { E::list(a.clone(), a) } else { redundant(a, k) }),
            ]
            .boxed()
        } else {
            prop_oneof![
                4 => inner.clone().prop_map(E::not),
                8 => (inner.clone(), inner.clone()).prop_map(|(a, b)| E::and(a, b)),
                6 => (inner.clone(), inner.clone()).prop_map(|(a, b)| E::or(a, b)),
                1 => (inner.clone(), any::<u8>()).prop_map(|(a, k)| redundant(a, k)),
            ]
            .boxed()
        }
    })
    .boxed()
}

pub fn supported_leaf() -> BoxedStrategy<E> {
    prop_oneof![3 => supported_test().prop_map(E::T), 1 => supported_action().prop_map(E::A)].boxed()
}

/// the three abstract primaries of C01
pub fn c01_leaf() -> BoxedStrategy<E> {
    prop_oneof![Just(E::T(Tst::True)), Just(E::T(Tst::Name("x".into()))), Just(E::A(Act::Print))].boxed()
}

// ---------------------------------------------------------------------------
// text-path generators (C05, C06, C13): every keyword the parser knows

/// strings for word-or-quoted-string arguments, including ones that need quotes
pub fn text_string() -> BoxedStrategy<String> {
    prop_oneof![
        4 => user_string(StrKind::Name),
        2 => user_string(StrKind::Ident),
        // numerals of other scripts, digits that are not ASCII digits (a word is never a number because Unicode says so)
        1 => prop::sample::select(vec!["42", "0", "٣٤", "²", "½", "Ⅷ", "１２", "७", "1e3", "0x1f", "+5", "-5"]).prop_map(|s| s.to_string()),
        // case mappings that change the length or need context (an argument is never case-mapped by the parser)
        1 => prop::sample::select(vec!["İstanbul", "Straße", "STRASSE", "ǅ", "ſ", "ΣΑΣ", "ﬁn"]).prop_map(|s| s.to_string()),
        2 => prop::sample::select(vec!["a b", "x)y", "it's", "say \"hi\"", "(", ")", "-print", "-o", "!", ",", "a\tb", "two  blanks", "a\nb", "'", "\"", "é x", "-", "%", "a(b", "$HOME", "~", ";#"]).prop_map(|s| s.to_string()),
        // the same words with different blanks inside (a cache keyed on collapsed blanks would confuse them)
        1 => prop::sample::select(vec!["a  b", "a   b", "a \tb", "two blanks", "two\tblanks", "a\n\nb", " a b", "a b "]).prop_map(|s| s.to_string()),
        // characters that Unicode calls white space but that are not blanks of the command line
        1 => prop::sample::select(vec!["a\u{a0}b", "x\u{3000}y", "p\u{2028}q", "v\u{b}t", "f\u{c}f", "n\u{85}l", "résumé\u{a0}2024", "\u{2003}"]).prop_map(|s| s.to_string()),
        1 => "[ -~]{1,8}",
    ]
    .prop_filter("representable as an argument word", |s| crate::render::representable(s))
    .boxed()
}

pub fn text_test() -> BoxedStrategy<Tst> {
    let s = text_string;
    prop_oneof![
        8 => supported_test(),
        2 => s().prop_map(Tst::Name),
        1 => s().prop_map(Tst::IName),
        1 => s().prop_map(Tst::Path),
        1 => s().prop_map(Tst::IPath),
        1 => s().prop_map(Tst::Pool),
        1 => s().prop_map(Tst::Xattr),
        1 => (s(), s()).prop_map(|(a, b)| Tst::XattrMatch(a, b)),
        3 => unsupported_test(),
        1 => s().prop_map(|x| Tst::U(UTest::Regex(x))),
    ]
    .prop_filter("modes expressible as octal text", |t| !matches!(t, Tst::Perm(_, m) if *m > 0o7777))
    .boxed()
}

pub fn text_action() -> BoxedStrategy<Act> {
    prop_oneof![
        6 => supported_action(),
        2 => unsupported_action(),
        1 => text_string().prop_map(Act::FPrint),
        1 => (text_string(), fmt_elements(false, true, 6)).prop_map(|(f, e)| Act::FPrintf(f, e)),
        2 => fmt_elements(false, true, 8).prop_map(Act::Printf),
    ]
    .prop_filter("format expressible as an argument word", |a| match a {
        Act::Printf(f) | Act::FPrintf(_, f) => !f.is_empty() && crate::render::representable(&crate::render::fmt_text(f)),
        _ => true,
    })
    .boxed()
}

pub fn text_leaf() -> BoxedStrategy<E> {
    prop_oneof![3 => text_test().prop_map(E::T), 1 => text_action().prop_map(E::A)].boxed()
}

/// Make the strings of different leaves of one tree *related*: one string slot of the tree is
/// rewritten as a function of an earlier one (the same string, its suffix after a '.', a prefix,
/// another letter case, its escaped form, the same with backslashes removed, a wildcard added).
/// Registries, caches and "did I see this before" shortcuts are keyed on such strings; random
/// strings drawn independently are practically never related. `backslash`: derived forms may
/// introduce a backslash (not for the checks that exclude backslashes from name patterns).
pub fn relate_strings(t: &E, choice: u64, backslash: bool) -> E {
    let n = t.user_strings().len();
    if n < 2 {
        return t.clone();
    }
    let j = 1 + (choice % (n as u64 - 1)) as usize;
    let i = ((choice / 7) % j as u64) as usize;
    let how = (choice / 97) % 16;
    let src = t.user_strings()[i].clone();
    let derived = match how {
        0 | 1 | 2 => src.clone(),
        3 => src.rsplit('.').next().unwrap_or(&src).to_string(),
        4 => src.chars().take((src.chars().count() + 1) / 2).collect(),
        5 => src.to_uppercase(),
        6 => src.to_lowercase(),
        7 if backslash => src.replace('\\', "\\\\").replace('"', "\\\""),
        8 => src.replace('\\', ""),
        9 => format!("{src}*"),
        10 => format!("*{src}"),
        11 => format!("x.{src}"),
        // blanks at either end (a key that is trimmed takes the two for one)
        12 => format!("{src} "),
        13 => format!(" {src}"),
        14 => format!("{src}\t"),
        _ => src.trim().to_string(),
    };
    let derived = if backslash { derived } else { derived.replace('\\', "") };
    if derived.is_empty() || derived.contains('\u{1e}') {
        return t.clone();
    }
    let mut k = 0usize;
    t.map_strings(&mut |x: &str| {
        let out = if k == j { derived.clone() } else { x.to_string() };
        k += 1;
        out
    })
}

/// `strategy`, with the strings of a fifth of its trees related by [`relate_strings`]
pub fn related(strategy: BoxedStrategy<E>, backslash: bool) -> BoxedStrategy<E> {
    (strategy, any::<u64>()).prop_map(move |(t, c)| if c % 5 == 0 { relate_strings(&t, c / 5, backslash) } else { t }).boxed()
}
