//! Reference recogniser/parser for find's operator grammar over abstract
//! words (find(1), OPERATORS):
//!
//! ```text
//! list := or (',' or)*        or := and (OR and)*
//! and  := un ((AND)? un)*     un := '!' un | '(' list ')' | PRIMARY
//! ```
//! all binary operators fold to the left; parentheses leave no node.

use crate::tree::E;

#[derive(Debug, Clone, PartialEq, Eq, Hash)]
pub enum W {
    LP,
    RP,
    Not,
    Comma,
    /// AND, spelled -a (false) or -and (true)
    And(bool),
    /// OR, spelled -o (false) or -or (true)
    Or(bool),
    /// a primary (leaf expression)
    Prim(E),
}

struct P<'a> {
    w: &'a [W],
    i: usize,
}

impl<'a> P<'a> {
    fn peek(&self) -> Option<&'a W> {
        self.w.get(self.i)
    }
    fn list(&mut self) -> Option<E> {
        let mut acc = self.or()?;
        while let Some(W::Comma) = self.peek() {
            self.i += 1;
            let rhs = self.or()?;
            acc = E::list(acc, rhs);
        }
        Some(acc)
    }
    fn or(&mut self) -> Option<E> {
        let mut acc = self.and()?;
        while let Some(W::Or(_)) = self.peek() {
            self.i += 1;
            let rhs = self.and()?;
            acc = E::or(acc, rhs);
        }
        Some(acc)
    }
    fn and(&mut self) -> Option<E> {
        let mut acc = self.un()?;
        loop {
            match self.peek() {
                Some(W::And(_)) => {
                    self.i += 1;
                    let rhs = self.un()?;
                    acc = E::and(acc, rhs);
                }
                Some(W::Not) | Some(W::LP) | Some(W::Prim(_)) => {
                    let rhs = self.un()?;
                    acc = E::and(acc, rhs);
                }
                _ => return Some(acc),
            }
        }
    }
    fn un(&mut self) -> Option<E> {
        match self.peek()? {
            W::Not => {
                self.i += 1;
                Some(E::not(self.un()?))
            }
            W::LP => {
                self.i += 1;
                let e = self.list()?;
                match self.peek() {
                    Some(W::RP) => {
                        self.i += 1;
                        Some(e)
                    }
                    _ => None,
                }
            }
            W::Prim(e) => {
                self.i += 1;
                Some(e.clone())
            }
            _ => None,
        }
    }
}

/// Some(tree) iff the whole word sequence is a sentence.
pub fn parse(words: &[W]) -> Option<E> {
    let mut p = P { w: words, i: 0 };
    let e = p.list()?;
    if p.i == words.len() {
        Some(e)
    } else {
        None
    }
}

/// Length of the longest proper-or-improper prefix that is a sentence (0 if none).
pub fn longest_sentence_prefix(words: &[W]) -> usize {
    (1..=words.len()).rev().find(|&n| parse(&words[..n]).is_some()).unwrap_or(0)
}
