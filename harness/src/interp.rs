//! Evaluator for the emitted Guile subset with a model of the LiPE runtime
//! (`(lipe)`, `(lipe find)`), see DESIGN.md 3.4.  Independent of /repo.

use crate::files::FileRec;
use crate::fnmatch::fnmatch;
use crate::speceval::{dirname, group_name, sparseness_standin, strftime_standin, type_letter, user_name};
use crate::sx::Sx;
use std::cell::RefCell;
use std::collections::HashMap;
use std::rc::Rc;

#[derive(Clone)]
pub enum V {
    Unspec,
    Bool(bool),
    Int(i128),
    /// exact rational n/d (d > 1), only produced by `/`
    Rat(i128, i128),
    Str(Rc<str>),
    Char(char),
    Sym(Rc<str>),
    List(Rc<Vec<V>>),
    Closure(Rc<Closure>),
    Prim(&'static str),
    /// printer object returned by make-printer: (port, mutex, terminator)
    Printer(usize, usize, Option<char>),
    Port(usize),
    Mutex(usize),
    /// opaque runtime object (broken-down time, file type, attribute set, ...)
    Opaque(Rc<str>),
}

pub struct Closure {
    params: Vec<String>,
    body: Vec<Sx>,
    env: Env,
}

impl std::fmt::Debug for V {
    fn fmt(&self, f: &mut std::fmt::Formatter) -> std::fmt::Result {
        match self {
            V::Unspec => write!(f, "#<unspecified>"),
            V::Bool(b) => write!(f, "{}", if *b { "#t" } else { "#f" }),
            V::Int(i) => write!(f, "{i}"),
            V::Rat(n, d) => write!(f, "{n}/{d}"),
            V::Str(s) => write!(f, "{s:?}"),
            V::Char(c) => write!(f, "#\\x{:x}", *c as u32),
            V::Sym(s) => write!(f, "{s}"),
            V::List(l) => write!(f, "{:?}", l),
            V::Closure(_) => write!(f, "#<procedure>"),
            V::Prim(n) => write!(f, "#<procedure {n}>"),
            V::Printer(p, m, t) => write!(f, "#<printer port={p} mutex={m} term={t:?}>"),
            V::Port(p) => write!(f, "#<port {p}>"),
            V::Mutex(m) => write!(f, "#<mutex {m}>"),
            V::Opaque(s) => write!(f, "#<{s}>"),
        }
    }
}

impl V {
    pub fn truthy(&self) -> bool {
        !matches!(self, V::Bool(false))
    }
    fn str(s: &str) -> V {
        V::Str(Rc::from(s))
    }
}

pub type Env = Rc<Frame>;
pub fn new_env() -> Env {
    Rc::new(Frame { vars: RefCell::new(vec![]), parent: None })
}
pub struct Frame {
    vars: RefCell<Vec<(String, V)>>,
    parent: Option<Env>,
}

fn lookup(env: &Env, name: &str) -> Option<V> {
    let mut e = Some(env);
    while let Some(fr) = e {
        if let Some((_, v)) = fr.vars.borrow().iter().rev().find(|(n, _)| n == name) {
            return Some(v.clone());
        }
        e = fr.parent.as_ref();
    }
    None
}

#[derive(Debug, Clone, PartialEq, Eq)]
pub enum Event {
    Lock(usize),
    Unlock(usize),
    /// write of a complete record by a runtime printer: payload, terminator
    Record { port: usize, payload: String, term: Option<char>, direct: bool },
    /// raw `display` of text on a port
    Raw { port: usize, text: String },
    Break(i128),
    ClosePort(usize),
}

#[derive(Debug, Clone, PartialEq, Eq)]
pub enum PortKind {
    Stdout,
    File(String, String),
}

#[derive(Debug, Clone)]
pub struct ScanCall {
    pub device: V,
    pub mount: V,
    pub attrs: V,
    pub threads: V,
}

#[derive(Debug, Clone)]
pub struct FileRun {
    pub truthy: bool,
    /// events produced while running the policy on this file
    pub events: Vec<Event>,
    pub error: Option<String>,
}

pub struct World {
    pub files: Vec<FileRec>,
    pub ports: Vec<PortKind>,
    pub n_mutex: usize,
    pub held: Vec<usize>,
    pub cur: Option<usize>,
    pub events: Vec<Event>,
    pub modules: Vec<String>,
    pub scan: Option<ScanCall>,
    pub runs: Vec<FileRun>,
    pub break_requested: bool,
    /// events outside any file run (initialisation / termination thunks)
    pub steps: u64,
    /// symbols looked up as globals that are not part of the runtime vocabulary
    pub unknown_globals: Vec<String>,
    pub stop_on_break: bool,
    /// let/let* frames (a lambda bound there captures the frame that holds it: an Rc cycle that
    /// is broken when the world is dropped)
    frames: Vec<Env>,
}

impl Drop for World {
    fn drop(&mut self) {
        for f in self.frames.drain(..) {
            f.vars.borrow_mut().clear();
        }
    }
}

const STEP_LIMIT: u64 = 5_000_000;

pub const RUNTIME_GLOBALS: &[&str] = &[
    // core
    "=", "<", ">", "<=", ">=", "+", "-", "*", "/", "quotient", "remainder", "modulo", "logand", "logior", "not", "member", "equal?", "eq?", "string", "string-append", "display", "newline", "format",
    "dynamic-wind", "list", "string=?", "number->string", "call-with-output-string",
    // more of the standard core, so that an equivalent program written with other standard procedures
    // is executed rather than rejected
    "zero?", "positive?", "negative?", "even?", "odd?", "1+", "1-", "max", "min", "abs", "logxor", "lognot", "ash", "logtest", "logbit?", "memq", "memv", "eqv?", "null?", "pair?", "list?",
    "car", "cdr", "cons", "cadr", "length", "append", "reverse", "apply", "map", "for-each", "string-length", "string-prefix?", "string-suffix?", "string-contains", "string-downcase", "string-upcase",
    "string-ci=?", "string<?", "char=?", "string-ref", "substring", "number?", "integer?", "string?", "boolean?", "symbol?", "procedure?", "char->integer", "integer->char", "list-ref", "string->number",
    "string-null?", "values", "identity", "assoc", "assq", "assv", "expt", "exact", "truncate-quotient", "floor-quotient",
    // (ice-9 threads) / ports
    "make-mutex", "lock-mutex", "unlock-mutex", "current-output-port", "current-error-port", "open-file", "open-output-file", "close-port", "force-output",
    // (lipe) / (lipe find)
    "lipe-scan", "lipe-scan-break", "lipe-getopt-client-mount-path", "lipe-getopt-required-attrs", "lipe-getopt-thread-count", "lipe-scan-client-mount-path", "size", "mode", "uid", "gid", "ino",
    "nlink", "blocks", "atime", "ctime", "mtime", "projid", "type", "name", "relative-path", "absolute-path", "file-fid", "lov-pools", "lov-stripe-count", "lov-stripe-size", "lov-mirror-count",
    "xattr?", "xattr-ref-string", "xattr-match?", "empty", "executable", "readable", "writable", "user", "group", "call-with-name", "call-with-relative-path", "call-with-absolute-path", "streq?",
    "streq-ci?", "fnmatch?", "fnmatch-ci?", "round-up-power-of-2", "make-printer", "print-relative-path", "print-absolute-path", "print-file-fid", "strftime", "localtime", "type->char", "dirname",
    "basename",
];

pub const SPECIAL_FORMS: &[&str] = &["let*", "let", "letrec", "lambda", "and", "or", "if", "cond", "case", "else", "=>", "with-mutex", "use-modules", "quote", "begin", "when", "unless", "define", "set!"];

fn gcd(a: i128, b: i128) -> i128 {
    if b == 0 {
        a.abs()
    } else {
        gcd(b, a % b)
    }
}

type R = Result<V, String>;

impl World {
    pub fn new(files: Vec<FileRec>) -> World {
        World {
            files,
            ports: vec![PortKind::Stdout],
            n_mutex: 0,
            held: vec![],
            cur: None,
            events: vec![],
            modules: vec![],
            scan: None,
            runs: vec![],
            break_requested: false,
            steps: 0,
            unknown_globals: vec![],
            stop_on_break: true,
            frames: vec![],
        }
    }

    fn file(&self) -> Result<&FileRec, String> {
        match self.cur {
            Some(i) => Ok(&self.files[i]),
            None => Err("file attribute accessed outside a scan callback".into()),
        }
    }

    pub fn eval(&mut self, x: &Sx, env: &Env) -> R {
        self.steps += 1;
        if self.steps > STEP_LIMIT {
            return Err("step limit exceeded".into());
        }
        match x {
            Sx::Bool(b) => Ok(V::Bool(*b)),
            Sx::Int(Some(v), _) => Ok(V::Int(*v)),
            Sx::Int(None, d) => Err(format!("integer literal {d} outside the evaluator's range")),
            Sx::Real(s) => Err(format!("inexact/rational literal {s} not modelled")),
            Sx::Str(s) => Ok(V::str(s)),
            Sx::Char(c) => Ok(V::Char(*c)),
            Sx::Sym(s) => {
                if let Some(v) = lookup(env, s) {
                    return Ok(v);
                }
                if let Some(p) = RUNTIME_GLOBALS.iter().find(|g| **g == s.as_str()) {
                    return Ok(V::Prim(p));
                }
                self.unknown_globals.push(s.clone());
                Err(format!("Unbound variable: {s}"))
            }
            Sx::List(items) => {
                if items.is_empty() {
                    return Err("empty combination ()".into());
                }
                if let Some(h) = items[0].sym() {
                    if lookup(env, h).is_none() {
                        if let Some(r) = self.special(h, items, env) {
                            return r;
                        }
                    }
                }
                let f = self.eval(&items[0], env)?;
                let mut args = Vec::with_capacity(items.len() - 1);
                for a in &items[1..] {
                    args.push(self.eval(a, env)?);
                }
                self.apply(&f, args)
            }
        }
    }

    fn body(&mut self, forms: &[Sx], env: &Env) -> R {
        let mut last = V::Unspec;
        for f in forms {
            last = self.eval(f, env)?;
        }
        Ok(last)
    }

    fn special(&mut self, h: &str, items: &[Sx], env: &Env) -> Option<R> {
        Some(match h {
            "use-modules" => {
                for m in &items[1..] {
                    self.modules.push(format!("{m:?}"));
                }
                Ok(V::Unspec)
            }
            "quote" => match items.get(1) {
                Some(d) => Ok(quote(d)),
                None => Err("bad quote".into()),
            },
            "let*" | "let" => (|| {
                let binds = items.get(1).and_then(|b| b.list()).ok_or("let*: bad binding list")?;
                let new = Rc::new(Frame { vars: RefCell::new(vec![]), parent: Some(env.clone()) });
                self.frames.push(new.clone());
                for b in binds {
                    let pair = b.list().ok_or("let*: binding is not a list")?;
                    if pair.len() != 2 {
                        return Err(format!("let*: bad binding {b:?}"));
                    }
                    let name = pair[0].sym().ok_or("let*: binding name is not a symbol")?;
                    let scope = if h == "let*" { &new } else { env };
                    let v = self.eval(&pair[1], scope)?;
                    new.vars.borrow_mut().push((name.to_string(), v));
                }
                if items.len() < 3 {
                    return Err("let*: empty body".into());
                }
                self.body(&items[2..], &new)
            })(),
            "lambda" => (|| {
                let params = items.get(1).and_then(|b| b.list()).ok_or("lambda: bad parameter list")?;
                let params: Vec<String> = params.iter().map(|p| p.sym().map(|s| s.to_string()).ok_or("lambda: parameter is not a symbol")).collect::<Result<_, _>>()?;
                if items.len() < 3 {
                    return Err("lambda: empty body".into());
                }
                Ok(V::Closure(Rc::new(Closure { params, body: items[2..].to_vec(), env: env.clone() })))
            })(),
            "and" => (|| {
                let mut last = V::Bool(true);
                for a in &items[1..] {
                    last = self.eval(a, env)?;
                    if !last.truthy() {
                        return Ok(last);
                    }
                }
                Ok(last)
            })(),
            "or" => (|| {
                for a in &items[1..] {
                    let v = self.eval(a, env)?;
                    if v.truthy() {
                        return Ok(v);
                    }
                }
                Ok(V::Bool(false))
            })(),
            "if" => (|| {
                if items.len() < 3 || items.len() > 4 {
                    return Err("if: bad syntax".into());
                }
                if self.eval(&items[1], env)?.truthy() {
                    self.eval(&items[2], env)
                } else if let Some(e) = items.get(3) {
                    self.eval(e, env)
                } else {
                    Ok(V::Unspec)
                }
            })(),
            "begin" => self.body(&items[1..], env),
            "cond" => (|| {
                for clause in &items[1..] {
                    let c = clause.list().ok_or("cond: bad clause")?;
                    let Some(test) = c.first() else { return Err("cond: empty clause".into()) };
                    let v = if test.is_sym("else") { V::Bool(true) } else { self.eval(test, env)? };
                    if v.truthy() {
                        if c.len() == 1 {
                            return Ok(v);
                        }
                        if c.len() == 3 && c[1].is_sym("=>") {
                            let f = self.eval(&c[2], env)?;
                            return self.apply(&f, vec![v]);
                        }
                        return self.body(&c[1..], env);
                    }
                }
                Ok(V::Unspec)
            })(),
            "case" => (|| {
                let key = self.eval(items.get(1).ok_or("case: bad syntax")?, env)?;
                for clause in &items[2..] {
                    let c = clause.list().ok_or("case: bad clause")?;
                    let Some(data) = c.first() else { return Err("case: empty clause".into()) };
                    let hit = if data.is_sym("else") { true } else { data.list().ok_or("case: bad datum list")?.iter().any(|d| equal(&quote(d), &key)) };
                    if hit {
                        return self.body(&c[1..], env);
                    }
                }
                Ok(V::Unspec)
            })(),
            "define" => (|| {
                // (define name value) or (define (name params...) body...) in the current frame
                match items.get(1) {
                    Some(Sx::Sym(n)) => {
                        let v = match items.get(2) {
                            Some(x) => self.eval(x, env)?,
                            None => V::Unspec,
                        };
                        env.vars.borrow_mut().push((n.clone(), v));
                        Ok(V::Unspec)
                    }
                    Some(Sx::List(sig)) if !sig.is_empty() => {
                        let n = sig[0].sym().ok_or("define: bad name")?.to_string();
                        let mut lam = vec![Sx::Sym("lambda".into()), Sx::List(sig[1..].to_vec())];
                        lam.extend(items[2..].iter().cloned());
                        let v = self.eval(&Sx::List(lam), env)?;
                        env.vars.borrow_mut().push((n, v));
                        Ok(V::Unspec)
                    }
                    _ => Err("define: bad syntax".into()),
                }
            })(),
            "set!" => (|| {
                let n = items.get(1).and_then(|x| x.sym()).ok_or("set!: bad syntax")?;
                let v = self.eval(items.get(2).ok_or("set!: bad syntax")?, env)?;
                let mut e = Some(env);
                while let Some(fr) = e {
                    if let Some(slot) = fr.vars.borrow_mut().iter_mut().rev().find(|(k, _)| k == n) {
                        slot.1 = v;
                        return Ok(V::Unspec);
                    }
                    e = fr.parent.as_ref();
                }
                Err(format!("set!: unbound variable {n}"))
            })(),
            "when" | "unless" => (|| {
                let c = self.eval(items.get(1).ok_or("when: bad syntax")?, env)?.truthy();
                if c == (h == "when") {
                    self.body(&items[2..], env)
                } else {
                    Ok(V::Unspec)
                }
            })(),
            "with-mutex" => (|| {
                let m = match self.eval(items.get(1).ok_or("with-mutex: bad syntax")?, env)? {
                    V::Mutex(m) => m,
                    other => return Err(format!("with-mutex: not a mutex: {other:?}")),
                };
                if self.held.contains(&m) {
                    return Err(format!("with-mutex: mutex {m} already held by this thread (deadlock)"));
                }
                self.held.push(m);
                self.events.push(Event::Lock(m));
                let r = self.body(&items[2..], env);
                self.events.push(Event::Unlock(m));
                self.held.retain(|x| *x != m);
                r
            })(),
            _ => return None,
        })
    }

    pub fn apply(&mut self, f: &V, args: Vec<V>) -> R {
        match f {
            V::Closure(c) => {
                if c.params.len() != args.len() {
                    return Err(format!("wrong number of arguments to procedure: expected {}, got {}", c.params.len(), args.len()));
                }
                let fr = Rc::new(Frame { vars: RefCell::new(c.params.iter().cloned().zip(args).collect()), parent: Some(c.env.clone()) });
                self.body(&c.body.clone(), &fr)
            }
            V::Prim(name) => self.prim(name, args),
            V::Printer(port, mutex, term) => {
                if args.len() != 1 {
                    return Err(format!("printer: expected 1 argument, got {}", args.len()));
                }
                let payload = display_string(&args[0]);
                self.events.push(Event::Lock(*mutex));
                self.events.push(Event::Record { port: *port, payload, term: *term, direct: false });
                self.events.push(Event::Unlock(*mutex));
                Ok(V::Bool(true))
            }
            other => Err(format!("Wrong type to apply: {other:?}")),
        }
    }

    fn prim(&mut self, name: &str, a: Vec<V>) -> R {
        let argc = |n: usize| -> Result<(), String> {
            if a.len() == n {
                Ok(())
            } else {
                Err(format!("{name}: wrong number of arguments (expected {n}, got {})", a.len()))
            }
        };
        let int = |i: usize| -> Result<i128, String> {
            match a.get(i) {
                Some(V::Int(v)) => Ok(*v),
                Some(o) => Err(format!("{name}: wrong type argument in position {}: {o:?}", i + 1)),
                None => Err(format!("{name}: missing argument {}", i + 1)),
            }
        };
        let string = |i: usize| -> Result<Rc<str>, String> {
            match a.get(i) {
                Some(V::Str(s)) => Ok(s.clone()),
                Some(o) => Err(format!("{name}: wrong type argument in position {} (expected string): {o:?}", i + 1)),
                None => Err(format!("{name}: missing argument {}", i + 1)),
            }
        };
        match name {
            "=" | "<" | ">" | "<=" | ">=" => {
                if a.len() < 2 {
                    return Err(format!("{name}: needs two arguments"));
                }
                let mut ok = true;
                for i in 0..a.len() - 1 {
                    let (x, y) = (num(&a[i], name)?, num(&a[i + 1], name)?);
                    // compare n1/d1 with n2/d2
                    let (l, r) = (x.0 * y.1, y.0 * x.1);
                    ok &= match name {
                        "=" => l == r,
                        "<" => l < r,
                        ">" => l > r,
                        "<=" => l <= r,
                        _ => l >= r,
                    };
                }
                Ok(V::Bool(ok))
            }
            "+" => {
                let mut s: i128 = 0;
                for i in 0..a.len() {
                    s = s.checked_add(int(i)?).ok_or("+: overflow in model")?;
                }
                Ok(V::Int(s))
            }
            "*" => {
                let mut s: i128 = 1;
                for i in 0..a.len() {
                    s = s.checked_mul(int(i)?).ok_or("*: overflow in model")?;
                }
                Ok(V::Int(s))
            }
            "-" => {
                if a.is_empty() {
                    return Err("-: needs an argument".into());
                }
                if a.len() == 1 {
                    return Ok(V::Int(-int(0)?));
                }
                let mut s = int(0)?;
                for i in 1..a.len() {
                    s = s.checked_sub(int(i)?).ok_or("-: overflow in model")?;
                }
                Ok(V::Int(s))
            }
            "/" => {
                argc(2)?;
                let (n, d) = (int(0)?, int(1)?);
                if d == 0 {
                    return Err("/: Numerical overflow (division by zero)".into());
                }
                let g = gcd(n, d);
                let (mut n, mut d) = (n / g, d / g);
                if d < 0 {
                    n = -n;
                    d = -d;
                }
                Ok(if d == 1 { V::Int(n) } else { V::Rat(n, d) })
            }
            "quotient" | "remainder" | "modulo" => {
                argc(2)?;
                let (n, d) = (int(0)?, int(1)?);
                if d == 0 {
                    return Err(format!("{name}: Numerical overflow (division by zero)"));
                }
                Ok(V::Int(match name {
                    "quotient" => n / d,
                    "remainder" => n % d,
                    _ => n.rem_euclid(d),
                }))
            }
            "logand" => {
                let mut s: i128 = -1;
                for i in 0..a.len() {
                    s &= int(i)?;
                }
                Ok(V::Int(s))
            }
            "logior" => {
                let mut s: i128 = 0;
                for i in 0..a.len() {
                    s |= int(i)?;
                }
                Ok(V::Int(s))
            }
            "not" => {
                argc(1)?;
                Ok(V::Bool(!a[0].truthy()))
            }
            "zero?" | "positive?" | "negative?" => {
                argc(1)?;
                let (n, _) = num(&a[0], name)?;
                Ok(V::Bool(match name {
                    "zero?" => n == 0,
                    "positive?" => n > 0,
                    _ => n < 0,
                }))
            }
            "even?" | "odd?" => {
                argc(1)?;
                Ok(V::Bool((int(0)?.rem_euclid(2) == 0) == (name == "even?")))
            }
            "1+" => {
                argc(1)?;
                Ok(V::Int(int(0)? + 1))
            }
            "1-" => {
                argc(1)?;
                Ok(V::Int(int(0)? - 1))
            }
            "max" | "min" => {
                if a.is_empty() {
                    return Err(format!("{name}: needs an argument"));
                }
                let mut best = int(0)?;
                for i in 1..a.len() {
                    let v = int(i)?;
                    best = if name == "max" { best.max(v) } else { best.min(v) };
                }
                Ok(V::Int(best))
            }
            "abs" => {
                argc(1)?;
                Ok(V::Int(int(0)?.abs()))
            }
            "expt" => {
                argc(2)?;
                let (b, e) = (int(0)?, int(1)?);
                if !(0..=126).contains(&e) {
                    return Err("expt: exponent outside the evaluator's range".into());
                }
                b.checked_pow(e as u32).map(V::Int).ok_or_else(|| "expt: result outside the evaluator's range".to_string())
            }
            "truncate-quotient" | "floor-quotient" => {
                argc(2)?;
                let (n, d) = (int(0)?, int(1)?);
                if d == 0 {
                    return Err(format!("{name}: division by zero"));
                }
                Ok(V::Int(if name == "truncate-quotient" { n / d } else { n.div_euclid(d) }))
            }
            "logxor" => {
                let mut v = 0i128;
                for i in 0..a.len() {
                    v ^= int(i)?;
                }
                Ok(V::Int(v))
            }
            "lognot" => {
                argc(1)?;
                Ok(V::Int(!int(0)?))
            }
            "ash" => {
                argc(2)?;
                let (v, k) = (int(0)?, int(1)?);
                if k.abs() > 100 {
                    return Err("ash: shift outside the evaluator's range".into());
                }
                Ok(V::Int(if k >= 0 { v.checked_shl(k as u32).ok_or("ash: overflow")? } else { v >> (-k) as u32 }))
            }
            "logtest" => {
                argc(2)?;
                Ok(V::Bool(int(0)? & int(1)? != 0))
            }
            "logbit?" => {
                argc(2)?;
                let k = int(0)?;
                Ok(V::Bool((0..127).contains(&k) && (int(1)? >> k as u32) & 1 == 1))
            }
            "eqv?" => {
                argc(2)?;
                Ok(V::Bool(equal(&a[0], &a[1])))
            }
            "memq" | "memv" => {
                argc(2)?;
                match &a[1] {
                    V::List(l) => match l.iter().position(|x| equal(x, &a[0])) {
                        Some(p) => Ok(V::List(Rc::new(l[p..].to_vec()))),
                        None => Ok(V::Bool(false)),
                    },
                    o => Err(format!("{name}: wrong type argument (expected list): {o:?}")),
                }
            }
            "assoc" | "assq" | "assv" => {
                argc(2)?;
                match &a[1] {
                    V::List(l) => {
                        for e in l.iter() {
                            if let V::List(p) = e {
                                if p.first().map(|k| equal(k, &a[0])).unwrap_or(false) {
                                    return Ok(e.clone());
                                }
                            }
                        }
                        Ok(V::Bool(false))
                    }
                    o => Err(format!("{name}: wrong type argument (expected list): {o:?}")),
                }
            }
            "null?" => {
                argc(1)?;
                Ok(V::Bool(matches!(&a[0], V::List(l) if l.is_empty())))
            }
            "pair?" => {
                argc(1)?;
                Ok(V::Bool(matches!(&a[0], V::List(l) if !l.is_empty())))
            }
            "list?" => {
                argc(1)?;
                Ok(V::Bool(matches!(&a[0], V::List(_))))
            }
            "car" | "cdr" | "cadr" => {
                argc(1)?;
                match &a[0] {
                    V::List(l) if !l.is_empty() => match name {
                        "car" => Ok(l[0].clone()),
                        "cdr" => Ok(V::List(Rc::new(l[1..].to_vec()))),
                        _ => l.get(1).cloned().ok_or_else(|| "cadr: list too short".to_string()),
                    },
                    o => Err(format!("{name}: wrong type argument (expected pair): {o:?}")),
                }
            }
            "cons" => {
                argc(2)?;
                match &a[1] {
                    V::List(l) => {
                        let mut v = vec![a[0].clone()];
                        v.extend(l.iter().cloned());
                        Ok(V::List(Rc::new(v)))
                    }
                    o => Err(format!("cons: improper lists are not modelled (second argument {o:?})")),
                }
            }
            "length" => {
                argc(1)?;
                match &a[0] {
                    V::List(l) => Ok(V::Int(l.len() as i128)),
                    o => Err(format!("length: wrong type argument (expected list): {o:?}")),
                }
            }
            "append" => {
                let mut v = vec![];
                for x in &a {
                    match x {
                        V::List(l) => v.extend(l.iter().cloned()),
                        o => return Err(format!("append: wrong type argument (expected list): {o:?}")),
                    }
                }
                Ok(V::List(Rc::new(v)))
            }
            "reverse" => {
                argc(1)?;
                match &a[0] {
                    V::List(l) => Ok(V::List(Rc::new(l.iter().rev().cloned().collect()))),
                    o => Err(format!("reverse: wrong type argument (expected list): {o:?}")),
                }
            }
            "list-ref" => {
                argc(2)?;
                match &a[0] {
                    V::List(l) => l.get(int(1)?.max(0) as usize).cloned().ok_or_else(|| "list-ref: index out of range".to_string()),
                    o => Err(format!("list-ref: wrong type argument (expected list): {o:?}")),
                }
            }
            "apply" => {
                if a.len() < 2 {
                    return Err("apply: needs a procedure and a list".into());
                }
                let mut args: Vec<V> = a[1..a.len() - 1].to_vec();
                match &a[a.len() - 1] {
                    V::List(l) => args.extend(l.iter().cloned()),
                    o => return Err(format!("apply: last argument must be a list: {o:?}")),
                }
                let f = a[0].clone();
                self.apply(&f, args)
            }
            "map" | "for-each" => {
                if a.len() != 2 {
                    return Err(format!("{name}: one list only is modelled"));
                }
                let f = a[0].clone();
                let l = match &a[1] {
                    V::List(l) => l.clone(),
                    o => return Err(format!("{name}: wrong type argument (expected list): {o:?}")),
                };
                let mut out = vec![];
                for x in l.iter() {
                    out.push(self.apply(&f, vec![x.clone()])?);
                }
                Ok(if name == "map" { V::List(Rc::new(out)) } else { V::Unspec })
            }
            "values" | "identity" | "exact" => {
                argc(1)?;
                Ok(a[0].clone())
            }
            "string-length" => {
                argc(1)?;
                Ok(V::Int(string(0)?.chars().count() as i128))
            }
            "string-null?" => {
                argc(1)?;
                Ok(V::Bool(string(0)?.is_empty()))
            }
            "string-prefix?" | "string-suffix?" => {
                argc(2)?;
                let (p, t) = (string(0)?, string(1)?);
                Ok(V::Bool(if name == "string-prefix?" { t.starts_with(&*p) } else { t.ends_with(&*p) }))
            }
            "string-contains" => {
                argc(2)?;
                let (t, p) = (string(0)?, string(1)?);
                Ok(match t.find(&*p) {
                    Some(i) => V::Int(t[..i].chars().count() as i128),
                    None => V::Bool(false),
                })
            }
            "string-downcase" => {
                argc(1)?;
                Ok(V::str(&string(0)?.to_lowercase()))
            }
            "string-upcase" => {
                argc(1)?;
                Ok(V::str(&string(0)?.to_uppercase()))
            }
            "string-ci=?" => {
                argc(2)?;
                Ok(V::Bool(string(0)?.to_lowercase() == string(1)?.to_lowercase()))
            }
            "string<?" => {
                argc(2)?;
                Ok(V::Bool(string(0)? < string(1)?))
            }
            "char=?" => {
                argc(2)?;
                Ok(V::Bool(matches!((&a[0], &a[1]), (V::Char(x), V::Char(y)) if x == y)))
            }
            "string-ref" => {
                argc(2)?;
                string(0)?.chars().nth(int(1)?.max(0) as usize).map(V::Char).ok_or_else(|| "string-ref: index out of range".to_string())
            }
            "substring" => {
                if a.len() < 2 || a.len() > 3 {
                    return Err("substring: wrong number of arguments".into());
                }
                let cs: Vec<char> = string(0)?.chars().collect();
                let (from, to) = (int(1)?.max(0) as usize, if a.len() == 3 { int(2)?.max(0) as usize } else { cs.len() });
                if from > to || to > cs.len() {
                    return Err("substring: index out of range".into());
                }
                Ok(V::str(&cs[from..to].iter().collect::<String>()))
            }
            "number?" | "integer?" | "string?" | "boolean?" | "symbol?" | "procedure?" => {
                argc(1)?;
                Ok(V::Bool(match (name, &a[0]) {
                    ("number?", V::Int(_) | V::Rat(..)) | ("integer?", V::Int(_)) | ("string?", V::Str(_)) | ("boolean?", V::Bool(_)) | ("symbol?", V::Sym(_)) => true,
                    ("procedure?", V::Closure(_) | V::Prim(_) | V::Printer(..)) => true,
                    _ => false,
                }))
            }
            "char->integer" => {
                argc(1)?;
                match &a[0] {
                    V::Char(c) => Ok(V::Int(*c as i128)),
                    o => Err(format!("char->integer: wrong type argument: {o:?}")),
                }
            }
            "integer->char" => {
                argc(1)?;
                u32::try_from(int(0)?).ok().and_then(char::from_u32).map(V::Char).ok_or_else(|| "integer->char: out of range".to_string())
            }
            "string->number" => {
                argc(1)?;
                Ok(string(0)?.parse::<i128>().map(V::Int).unwrap_or(V::Bool(false)))
            }
            "equal?" | "eq?" | "string=?" => {
                argc(2)?;
                Ok(V::Bool(equal(&a[0], &a[1])))
            }
            "member" => {
                argc(2)?;
                match &a[1] {
                    V::List(l) => match l.iter().position(|x| equal(x, &a[0])) {
                        Some(p) => Ok(V::List(Rc::new(l[p..].to_vec()))),
                        None => Ok(V::Bool(false)),
                    },
                    o => Err(format!("member: wrong type argument (expected list): {o:?}")),
                }
            }
            "list" => Ok(V::List(Rc::new(a))),
            "string" => {
                let mut s = String::new();
                for x in &a {
                    match x {
                        V::Char(c) => s.push(*c),
                        o => return Err(format!("string: wrong type argument (expected char): {o:?}")),
                    }
                }
                Ok(V::str(&s))
            }
            "string-append" => {
                let mut s = String::new();
                for i in 0..a.len() {
                    s.push_str(&string(i)?);
                }
                Ok(V::str(&s))
            }
            "number->string" => {
                argc(1)?;
                Ok(V::str(&int(0)?.to_string()))
            }
            "display" => {
                if a.is_empty() || a.len() > 2 {
                    return Err("display: wrong number of arguments".into());
                }
                let port = match a.get(1) {
                    Some(V::Port(p)) => *p,
                    None => 0,
                    Some(o) => return Err(format!("display: not a port: {o:?}")),
                };
                self.events.push(Event::Raw { port, text: display_string(&a[0]) });
                Ok(V::Unspec)
            }
            "newline" => {
                let port = match a.first() {
                    Some(V::Port(p)) => *p,
                    None => 0,
                    Some(o) => return Err(format!("newline: not a port: {o:?}")),
                };
                self.events.push(Event::Raw { port, text: "\n".into() });
                Ok(V::Unspec)
            }
            "format" => self.format(&a),
            "dynamic-wind" => {
                argc(3)?;
                self.apply(&a[0], vec![])?;
                let r = self.apply(&a[1], vec![]);
                let after = self.apply(&a[2], vec![]);
                let r = r?;
                after?;
                Ok(r)
            }
            "make-mutex" => {
                self.n_mutex += 1;
                Ok(V::Mutex(self.n_mutex - 1))
            }
            "lock-mutex" | "unlock-mutex" => {
                argc(1)?;
                match &a[0] {
                    V::Mutex(m) => {
                        if name == "lock-mutex" {
                            if self.held.contains(m) {
                                return Err("lock-mutex: already held by this thread (deadlock)".into());
                            }
                            self.held.push(*m);
                            self.events.push(Event::Lock(*m));
                        } else {
                            self.held.retain(|x| x != m);
                            self.events.push(Event::Unlock(*m));
                        }
                        Ok(V::Unspec)
                    }
                    o => Err(format!("{name}: not a mutex: {o:?}")),
                }
            }
            "current-output-port" => {
                argc(0)?;
                Ok(V::Port(0))
            }
            "current-error-port" => {
                // the standard error stream: one port shared by all threads, modelled as a file of its own
                argc(0)?;
                let idx = match self.ports.iter().position(|p| matches!(p, PortKind::File(n, _) if n == "<standard error>")) {
                    Some(i) => i,
                    None => {
                        self.ports.push(PortKind::File("<standard error>".to_string(), "w".to_string()));
                        self.ports.len() - 1
                    }
                };
                Ok(V::Port(idx))
            }
            "open-file" | "open-output-file" => {
                let fname = string(0)?;
                let mode = if name == "open-file" { string(1)?.to_string() } else { "w".to_string() };
                self.ports.push(PortKind::File(fname.to_string(), mode));
                Ok(V::Port(self.ports.len() - 1))
            }
            "close-port" => {
                argc(1)?;
                match &a[0] {
                    V::Port(p) => {
                        self.events.push(Event::ClosePort(*p));
                        Ok(V::Bool(true))
                    }
                    o => Err(format!("close-port: not a port: {o:?}")),
                }
            }
            "force-output" => Ok(V::Unspec),
            "make-printer" => {
                argc(3)?;
                let port = match &a[0] {
                    V::Port(p) => *p,
                    o => return Err(format!("make-printer: not a port: {o:?}")),
                };
                let mutex = match &a[1] {
                    V::Mutex(m) => *m,
                    o => return Err(format!("make-printer: not a mutex: {o:?}")),
                };
                let term = match &a[2] {
                    V::Bool(false) => None,
                    V::Char(c) => Some(*c),
                    o => return Err(format!("make-printer: terminator must be a char or #f: {o:?}")),
                };
                Ok(V::Printer(port, mutex, term))
            }
            // ---- scan driver
            "lipe-scan" => {
                argc(5)?;
                if self.scan.is_some() {
                    return Err("lipe-scan called twice".into());
                }
                self.scan = Some(ScanCall { device: a[0].clone(), mount: a[1].clone(), attrs: a[3].clone(), threads: a[4].clone() });
                match &a[0] {
                    V::Str(_) => {}
                    o => return Err(format!("lipe-scan: device is not a string: {o:?}")),
                }
                match &a[4] {
                    V::Int(n) if *n >= 0 => {}
                    V::Opaque(_) => {}
                    o => return Err(format!("lipe-scan: bad thread count {o:?}")),
                }
                let thunk = a[2].clone();
                for i in 0..self.files.len() {
                    if self.break_requested && self.stop_on_break {
                        break;
                    }
                    self.cur = Some(i);
                    let mark = self.events.len();
                    let r = self.apply(&thunk, vec![]);
                    let events = self.events[mark..].to_vec();
                    // a failed callback may leave mutexes held in the model; reset
                    self.held.clear();
                    match r {
                        Ok(v) => self.runs.push(FileRun { truthy: v.truthy(), events, error: None }),
                        Err(e) => self.runs.push(FileRun { truthy: false, events, error: Some(e) }),
                    }
                }
                self.cur = None;
                Ok(V::Unspec)
            }
            "lipe-scan-break" => {
                let code = if a.is_empty() { 0 } else { int(0)? };
                self.file()?;
                self.break_requested = true;
                self.events.push(Event::Break(code));
                Ok(V::Bool(true))
            }
            "lipe-getopt-client-mount-path" | "lipe-scan-client-mount-path" => {
                argc(0)?;
                if name == "lipe-scan-client-mount-path" {
                    Ok(V::str(&self.file()?.mount.clone()))
                } else {
                    Ok(V::Opaque(Rc::from("getopt-client-mount-path")))
                }
            }
            "lipe-getopt-required-attrs" => {
                argc(0)?;
                Ok(V::Opaque(Rc::from("getopt-required-attrs")))
            }
            "lipe-getopt-thread-count" => {
                argc(0)?;
                Ok(V::Opaque(Rc::from("getopt-thread-count")))
            }
            // ---- attribute accessors
            "size" | "mode" | "uid" | "gid" | "ino" | "nlink" | "blocks" | "atime" | "ctime" | "mtime" | "projid" | "lov-stripe-count" | "lov-stripe-size" | "lov-mirror-count" => {
                argc(0)?;
                let f = self.file()?;
                Ok(V::Int(match name {
                    "size" => f.size as i128,
                    "mode" => f.mode as i128,
                    "uid" => f.uid as i128,
                    "gid" => f.gid as i128,
                    "ino" => f.ino as i128,
                    "nlink" => f.nlink as i128,
                    "blocks" => f.blocks as i128,
                    "atime" => f.atime as i128,
                    "ctime" => f.ctime as i128,
                    "mtime" => f.mtime as i128,
                    "projid" => f.projid as i128,
                    "lov-stripe-count" => f.stripe_count as i128,
                    "lov-stripe-size" => f.stripe_size as i128,
                    _ => f.mirror_count as i128,
                }))
            }
            "empty" | "executable" | "readable" | "writable" => {
                argc(0)?;
                let f = self.file()?;
                Ok(V::Bool(match name {
                    "empty" => f.empty,
                    "executable" => f.executable,
                    "readable" => f.readable,
                    _ => f.writable,
                }))
            }
            "type" => {
                argc(0)?;
                Ok(V::Opaque(Rc::from(format!("file-type:{}", type_letter(self.file()?.mode)).as_str())))
            }
            "type->char" => {
                argc(1)?;
                match &a[0] {
                    V::Opaque(s) if s.starts_with("file-type:") => Ok(V::Char(s.chars().last().unwrap())),
                    o => Err(format!("type->char: not a file type: {o:?}")),
                }
            }
            "name" => {
                argc(0)?;
                Ok(V::str(self.file()?.name()))
            }
            "relative-path" => {
                argc(0)?;
                Ok(V::str(&self.file()?.rel_path.clone()))
            }
            "absolute-path" => {
                argc(0)?;
                Ok(V::str(&self.file()?.abs_path()))
            }
            "file-fid" => {
                argc(0)?;
                Ok(V::str(&self.file()?.fid.clone()))
            }
            "user" => {
                argc(0)?;
                Ok(V::str(&user_name(self.file()?.uid)))
            }
            "group" => {
                argc(0)?;
                Ok(V::str(&group_name(self.file()?.gid)))
            }
            "lov-pools" => {
                argc(0)?;
                Ok(V::List(Rc::new(self.file()?.pools.iter().map(|p| V::str(p)).collect())))
            }
            "xattr?" => {
                argc(1)?;
                let n = string(0)?;
                Ok(V::Bool(self.file()?.xattr(&n).is_some()))
            }
            "xattr-ref-string" => {
                argc(1)?;
                let n = string(0)?;
                Ok(match self.file()?.xattr(&n) {
                    Some(v) => V::str(v),
                    None => V::Bool(false),
                })
            }
            "xattr-match?" => {
                argc(2)?;
                let (n, v) = (string(0)?, string(1)?);
                Ok(V::Bool(self.file()?.xattrs.iter().any(|(k, val)| fnmatch(&n, k, false) && fnmatch(&v, val, false))))
            }
            "call-with-name" | "call-with-relative-path" | "call-with-absolute-path" => {
                argc(1)?;
                let f = self.file()?;
                let s = match name {
                    "call-with-name" => f.name().to_string(),
                    "call-with-relative-path" => f.rel_path.clone(),
                    _ => f.abs_path(),
                };
                self.apply(&a[0].clone(), vec![V::str(&s)])
            }
            "streq?" | "streq-ci?" | "fnmatch?" | "fnmatch-ci?" => {
                argc(2)?;
                let (p, s) = (string(0)?, string(1)?);
                Ok(V::Bool(match name {
                    "streq?" => *p == *s,
                    "streq-ci?" => p.to_lowercase() == s.to_lowercase(),
                    "fnmatch?" => fnmatch(&p, &s, false),
                    _ => fnmatch(&p, &s, true),
                }))
            }
            "round-up-power-of-2" => {
                argc(2)?;
                let (x, y) = (int(0)?, int(1)?);
                if y <= 0 || x < 0 {
                    return Err("round-up-power-of-2: bad argument".into());
                }
                Ok(V::Int((x + y - 1) / y * y))
            }
            "print-relative-path" | "print-absolute-path" | "print-file-fid" => {
                argc(0)?;
                let f = self.file()?;
                let payload = match name {
                    "print-relative-path" => f.rel_path.clone(),
                    "print-absolute-path" => f.abs_path(),
                    _ => f.fid.clone(),
                };
                self.events.push(Event::Record { port: 0, payload, term: Some('\n'), direct: true });
                Ok(V::Bool(true))
            }
            "localtime" => {
                argc(1)?;
                Ok(V::Opaque(Rc::from(format!("tm:{}", int(0)?).as_str())))
            }
            "strftime" => {
                argc(2)?;
                let fmt = string(0)?;
                match &a[1] {
                    V::Opaque(s) if s.starts_with("tm:") => Ok(V::str(&strftime_standin(&fmt, s[3..].parse::<u64>().map_err(|e| e.to_string())?))),
                    o => Err(format!("strftime: not a broken-down time: {o:?}")),
                }
            }
            "dirname" => {
                argc(1)?;
                Ok(V::str(&dirname(&string(0)?)))
            }
            "basename" => {
                argc(1)?;
                let s = string(0)?;
                Ok(V::str(s.rsplit('/').next().unwrap_or(&s)))
            }
            other => Err(format!("primitive {other} is not modelled")),
        }
    }

    /// `(format #f template args...)` as in (ice-9 format), restricted to ~a ~s ~d ~o ~x ~f ~~ ~%.
    fn format(&mut self, a: &[V]) -> R {
        if a.len() < 2 {
            return Err("format: needs a destination and a template".into());
        }
        let to_string = match &a[0] {
            V::Bool(false) => true,
            V::Bool(true) | V::Port(_) => false,
            o => return Err(format!("format: bad destination {o:?}")),
        };
        let tmpl = match &a[1] {
            V::Str(s) => s.clone(),
            o => return Err(format!("format: template is not a string: {o:?}")),
        };
        let mut args = a[2..].iter();
        let mut out = String::new();
        let mut it = tmpl.chars();
        while let Some(c) = it.next() {
            if c != '~' {
                out.push(c);
                continue;
            }
            let d = it.next().ok_or("format: template ends in the middle of a directive")?;
            match d {
                '~' => out.push('~'),
                '%' => out.push('\n'),
                'a' | 'A' => out.push_str(&display_string(args.next().ok_or("format: missing argument for ~a")?)),
                's' | 'S' => out.push_str(&write_string(args.next().ok_or("format: missing argument for ~s")?)),
                'd' | 'D' | 'o' | 'O' | 'x' | 'X' => {
                    let v = args.next().ok_or("format: missing argument for numeric directive")?;
                    match v {
                        V::Int(i) => out.push_str(&match d {
                            'd' | 'D' => i.to_string(),
                            'o' | 'O' => {
                                if *i < 0 {
                                    format!("-{:o}", -i)
                                } else {
                                    format!("{i:o}")
                                }
                            }
                            _ => {
                                if *i < 0 {
                                    format!("-{:x}", -i)
                                } else {
                                    format!("{i:x}")
                                }
                            }
                        }),
                        // (ice-9 format) prints a non-number with ~a semantics
                        other => out.push_str(&display_string(other)),
                    }
                }
                'f' | 'F' => {
                    let v = args.next().ok_or("format: missing argument for ~f")?;
                    match v {
                        V::Int(i) => out.push_str(&format!("ratio<{i}/1>")),
                        V::Rat(n, d) => out.push_str(&format!("ratio<{n}/{d}>")),
                        o => return Err(format!("format: ~f needs a number, got {o:?}")),
                    }
                }
                other => return Err(format!("format: unknown directive ~{other}")),
            }
        }
        if args.next().is_some() {
            return Err("format: too many arguments for the template".into());
        }
        if to_string {
            Ok(V::str(&out))
        } else {
            let port = match &a[0] {
                V::Port(p) => *p,
                _ => 0,
            };
            self.events.push(Event::Raw { port, text: out });
            Ok(V::Unspec)
        }
    }
}

fn num(v: &V, who: &str) -> Result<(i128, i128), String> {
    match v {
        V::Int(i) => Ok((*i, 1)),
        V::Rat(n, d) => Ok((*n, *d)),
        o => Err(format!("{who}: wrong type argument (expected number): {o:?}")),
    }
}

fn quote(d: &Sx) -> V {
    match d {
        Sx::List(v) => V::List(Rc::new(v.iter().map(quote).collect())),
        Sx::Sym(s) => V::Sym(Rc::from(s.as_str())),
        Sx::Str(s) => V::str(s),
        Sx::Int(Some(v), _) => V::Int(*v),
        Sx::Int(None, d) => V::Sym(Rc::from(d.as_str())),
        Sx::Char(c) => V::Char(*c),
        Sx::Bool(b) => V::Bool(*b),
        Sx::Real(s) => V::Sym(Rc::from(s.as_str())),
    }
}

pub fn equal(a: &V, b: &V) -> bool {
    match (a, b) {
        (V::Bool(x), V::Bool(y)) => x == y,
        (V::Int(x), V::Int(y)) => x == y,
        (V::Rat(a1, a2), V::Rat(b1, b2)) => a1 == b1 && a2 == b2,
        (V::Str(x), V::Str(y)) => x == y,
        (V::Char(x), V::Char(y)) => x == y,
        (V::Sym(x), V::Sym(y)) => x == y,
        (V::List(x), V::List(y)) => x.len() == y.len() && x.iter().zip(y.iter()).all(|(p, q)| equal(p, q)),
        (V::Port(x), V::Port(y)) => x == y,
        (V::Mutex(x), V::Mutex(y)) => x == y,
        (V::Unspec, V::Unspec) => true,
        _ => false,
    }
}

pub fn display_string(v: &V) -> String {
    match v {
        V::Str(s) => s.to_string(),
        V::Char(c) => c.to_string(),
        V::Int(i) => i.to_string(),
        V::Rat(n, d) => format!("{n}/{d}"),
        V::Bool(b) => if *b { "#t" } else { "#f" }.to_string(),
        V::Sym(s) => s.to_string(),
        V::List(l) => format!("({})", l.iter().map(display_string).collect::<Vec<_>>().join(" ")),
        V::Unspec => "#<unspecified>".into(),
        other => format!("{other:?}"),
    }
}

pub fn write_string(v: &V) -> String {
    match v {
        V::Str(s) => crate::sx::write_string(s),
        V::Char(c) => format!("#\\{c}"),
        other => display_string(other),
    }
}

/// ratio stand-in used by `~f`; the specification side renders %S the same way
pub fn ratio_standin(blocks: u64, size: u64) -> String {
    let n = 512i128 * blocks as i128;
    let d = size as i128;
    let g = gcd(n, d);
    format!("ratio<{}/{}>", n / g, d / g)
}

/// Run a whole program text on a file set.
pub struct ProgramRun {
    pub world: World,
    pub forms: Vec<Sx>,
    pub error: Option<String>,
}

pub fn run_program(text: &str, files: Vec<FileRec>) -> Result<ProgramRun, String> {
    let forms = crate::sx::read_all(text).map_err(|e| format!("read error: {e}"))?;
    let mut world = World::new(files);
    let env: Env = Rc::new(Frame { vars: RefCell::new(vec![]), parent: None });
    let mut error = None;
    for f in &forms {
        if let Err(e) = world.eval(f, &env) {
            error = Some(e);
            break;
        }
    }
    Ok(ProgramRun { world, forms, error })
}

/// Decode a framed stream: payload · U+001E · tag, on characters.
/// Returns the frames or the position at which decoding failed.
pub fn decode_frames(stream: &str, is_tag: &dyn Fn(char) -> bool) -> Result<Vec<(String, char)>, String> {
    // The separator may also occur inside a payload only if user data contains it; the
    // generators never produce U+001E in user data, so a split at each separator is exact.
    let chars: Vec<char> = stream.chars().collect();
    let mut frames = vec![];
    let mut payload = String::new();
    let mut i = 0;
    while i < chars.len() {
        if chars[i] == '\u{1e}' {
            let tag = *chars.get(i + 1).ok_or("stream ends after a frame separator (missing tag)")?;
            if !is_tag(tag) {
                return Err(format!("frame tag {:?} (U+{:04X}) is not a key of the destination table", tag, tag as u32));
            }
            frames.push((std::mem::take(&mut payload), tag));
            i += 2;
        } else {
            payload.push(chars[i]);
            i += 1;
        }
    }
    if !payload.is_empty() {
        return Err(format!("{} trailing characters belong to no frame: {:?}", payload.chars().count(), crate::util::truncate(&payload, 60)));
    }
    Ok(frames)
}

pub fn _unused(_: &HashMap<u8, u8>) {}


#[cfg(test)]
mod tests {
    use super::*;
    fn run(src: &str) -> Result<String, String> {
        let forms = crate::sx::read_all(src)?;
        let mut w = World::new(vec![]);
        let env = new_env();
        let mut last = V::Unspec;
        for f in &forms {
            last = w.eval(f, &env)?;
        }
        Ok(format!("{last:?}"))
    }
    #[test]
    fn standard_core() {
        for (src, want) in [
            ("(cond ((zero? 1) 'a) ((memq 'b '(a b c)) => car) (else 'z))", "b"),
            ("(case (+ 1 2) ((1 2) 'low) ((3 4) 'mid) (else 'high))", "mid"),
            ("(define (twice x) (* 2 x)) (map twice (list 1 2 3))", "[2, 4, 6]"),
            ("(let ((n 0)) (for-each (lambda (x) (set! n (+ n x))) '(1 2 3)) n)", "6"),
            ("(and (logtest 5 4) (logbit? 2 5) (= (ash 1 10) 1024) (= (logxor 6 3) 5))", "#t"),
            ("(string-append (string-upcase \"ab\") (substring \"hello\" 1 3) (number->string (string-length \"héé\")))", "\"ABel3\""),
            ("(apply max 1 '(7 3))", "7"),
            ("(if (string-prefix? \"ab\" \"abc\") (1+ (length (append '(1) '(2 3)))) 0)", "4"),
        ] {
            assert_eq!(run(src).unwrap(), want, "{src}");
        }
    }
}
