#![allow(dead_code, unused_imports, unused_variables, clippy::all)]
//! ffv library: reference models, Scheme reader/evaluator, generators and checks.
pub mod checks;
pub mod combo;
pub mod chmod;
pub mod corpus;
pub mod files;
pub mod fmtscan;
pub mod fnmatch;
pub mod interp;
pub mod policy;
pub mod scope;
pub mod speceval;
pub mod sx;
pub mod gen;
pub mod grammar;
pub mod render;
pub mod term;
pub mod tree;
pub mod util;
pub mod fuzzdec;
pub mod dict;
pub mod fuzzrun;
pub mod selftest;
