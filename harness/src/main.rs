#![allow(dead_code, unused_imports, unused_variables, clippy::all)]
//! ffv — property-based verification harness for lipe-find-parser.
//! See /verif/DESIGN.md.


use ffv::{checks, util};
use ffv::util::{Ctx, Tier};

fn usage() -> ! {
    eprintln!("usage: ffv check <ID> [--tier quick|thorough] [--seed N] [--part FILE]\n       ffv replay <ID> <file>\n       ffv dump <corpus> --seed N --tier T --out FILE");
    std::process::exit(2)
}

fn main() {
    let args: Vec<String> = std::env::args().skip(1).collect();
    if args.is_empty() {
        usage();
    }
    let mut tier = match std::env::var("VERIF_TIER").ok().as_deref() {
        Some("thorough") => Tier::Thorough,
        _ => Tier::Quick,
    };
    let mut seed: u64 = std::env::var("VERIF_SEED").ok().and_then(|s| s.trim().parse::<i128>().ok()).map(|v| v as u64).unwrap_or(0);
    let mut part = None;
    let mut out = None;
    let mut input: Option<String> = None;
    let mut trace: Option<String> = None;
    let mut only: Option<usize> = None;
    let mut pos = vec![];
    let mut i = 1;
    while i < args.len() {
        match args[i].as_str() {
            "--tier" => {
                i += 1;
                tier = match args.get(i).map(|s| s.as_str()) {
                    Some("quick") => Tier::Quick,
                    Some("thorough") => Tier::Thorough,
                    _ => usage(),
                };
            }
            "--seed" => {
                i += 1;
                seed = args.get(i).and_then(|s| s.parse::<i128>().ok()).map(|v| v as u64).unwrap_or_else(|| usage());
            }
            "--part" => {
                i += 1;
                part = args.get(i).cloned();
            }
            "--in" => {
                i += 1;
                input = args.get(i).cloned();
            }
            "--trace" => {
                i += 1;
                trace = args.get(i).cloned();
            }
            "--only" => {
                i += 1;
                only = args.get(i).and_then(|s| s.parse::<usize>().ok());
            }
            "--out" => {
                i += 1;
                out = args.get(i).cloned();
            }
            other => pos.push(other.to_string()),
        }
        i += 1;
    }
    util::install_quiet_panic_hook();
    match args[0].as_str() {
        "check" => {
            let id = pos.first().cloned().unwrap_or_else(|| usage());
            let ctx = Ctx { id, tier, seed, part };
            let t0 = std::time::Instant::now();
            let rep = match checks::run(&ctx) {
                Some(r) => r,
                None => {
                    eprintln!("unknown property {}", ctx.id);
                    std::process::exit(2)
                }
            };
            let other = if checks::two_profiles(&ctx.id) { util::run_other_profile(&ctx) } else { None };
            let envs = util::run_environments(&ctx);
            let code = util::finish(&ctx, rep, t0.elapsed().as_secs_f64(), other, envs);
            std::process::exit(code)
        }
        "replay" => {
            let id = pos.first().cloned().unwrap_or_else(|| usage());
            let file = pos.get(1).cloned().unwrap_or_else(|| usage());
            if let Some(code) = util::replay_in_recorded_environment(&file) {
                std::process::exit(code)
            }
            std::process::exit(checks::replay(&id, &file))
        }
        "c03-worker" => {
            let shard: usize = pos.first().and_then(|s| s.parse().ok()).unwrap_or_else(|| usage());
            let nshards: usize = pos.get(1).and_then(|s| s.parse().ok()).unwrap_or_else(|| usage());
            let out = out.unwrap_or_else(|| usage());
            std::process::exit(checks::c03::worker(shard, nshards, seed, tier, &out, trace.as_deref(), only))
        }
        "c03-one" => {
            let text = input.as_deref().and_then(|f| std::fs::read_to_string(f).ok()).unwrap_or_else(|| usage());
            let out = out.unwrap_or_else(|| usage());
            std::process::exit(checks::c03::one(&text, &out))
        }
        "mkcorpus" => {
            // (re)generate the committed seed corpora of the fuzz targets
            std::process::exit(ffv::fuzzdec::make_corpora(seed))
        }
        "dump" => {
            let corpus = pos.first().cloned().unwrap_or_else(|| usage());
            let out = out.unwrap_or_else(|| usage());
            std::process::exit(checks::dump(&corpus, seed, tier, input.as_deref(), &out))
        }
        _ => usage(),
    }
}
