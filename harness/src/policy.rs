//! Glue between the crate under test and the models: compile a tree, run the
//! emitted program on a file set in the runtime model, and compare what was
//! observed with the specification-side evaluation.

use crate::files::FileRec;
use crate::interp::{self, Event, PortKind, ProgramRun};
use crate::speceval::{self, Dest, Opts, Res};
use crate::tree::*;
use crate::util::{catch, now_secs};
use lipe_find_parser::{compile, RunOptions, Target};
use std::collections::BTreeMap;

#[derive(Debug, Clone)]
pub struct Compiled {
    pub text: String,
    /// destination table: tag -> (destination, terminator); None in plain mode
    pub io_map: Option<BTreeMap<u32, (Dest, Option<char>)>>,
    /// the wall-clock second during which compile ran
    pub now: u64,
}

pub fn target_to(t: &Target) -> (Dest, Option<char>) {
    match t {
        Target::Stdout(c) => (Dest::Stdout, *c),
        Target::File(n, c) => (Dest::File(n.clone()), *c),
    }
}

#[derive(Debug)]
pub enum CompileOutcome {
    Ok(Compiled),
    Err(String),
    Panic(String),
}

/// Compile with the clock bracketed so that `now` is the exact embedded second.
/// A refused compilation that got as far as emitting a time test, a matcher, a printer and an
/// action before the unsupported construct: run before some of the compilations under test, on
/// the same thread, so that state leaking out of a failed call becomes visible.
pub fn poison_compile() {
    let t = E::and(
        E::and(E::and(E::T(Tst::Time(Which::M, Cmp::Gt, 1, TUnit::D)), E::T(Tst::Name("poison*".into()))), E::and(E::A(Act::Print), E::A(Act::FPrint("poison.out".into())))),
        E::or(E::A(Act::Printf(vec![FEl::F(Fld::Name)])), E::T(Tst::U(UTest::User("bob".into())))),
    );
    let x = to_ast(&t);
    let _ = catch(|| compile(&x, &RunOptions::default()).map(|c| c.scheme("/poison")));
}

/// true in an environment run whose clock is moved forward by every reading (see util::environments)
fn clock_moves_per_reading() -> bool {
    static CELL: std::sync::OnceLock<bool> = std::sync::OnceLock::new();
    *CELL.get_or_init(|| crate::util::current_environment().map(|e| e["clock"]["step_ns"].as_u64().unwrap_or(0) > 0).unwrap_or(false))
}

pub fn compile_tree(e: &E, threads: Option<u32>, device: &str) -> CompileOutcome {
    if crate::util::stable_hash(&(e, threads)) % 8 == 0 {
        poison_compile();
    }
    // equal operator subtrees as one shared `Rc` node in half of the trees that have any (a DAG
    // compares equal to the tree built from separate copies and must be compiled like it)
    let x = if crate::util::stable_hash(&(e, 0x5eedu16)) % 2 == 0 && has_repeated_subtree(e) { to_ast_shared(e) } else { to_ast(e) };
    let mut opts = RunOptions::default();
    opts.threads = threads;
    // In an environment whose (moved) clock advances with every reading of any thread, the
    // readings of the other worker threads would push t0 and t1 apart: the bracketed compilation
    // is then done by one thread at a time.
    static CLOCK_TURN: std::sync::Mutex<()> = std::sync::Mutex::new(());
    let _turn = if clock_moves_per_reading() { Some(CLOCK_TURN.lock().unwrap_or_else(|e| e.into_inner())) } else { None };
    for _ in 0..200 {
        let t0 = now_secs();
        let r = catch(|| compile(&x, &opts).map(|c| (c.scheme(device), c.io_map())));
        let t1 = now_secs();
        match r {
            Err(p) => return CompileOutcome::Panic(p),
            Ok(Err(e)) => return CompileOutcome::Err(e.to_string()),
            Ok(Ok((text, map))) => {
                if t0 != t1 {
                    continue;
                }
                let io_map = map.map(|m| m.iter().map(|(k, v)| (*k, target_to(v))).collect());
                return CompileOutcome::Ok(Compiled { text, io_map, now: t0 });
            }
        }
    }
    CompileOutcome::Panic("clock second kept changing during compile".into())
}

#[derive(Debug, Clone, PartialEq, Eq)]
pub struct ObsOut {
    pub dest: Dest,
    pub bytes: String,
    pub term: Option<char>,
    /// written by a runtime-direct printer (not through a generated printer)
    pub direct: bool,
    /// arrived inside a frame
    pub framed: bool,
}

#[derive(Debug, Clone)]
pub struct Observed {
    pub truthy: bool,
    pub outs: Vec<ObsOut>,
    /// number of outputs seen before the stop request
    pub stop_at: Option<usize>,
    pub error: Option<String>,
    /// problems in the byte stream itself (unframed bytes in framed mode, unknown tags, ...)
    pub stream_errors: Vec<String>,
    /// payloads of records a runtime-direct printer wrote to the shared port in framed mode
    pub unframed_direct: Vec<String>,
}

fn port_dest(run: &ProgramRun, port: usize) -> Result<Dest, String> {
    match run.world.ports.get(port) {
        Some(PortKind::Stdout) => Ok(Dest::Stdout),
        Some(PortKind::File(n, mode)) => {
            if mode.contains('w') || mode.contains('a') {
                Ok(Dest::File(n.clone()))
            } else {
                Err(format!("file {n:?} opened with mode {mode:?}, not for writing"))
            }
        }
        None => Err(format!("unknown port {port}")),
    }
}

/// Turn the event list of one file run into outputs.
pub fn observe(run: &ProgramRun, c: &Compiled, idx: usize) -> Observed {
    let fr = &run.world.runs[idx];
    let mut o = Observed { truthy: fr.truthy, outs: vec![], stop_at: None, error: fr.error.clone(), stream_errors: vec![], unframed_direct: vec![] };
    let framed_mode = c.io_map.is_some();
    let mut pending = String::new();
    for ev in &fr.events {
        match ev {
            Event::Record { port, payload, term, direct } => {
                match port_dest(run, *port) {
                    Ok(dest) => {
                        if framed_mode && *port == 0 {
                            if *direct {
                                o.unframed_direct.push(payload.clone());
                            }
                            o.stream_errors.push(format!("record {:?} written to the shared port outside any frame{}", payload, if *direct { " (runtime-direct printer)" } else { "" }));
                        }
                        if !pending.is_empty() {
                            o.stream_errors.push("record written in the middle of a frame".into());
                        }
                        o.outs.push(ObsOut { dest, bytes: payload.clone(), term: *term, direct: *direct, framed: false })
                    }
                    Err(e) => o.stream_errors.push(e),
                }
            }
            Event::Raw { port, text } => {
                if *port != 0 || !framed_mode {
                    match port_dest(run, *port) {
                        Ok(dest) => o.outs.push(ObsOut { dest, bytes: text.clone(), term: None, direct: false, framed: false }),
                        Err(e) => o.stream_errors.push(e),
                    }
                    continue;
                }
                pending.push_str(text);
                // extract complete frames
                loop {
                    let chars: Vec<char> = pending.chars().collect();
                    let Some(p) = chars.iter().position(|c| *c == '\u{1e}') else { break };
                    let Some(tag) = chars.get(p + 1).copied() else { break };
                    let payload: String = chars[..p].iter().collect();
                    pending = chars[p + 2..].iter().collect();
                    match c.io_map.as_ref().unwrap().get(&(tag as u32)) {
                        Some((dest, term)) => o.outs.push(ObsOut { dest: dest.clone(), bytes: payload, term: *term, direct: false, framed: true }),
                        None => o.stream_errors.push(format!("frame tag U+{:04X} is not a key of the destination table", tag as u32)),
                    }
                }
            }
            Event::Break(_) => {
                if o.stop_at.is_none() {
                    o.stop_at = Some(o.outs.len());
                }
            }
            Event::Lock(_) | Event::Unlock(_) | Event::ClosePort(_) => {}
        }
    }
    if !pending.is_empty() {
        o.stream_errors.push(format!("bytes {:?} on the shared port belong to no complete frame", crate::util::truncate(&pending, 60)));
    }
    o
}

/// Compare observation and specification for one file. Ok(()) or a description of the difference.
pub fn compare(exp: &Res, obs: &Observed) -> Result<(), String> {
    if let Some(e) = &obs.error {
        return Err(format!("policy failed at run time: {e}"));
    }
    if exp.truth != obs.truthy {
        return Err(format!("truth value: expression is {}, policy returned {}", exp.truth, if obs.truthy { "true" } else { "#f" }));
    }
    if exp.stop_at.is_some() != obs.stop_at.is_some() {
        return Err(format!("stop request: expression {}, policy {}", if exp.stop_at.is_some() { "stops the scan" } else { "does not stop" }, if obs.stop_at.is_some() { "requested a stop" } else { "did not" }));
    }
    let (e_outs, o_outs): (&[speceval::Out], &[ObsOut]) = match (exp.stop_at, obs.stop_at) {
        (Some(k), Some(j)) => (&exp.outs[..k], &obs.outs[..j.min(obs.outs.len())]),
        _ => (&exp.outs[..], &obs.outs[..]),
    };
    if e_outs.len() != o_outs.len() {
        return Err(format!("number of outputs: expected {} {:?}, observed {} {:?}", e_outs.len(), e_outs, o_outs.len(), o_outs));
    }
    for (i, (e, o)) in e_outs.iter().zip(o_outs.iter()).enumerate() {
        if e.dest != o.dest || e.bytes != o.bytes || e.term != o.term {
            return Err(format!("output #{i}: expected ({:?}, {:?}, {:?}), observed ({:?}, {:?}, {:?})", e.dest, e.bytes, e.term, o.dest, o.bytes, o.term));
        }
    }
    if let Some(s) = obs.stream_errors.first() {
        return Err(format!("output stream: {s}"));
    }
    Ok(())
}

/// Evaluate by find's rules, trying both documented readings of %h.
pub fn spec_eval_matching(e: &E, f: &FileRec, now: u64, obs: &Observed) -> Result<Result<(), String>, String> {
    let r1 = speceval::eval(e, f, now, Opts { h_abs: false })?;
    let c1 = compare(&r1, obs);
    if c1.is_ok() {
        return Ok(Ok(()));
    }
    let uses_h = e.leaves().iter().any(|l| match l {
        E::A(Act::Printf(f)) | E::A(Act::FPrintf(_, f)) => f.iter().any(|x| matches!(x, FEl::F(Fld::Parents))),
        _ => false,
    });
    if uses_h {
        let r2 = speceval::eval(e, f, now, Opts { h_abs: true })?;
        if compare(&r2, obs).is_ok() {
            return Ok(Ok(()));
        }
    }
    Ok(c1)
}

pub fn run_policy(c: &Compiled, files: Vec<FileRec>) -> Result<ProgramRun, String> {
    let mut run = {
        let forms = crate::sx::read_all(&c.text).map_err(|e| format!("emitted program does not read: {e}"))?;
        let mut world = interp::World::new(files);
        world.stop_on_break = false;
        (forms, world)
    };
    let env = interp::new_env();
    let mut error = None;
    for f in &run.0 {
        if let Err(e) = run.1.eval(f, &env) {
            error = Some(e);
            break;
        }
    }
    Ok(ProgramRun { world: run.1, forms: run.0, error })
}
