//! Rendering of spec-side trees to find command-line text, canonically and
//! through a variant grammar (separators, operator spellings, redundant
//! parentheses, quoting styles, argument spellings).  This is the vocabulary
//! table keyword <-> node of the specification side (DESIGN.md appendix A),
//! written from find(1) and the `ast.rs` doc comments.

use crate::tree::*;
use crate::util::pick;

#[derive(Debug, Clone, Copy, PartialEq, Eq, Hash)]
#[repr(u32)]
pub enum Cat {
    Sep = 1,
    AndSpell = 2,
    OrSpell = 4,
    Paren = 8,
    Quote = 16,
    ArgSpell = 32,
    Edge = 64,
    /// no blank at all next to a punctuation token ('(' ')' '!' ','): accepted spellings must
    /// agree with the spaced one, rejection is allowed
    Glue = 128,
}

pub trait Chooser {
    /// choose in 0..n for category `cat`; 0 is the canonical choice
    fn pick(&mut self, cat: Cat, n: usize) -> usize;
}

pub struct Canon;
impl Chooser for Canon {
    fn pick(&mut self, _: Cat, _: usize) -> usize {
        0
    }
}

/// Choices drawn from a generated stream (shrinks towards the canonical spelling).
pub struct Stream<'a> {
    pub v: &'a [u16],
    pub i: usize,
    /// which categories are allowed to vary
    pub enabled: u32,
    /// categories in which a non-canonical choice was made
    pub used: u32,
    /// number of non-canonical choices made
    pub n_noncanon: u32,
    /// a tab/CR/LF separator was placed directly after a bare argument word
    pub blank_after_bare: bool,
    /// a blank was left out next to a punctuation token
    pub glued: bool,
}
impl<'a> Stream<'a> {
    pub fn new(v: &'a [u16], enabled: u32) -> Self {
        Stream { v, i: 0, enabled, used: 0, n_noncanon: 0, blank_after_bare: false, glued: false }
    }
    pub fn dims(&self) -> u32 {
        self.used.count_ones()
    }
}
impl<'a> Chooser for Stream<'a> {
    fn pick(&mut self, cat: Cat, n: usize) -> usize {
        if self.enabled & (cat as u32) == 0 || n <= 1 {
            return 0;
        }
        let raw = self.v.get(self.i).copied().unwrap_or(0);
        self.i += 1;
        let k = pick(raw, n);
        if k != 0 {
            self.used |= cat as u32;
            self.n_noncanon += 1;
        }
        k
    }
}

pub const ALL_LAYOUT: u32 = Cat::Sep as u32 | Cat::AndSpell as u32 | Cat::OrSpell as u32 | Cat::Paren as u32 | Cat::Quote as u32 | Cat::Edge as u32;

pub const SEPARATORS: [&str; 8] = [" ", "  ", "\t", "\n", "\r", "\r\n", " \t ", "\n "];
pub const EDGES: [&str; 5] = ["", " ", "\n", "\t ", "\r\n"];

#[derive(Debug, Clone)]
pub struct Tok {
    pub text: String,
    /// no separator before this token (tight parenthesis)
    pub glue_before: bool,
    /// this token is a bare (unquoted) argument word
    pub bare_arg: bool,
}
fn tok(s: impl Into<String>) -> Tok {
    Tok { text: s.into(), glue_before: false, bare_arg: false }
}

pub fn bare_ok(s: &str) -> bool {
    !s.is_empty() && !s.starts_with('"') && !s.starts_with('\'') && !s.chars().any(|c| matches!(c, ' ' | '\n' | '\t' | '\r' | ')'))
}
pub fn squote_ok(s: &str) -> bool {
    !s.is_empty() && !s.contains('\'')
}
pub fn dquote_ok(s: &str) -> bool {
    !s.is_empty() && !s.contains('"')
}
/// Can the word-or-quoted-string argument language express `s` at all?
pub fn representable(s: &str) -> bool {
    bare_ok(s) || squote_ok(s) || dquote_ok(s)
}

/// Spell a string argument. Returns None when no quoting style can express it.
pub fn spell_string(s: &str, ch: &mut dyn Chooser) -> Option<Tok> {
    let mut styles: Vec<u8> = vec![];
    if bare_ok(s) {
        styles.push(0);
    }
    if squote_ok(s) {
        styles.push(1);
    }
    if dquote_ok(s) {
        styles.push(2);
    }
    if styles.is_empty() {
        return None;
    }
    let k = styles[ch.pick(Cat::Quote, styles.len())];
    Some(match k {
        0 => Tok { text: s.to_string(), glue_before: false, bare_arg: true },
        1 => tok(format!("'{s}'")),
        _ => tok(format!("\"{s}\"")),
    })
}

pub fn esc_text(e: Esc) -> String {
    match e {
        Esc::Alarm => "\\a".into(),
        Esc::Backspace => "\\b".into(),
        Esc::Clear => "\\c".into(),
        Esc::Form => "\\f".into(),
        Esc::Newline => "\\n".into(),
        Esc::CarriageReturn => "\\r".into(),
        Esc::Tab => "\\t".into(),
        Esc::VTab => "\\v".into(),
        Esc::Null => "\\0".into(),
        Esc::Backslash => "\\\\".into(),
        Esc::Ascii(v) => format!("\\{:03o}", v),
    }
}
pub fn fld_text(f: &Fld) -> String {
    match f {
        Fld::Percent => "%%".into(),
        Fld::Access => "%a".into(),
        Fld::AccessFmt(c) => format!("%A{c}"),
        Fld::Blocks => "%b".into(),
        Fld::Change => "%c".into(),
        Fld::ChangeFmt(c) => format!("%C{c}"),
        Fld::Depth => "%d".into(),
        Fld::DevNum => "%D".into(),
        Fld::Basename => "%f".into(),
        Fld::FsType => "%F".into(),
        Fld::Group => "%g".into(),
        Fld::GroupId => "%G".into(),
        Fld::Parents => "%h".into(),
        Fld::StartingPoint => "%H".into(),
        Fld::Inode => "%i".into(),
        Fld::Kilos => "%k".into(),
        Fld::SymTarget => "%l".into(),
        Fld::PermOctal => "%m".into(),
        Fld::PermSymbolic => "%M".into(),
        Fld::Hardlinks => "%n".into(),
        Fld::Name => "%p".into(),
        Fld::NameNoStart => "%P".into(),
        Fld::Bytes => "%s".into(),
        Fld::Sparseness => "%S".into(),
        Fld::Modify => "%t".into(),
        Fld::ModifyFmt(c) => format!("%T{c}"),
        Fld::User => "%u".into(),
        Fld::UserId => "%U".into(),
        Fld::Type => "%y".into(),
        Fld::TypeSymlink => "%Y".into(),
        Fld::SecCtx => "%Z".into(),
        Fld::Fid => "%{fid}".into(),
        Fld::ProjId => "%{projid}".into(),
        Fld::MirrorCount => "%{mirror-count}".into(),
        Fld::StripeCount => "%{stripe-count}".into(),
        Fld::StripeSize => "%{stripe-size}".into(),
        Fld::XAttr(n) => format!("%{{xattr:{n}}}"),
    }
}

/// Is this element list the unique segmentation of its own text?  (No empty or
/// adjacent literals, no `%`/`\` inside literals, nothing after an escape that
/// could extend it.)
pub fn fmt_renderable(v: &[FEl]) -> bool {
    for (i, e) in v.iter().enumerate() {
        match e {
            FEl::Lit(s) => {
                if s.is_empty() || s.contains('%') || s.contains('\\') {
                    return false;
                }
                if i > 0 {
                    match &v[i - 1] {
                        FEl::Lit(_) => return false,
                        // `\0` followed by octal digits is a different escape (or ambiguous)
                        FEl::E(Esc::Null) => {
                            if s.starts_with(|c: char| ('0'..='7').contains(&c)) {
                                return false;
                            }
                        }
                        _ => {}
                    }
                }
            }
            FEl::F(Fld::XAttr(n)) => {
                if n.is_empty() || !n.chars().all(|c| c.is_ascii_alphabetic()) {
                    return false;
                }
            }
            FEl::F(_) => {}
            FEl::E(Esc::Ascii(v)) => {
                if *v > 0o777 {
                    return false;
                }
            }
            FEl::E(_) => {}
        }
    }
    true
}

pub fn fmt_text(v: &[FEl]) -> String {
    let mut out = String::new();
    for e in v {
        match e {
            FEl::Lit(s) => out.push_str(s),
            FEl::F(f) => out.push_str(&fld_text(f)),
            FEl::E(e) => out.push_str(&esc_text(*e)),
        }
    }
    out
}

fn cmp_prefix(c: Cmp) -> &'static str {
    match c {
        Cmp::Gt => "+",
        Cmp::Lt => "-",
        Cmp::Eq => "",
    }
}

fn spell_num(n: u64, ch: &mut dyn Chooser) -> String {
    match ch.pick(Cat::ArgSpell, 5) {
        0 => n.to_string(),
        1 => format!("0{n}"),
        2 => format!("000{n}"),
        3 => format!("{}{n}", "0".repeat(21)),
        _ => format!("{}{n}", "0".repeat(64)),
    }
}

/// Words of one primary. None when an argument cannot be expressed as text.
pub fn primary_words(e: &E, ch: &mut dyn Chooser) -> Option<Vec<Tok>> {
    let kw_s = |kw: &str, s: &str, ch: &mut dyn Chooser| -> Option<Vec<Tok>> { Some(vec![tok(kw), spell_string(s, ch)?]) };
    let kw_n = |kw: &str, c: Cmp, n: u64, ch: &mut dyn Chooser| -> Option<Vec<Tok>> {
        Some(vec![tok(kw), tok(format!("{}{}", cmp_prefix(c), spell_num(n, ch)))])
    };
    match e {
        E::T(t) => match t {
            Tst::Time(w, c, n, u) => {
                // -Xmin defaults to minutes, -Xtime to days; both accept an explicit unit
                let l = match w {
                    Which::A => 'a',
                    Which::C => 'c',
                    Which::M => 'm',
                };
                let num = spell_num(*n, ch);
                let (kw, unit) = match u {
                    TUnit::M => match ch.pick(Cat::ArgSpell, 3) {
                        0 => (format!("-{l}min"), String::new()),
                        1 => (format!("-{l}min"), "m".to_string()),
                        _ => (format!("-{l}time"), "m".to_string()),
                    },
                    TUnit::D => match ch.pick(Cat::ArgSpell, 3) {
                        0 => (format!("-{l}time"), String::new()),
                        1 => (format!("-{l}time"), "d".to_string()),
                        _ => (format!("-{l}min"), "d".to_string()),
                    },
                    other => match ch.pick(Cat::ArgSpell, 2) {
                        0 => (format!("-{l}min"), other.letter().to_string()),
                        _ => (format!("-{l}time"), other.letter().to_string()),
                    },
                };
                Some(vec![tok(kw), tok(format!("{}{}{}", cmp_prefix(*c), num, unit))])
            }
            Tst::Empty => Some(vec![tok("-empty")]),
            Tst::Executable => Some(vec![tok("-executable")]),
            Tst::Readable => Some(vec![tok("-readable")]),
            Tst::Writable => Some(vec![tok("-writable")]),
            Tst::True => Some(vec![tok("-true")]),
            Tst::False => Some(vec![tok("-false")]),
            Tst::Gid(c, n) => kw_n("-gid", *c, *n as u64, ch),
            Tst::Uid(c, n) => kw_n("-uid", *c, *n as u64, ch),
            Tst::Inum(c, n) => kw_n("-inum", *c, *n as u64, ch),
            Tst::MirrorCount(c, n) => kw_n("-mirror-count", *c, *n as u64, ch),
            Tst::StripeCount(c, n) => kw_n("-stripe-count", *c, *n as u64, ch),
            Tst::Links(c, n) => kw_n("-links", *c, *n, ch),
            Tst::Name(s) => kw_s("-name", s, ch),
            Tst::IName(s) => kw_s("-iname", s, ch),
            Tst::Path(s) => kw_s("-path", s, ch),
            Tst::IPath(s) => kw_s("-ipath", s, ch),
            Tst::Pool(s) => kw_s("-pool", s, ch),
            Tst::Xattr(s) => kw_s("-xattr", s, ch),
            Tst::XattrMatch(a, b) => Some(vec![tok("-xattr-match"), spell_string(a, ch)?, spell_string(b, ch)?]),
            Tst::Size(c, n, u) => {
                let num = spell_num(*n, ch);
                let unit = match u {
                    SUnit::B => match ch.pick(Cat::ArgSpell, 2) {
                        0 => String::new(),
                        _ => "b".to_string(),
                    },
                    o => o.letter().to_string(),
                };
                Some(vec![tok("-size"), tok(format!("{}{}{}", cmp_prefix(*c), num, unit))])
            }
            Tst::Type(v) => {
                if v.is_empty() {
                    return None;
                }
                let s: Vec<String> = v.iter().map(|t| t.letter().to_string()).collect();
                Some(vec![tok("-type"), tok(s.join(","))])
            }
            Tst::Perm(k, m) => {
                if *m > 0o7777 {
                    return None;
                }
                let pre = match k {
                    PKind::Equal => "",
                    PKind::AtLeast => "-",
                    PKind::Any => "/",
                };
                // octal spelling: 4 digits, or 3 when the value fits; or 5+ with leading zeros
                let digits = match ch.pick(Cat::ArgSpell, 5) {
                    0 => format!("{:04o}", m),
                    1 => {
                        if *m <= 0o777 {
                            format!("{:03o}", m)
                        } else {
                            format!("{:04o}", m)
                        }
                    }
                    2 => format!("{:06o}", m),
                    3 => format!("{:05o}", m),
                    _ => format!("{:010o}", m),
                };
                let word = format!("{pre}{digits}");
                // -perm takes a word or quoted string
                let t = spell_string(&word, ch)?;
                Some(vec![tok("-perm"), t])
            }
            Tst::U(u) => match u {
                UTest::AccessNewer(s) => kw_s("-anewer", s, ch),
                UTest::ChangeNewer(s) => kw_s("-cnewer", s, ch),
                UTest::ModifyNewer(s) => kw_s("-mnewer", s, ch),
                UTest::FsType(s) => kw_s("-fstype", s, ch),
                UTest::Group(s) => kw_s("-group", s, ch),
                UTest::User(s) => kw_s("-user", s, ch),
                UTest::ILName(s) => kw_s("-ilname", s, ch),
                // the parser has no keyword for LinkName (ast only)
                UTest::LName(_) => None,
                UTest::IRegex(s) => kw_s("-iregex", s, ch),
                UTest::Regex(s) => kw_s("-regex", s, ch),
                UTest::Samefile(s) => kw_s("-samefile", s, ch),
                UTest::NoGroup => Some(vec![tok("-nogroup")]),
                UTest::NoUser => Some(vec![tok("-nouser")]),
            },
        },
        E::A(a) => match a {
            Act::Print => Some(vec![tok("-print")]),
            Act::Print0 => Some(vec![tok("-print0")]),
            Act::PrintFid => Some(vec![tok("-print-file-fid")]),
            Act::Quit => Some(vec![tok("-quit")]),
            Act::Ls => Some(vec![tok("-ls")]),
            Act::Prune => Some(vec![tok("-prune")]),
            Act::Printf(f) => {
                if !fmt_renderable(f) {
                    return None;
                }
                Some(vec![tok("-printf"), spell_string(&fmt_text(f), ch)?])
            }
            Act::FPrint(s) => kw_s("-fprint", s, ch),
            Act::FPrint0(s) => kw_s("-fprint0", s, ch),
            Act::Fls(s) => kw_s("-fls", s, ch),
            Act::FPrintf(s, f) => {
                if !fmt_renderable(f) {
                    return None;
                }
                Some(vec![tok("-fprintf"), spell_string(s, ch)?, spell_string(&fmt_text(f), ch)?])
            }
            Act::DefaultPrint => None,
        },
        E::G(g) => match g {
            Glob::Depth => Some(vec![tok("-depth")]),
            Glob::MaxDepth(n) => Some(vec![tok("-maxdepth"), tok(spell_num(*n as u64, ch))]),
            Glob::MinDepth(n) => Some(vec![tok("-mindepth"), tok(spell_num(*n as u64, ch))]),
            Glob::Threads(n) => Some(vec![tok("-threads"), tok(spell_num(*n as u64, ch))]),
        },
        E::Pos => Some(vec![tok("nope")]),
        _ => None,
    }
}

fn level(e: &E) -> u8 {
    match e {
        E::List(..) => 0,
        E::Or(..) => 1,
        E::And(..) => 2,
        _ => 3,
    }
}

/// Emit tokens for `e` in a context that requires binding level >= `min`.
fn emit(e: &E, min: u8, ch: &mut dyn Chooser, out: &mut Vec<Tok>) -> Option<()> {
    let need = level(e) < min;
    // redundant parentheses: 0 none, 1 `( X )`, 2 `(X)`
    let style = if need { 1 + ch.pick(Cat::Paren, 2) } else { ch.pick(Cat::Paren, 3) };
    if style > 0 {
        out.push(tok("("));
        let start = out.len();
        emit_inner(e, ch, out)?;
        if style == 2 {
            out[start].glue_before = true;
            out.push(Tok { text: ")".into(), glue_before: true, bare_arg: false });
        } else {
            out.push(tok(")"));
        }
        Some(())
    } else {
        emit_inner(e, ch, out)
    }
}

fn emit_inner(e: &E, ch: &mut dyn Chooser, out: &mut Vec<Tok>) -> Option<()> {
    match e {
        E::List(a, b) => {
            emit(a, 0, ch, out)?;
            out.push(tok(","));
            emit(b, 1, ch, out)
        }
        E::Or(a, b) => {
            emit(a, 1, ch, out)?;
            out.push(tok(["-o", "-or"][ch.pick(Cat::OrSpell, 2)]));
            emit(b, 2, ch, out)
        }
        E::And(a, b) => {
            emit(a, 2, ch, out)?;
            match ch.pick(Cat::AndSpell, 3) {
                0 => out.push(tok("-a")),
                1 => {}
                _ => out.push(tok("-and")),
            }
            emit(b, 3, ch, out)
        }
        E::Not(a) => {
            out.push(tok("!"));
            emit(a, 3, ch, out)
        }
        // an explicit precedence node has no text of its own; it is written as parentheses
        E::Prec(a) => {
            out.push(tok("("));
            emit_inner(a, ch, out)?;
            out.push(tok(")"));
            Some(())
        }
        leaf => {
            out.extend(primary_words(leaf, ch)?);
            Some(())
        }
    }
}

pub fn join(toks: &[Tok], ch: &mut dyn Chooser) -> String {
    let mut s = String::new();
    s.push_str(EDGES[ch.pick(Cat::Edge, EDGES.len())]);
    for (i, t) in toks.iter().enumerate() {
        if i > 0 && !t.glue_before {
            s.push_str(SEPARATORS[ch.pick(Cat::Sep, SEPARATORS.len())]);
        }
        s.push_str(&t.text);
    }
    s.push_str(EDGES[ch.pick(Cat::Edge, EDGES.len())]);
    s
}

/// Like `join` but also reports whether a non-space blank directly follows a bare argument word.
pub fn join_tracking(toks: &[Tok], ch: &mut Stream) -> String {
    let mut s = String::new();
    s.push_str(EDGES[ch.pick(Cat::Edge, EDGES.len())]);
    for (i, t) in toks.iter().enumerate() {
        if i > 0 && !t.glue_before {
            // optional: no blank next to a punctuation token (never after a bare argument word,
            // which would swallow '(' '!' ',' into the word)
            let punct = |x: &str| matches!(x, "(" | ")" | "!" | ",");
            let (a, b) = (&toks[i - 1], t);
            let may_glue = (punct(&a.text) || punct(&b.text)) && !(a.bare_arg && b.text != ")");
            if may_glue && ch.pick(Cat::Glue, 5) == 4 {
                ch.glued = true;
                s.push_str(&t.text);
                continue;
            }
            let k = ch.pick(Cat::Sep, SEPARATORS.len());
            if toks[i - 1].bare_arg && !SEPARATORS[k].starts_with(' ') {
                ch.blank_after_bare = true;
            }
            s.push_str(SEPARATORS[k]);
        }
        s.push_str(&t.text);
    }
    let k = ch.pick(Cat::Edge, EDGES.len());
    if let Some(last) = toks.last() {
        if last.bare_arg && !EDGES[k].is_empty() && !EDGES[k].starts_with(' ') {
            ch.blank_after_bare = true;
        }
    }
    s.push_str(EDGES[k]);
    s
}

pub fn tokens(e: &E, ch: &mut dyn Chooser) -> Option<Vec<Tok>> {
    let mut out = vec![];
    emit(e, 0, ch, &mut out)?;
    Some(out)
}

/// Canonical text: minimal parentheses, `-a`/`-o`, single blanks, first permitted quoting style.
pub fn canonical(e: &E) -> Option<String> {
    let mut c = Canon;
    let toks = tokens(e, &mut c)?;
    Some(join(&toks, &mut c))
}

/// Variant spelling driven by a choice stream.
pub fn variant(e: &E, ch: &mut Stream) -> Option<String> {
    let toks = tokens(e, ch)?;
    Some(join_tracking(&toks, ch))
}
