//! Scope analysis of an emitted program (C11): which binding does every
//! symbol occurrence resolve to, duplicates, use before definition.

use crate::interp::{RUNTIME_GLOBALS, SPECIAL_FORMS};
use crate::sx::Sx;
use std::collections::HashMap;

#[derive(Debug, Clone)]
pub struct Binding {
    pub name: String,
    pub init: Sx,
    pub index: usize,
}

#[derive(Debug, Default)]
pub struct Analysis {
    pub bindings: Vec<Binding>,
    pub problems: Vec<String>,
    /// symbols that are neither bound nor part of the runtime vocabulary
    pub unknown_symbols: Vec<String>,
    /// the per-file thunk of the scan call
    pub thunk: Option<Sx>,
    pub scan: Option<Sx>,
}

impl Analysis {
    pub fn binding(&self, name: &str) -> Option<&Binding> {
        self.bindings.iter().find(|b| b.name == name)
    }
}

struct Scope<'a> {
    /// let* names visible (index < limit)
    lets: &'a HashMap<String, usize>,
    limit: usize,
    params: Vec<String>,
}

fn check(x: &Sx, sc: &mut Scope, an: &mut Analysis, where_: &str) {
    match x {
        Sx::Sym(s) => resolve(s, sc, an, where_),
        Sx::List(items) => {
            if items.is_empty() {
                return;
            }
            match items[0].sym() {
                Some("lambda") if items.len() >= 3 => {
                    let n0 = sc.params.len();
                    if let Some(ps) = items[1].list() {
                        for p in ps {
                            if let Some(p) = p.sym() {
                                if sc.params[n0..].iter().any(|q| q == p) {
                                    an.problems.push(format!("duplicate lambda parameter {p} in {where_}"));
                                }
                                sc.params.push(p.to_string());
                            }
                        }
                    }
                    for b in &items[2..] {
                        check(b, sc, an, where_);
                    }
                    sc.params.truncate(n0);
                }
                Some("quote") => {}
                Some(h) if SPECIAL_FORMS.contains(&h) && !sc.params.iter().any(|p| p == h) && !sc.lets.contains_key(h) => {
                    for b in &items[1..] {
                        check(b, sc, an, where_);
                    }
                }
                _ => {
                    for b in items {
                        check(b, sc, an, where_);
                    }
                }
            }
        }
        _ => {}
    }
}

fn resolve(s: &str, sc: &Scope, an: &mut Analysis, where_: &str) {
    if sc.params.iter().any(|p| p == s) {
        return;
    }
    if let Some(i) = sc.lets.get(s) {
        if *i >= sc.limit {
            an.problems.push(format!("{s} is used in {where_} before its binding (binding #{i})"));
        }
        return;
    }
    if RUNTIME_GLOBALS.contains(&s) {
        return;
    }
    if s.starts_with("%lf3:") {
        an.problems.push(format!("generated name {s} is used in {where_} but never bound"));
        return;
    }
    if !an.unknown_symbols.iter().any(|u| u == s) {
        an.unknown_symbols.push(s.to_string());
    }
}

/// Analyse the `(let* (bindings) body)` form of an emitted program.
pub fn analyse(forms: &[Sx]) -> Analysis {
    let mut an = Analysis::default();
    let Some(letf) = forms.iter().find(|f| f.head() == Some("let*")) else {
        an.problems.push("no let* form".into());
        return an;
    };
    let items = letf.list().unwrap();
    let binds = items.get(1).and_then(|b| b.list()).unwrap_or(&[]);
    let mut index: HashMap<String, usize> = HashMap::new();
    for (i, b) in binds.iter().enumerate() {
        match b.list() {
            Some([Sx::Sym(n), init]) => {
                if index.contains_key(n) {
                    an.problems.push(format!("name {n} is bound twice"));
                } else {
                    index.insert(n.clone(), i);
                }
                an.bindings.push(Binding { name: n.clone(), init: init.clone(), index: i });
            }
            _ => an.problems.push(format!("malformed binding #{i}: {b:?}")),
        }
    }
    for b in an.bindings.clone() {
        let mut sc = Scope { lets: &index, limit: b.index, params: vec![] };
        check(&b.init, &mut sc, &mut an, &format!("the initialiser of {}", b.name));
    }
    for body in &items[2..] {
        let mut sc = Scope { lets: &index, limit: binds.len(), params: vec![] };
        check(body, &mut sc, &mut an, "the body");
        body.walk(&mut |n| {
            if n.head() == Some("lipe-scan") {
                an.scan = Some(n.clone());
                an.thunk = n.list().and_then(|l| l.get(3)).cloned();
            }
        });
    }
    an
}

/// generated names referenced inside `x`, in textual (= evaluation) order
pub fn generated_refs(x: &Sx, prefix: &str) -> Vec<String> {
    let mut out = vec![];
    x.walk(&mut |n| {
        if let Sx::Sym(s) = n {
            if s.starts_with(prefix) {
                out.push(s.clone());
            }
        }
    });
    out
}
