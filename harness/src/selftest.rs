//! Self-checks of the trusted base: an oracle bug must surface as an
//! infrastructure error (exit 2), never as a violation.

use crate::fnmatch::fnmatch;
use crate::util::*;
use proptest::prelude::*;
use std::ffi::CString;
use std::os::raw::{c_char, c_int};

extern "C" {
    #[link_name = "fnmatch"]
    fn libc_fnmatch(pattern: *const c_char, string: *const c_char, flags: c_int) -> c_int;
}
const FNM_CASEFOLD: c_int = 1 << 4;

/// the harness's fnmatch against the C library's, on patterns of the generated domain
/// (no backslash; ASCII, because the C locale folds case for ASCII only)
pub fn fnmatch_vs_libc(seed: u64, n: usize, st: &mut Stats) {
    let strat = ("[a-cA-C.*?\\[\\]!^-]{0,7}", "[a-cA-C.x]{0,6}", any::<bool>());
    let mut checked = 0u64;
    for (p, s, ci) in sample_values(seed, "selftest-fnmatch", 0, n, &strat) {
        // bracket expressions that glibc treats specially (unterminated, ranges with specials) are
        // compared only when well-formed: "[" must be closed and contain no '[' inside
        let wellformed = {
            let c: Vec<char> = p.chars().collect();
            let mut ok = true;
            let mut i = 0;
            while i < c.len() {
                if c[i] == '[' {
                    let mut j = i + 1;
                    if j < c.len() && (c[j] == '!' || c[j] == '^') {
                        j += 1;
                    }
                    if j < c.len() && c[j] == ']' {
                        j += 1;
                    }
                    while j < c.len() && c[j] != ']' {
                        if c[j] == '[' {
                            ok = false;
                        }
                        j += 1;
                    }
                    if j >= c.len() {
                        ok = false;
                        break;
                    }
                    // ranges with reversed endpoints or '-' at odd places: skip
                    let inner: String = c[i + 1..j].iter().collect();
                    if inner.contains('-') || inner.contains('^') || inner.is_empty() || inner == "!" {
                        ok = false;
                    }
                    i = j;
                }
                i += 1;
            }
            ok && !p.contains(']') || ok && p.contains('[')
        };
        if !wellformed {
            continue;
        }
        let (cp, cs) = (CString::new(p.clone()).unwrap(), CString::new(s.clone()).unwrap());
        let theirs = unsafe { libc_fnmatch(cp.as_ptr(), cs.as_ptr(), if ci { FNM_CASEFOLD } else { 0 }) } == 0;
        let mine = fnmatch(&p, &s, ci);
        checked += 1;
        if mine != theirs {
            st.oracle_bugs.push(format!("fnmatch model disagrees with the C library: pattern {p:?}, string {s:?}, casefold {ci}: model {mine}, libc {theirs}"));
            return;
        }
    }
    // structured patterns: literals, '*', '?', bracket sets with members, ranges and negation
    let atom = prop_oneof![
        4 => "[a-dA-D.0-3]",
        2 => Just("*".to_string()),
        1 => Just("?".to_string()),
        2 => (any::<bool>(), proptest::collection::vec(prop_oneof![2 => "[a-dA-D0-3]", 1 => ("[a-b]", "[c-d]").prop_map(|(l, h)| format!("{l}-{h}")), 1 => Just("0-9".to_string()), 1 => Just("A-C".to_string())], 1..4))
            .prop_map(|(neg, items)| format!("[{}{}]", if neg { "!" } else { "" }, items.concat())),
    ];
    let strat = (proptest::collection::vec(atom, 0..6).prop_map(|v| v.concat()), "[a-dA-D.0-9x]{0,6}", any::<bool>());
    for (p, s, ci) in sample_values(seed, "selftest-fnmatch-structured", 0, n, &strat) {
        let (cp, cs) = (CString::new(p.clone()).unwrap(), CString::new(s.clone()).unwrap());
        let theirs = unsafe { libc_fnmatch(cp.as_ptr(), cs.as_ptr(), if ci { FNM_CASEFOLD } else { 0 }) } == 0;
        let mine = fnmatch(&p, &s, ci);
        checked += 1;
        if mine != theirs {
            st.oracle_bugs.push(format!("fnmatch model disagrees with the C library: pattern {p:?}, string {s:?}, casefold {ci}: model {mine}, libc {theirs}"));
            return;
        }
    }
    st.extra.insert("selftest_fnmatch_vs_libc".into(), serde_json::json!(checked));
}

/// every snapshot program of the repository (taken from real lipe_find3 output) must read as the
/// two expected forms and run on a file in the runtime model without an unbound variable
pub fn snapshots_read_and_run(st: &mut Stats) {
    let Ok(rd) = std::fs::read_dir(format!("{}/snapshots", crate::util::repo_src())) else { return };
    let mut n = 0;
    for e in rd.filter_map(|e| e.ok()) {
        let Ok(text) = std::fs::read_to_string(e.path()) else { continue };
        // strip the insta header: everything up to the second line consisting of "---"
        let mut parts = text.splitn(3, "---\n");
        let (_, _, body) = (parts.next(), parts.next(), parts.next());
        let Some(body) = body else { continue };
        match crate::sx::read_all(body) {
            Ok(f) if f.len() == 2 && f[0].head() == Some("use-modules") && f[1].head() == Some("let*") => {}
            Ok(f) => {
                st.oracle_bugs.push(format!("reader self-check: snapshot {:?} reads as {} forms", e.file_name(), f.len()));
                continue;
            }
            Err(err) => {
                st.oracle_bugs.push(format!("reader self-check: snapshot {:?} does not read: {err}", e.file_name()));
                continue;
            }
        }
        let comp = crate::policy::Compiled { text: body.to_string(), io_map: None, now: now_secs() };
        match crate::policy::run_policy(&comp, vec![crate::files::FileRec::base(comp.now)]) {
            Ok(run) => {
                let bad = run.error.clone().or_else(|| run.world.runs.first().and_then(|r| r.error.clone()));
                if let Some(err) = bad {
                    st.oracle_bugs.push(format!("runtime-model self-check: snapshot {:?} fails to run: {err}", e.file_name()));
                }
            }
            Err(err) => st.oracle_bugs.push(format!("runtime-model self-check: {err}")),
        }
        n += 1;
    }
    st.extra.insert("selftest_snapshots_read_and_run".into(), serde_json::json!(n));
}
