//! find's evaluation rules over spec-side trees and file records
//! (find(1) EXPRESSION / OPERATORS / TESTS / ACTIONS; DESIGN.md appendix B).

use crate::files::FileRec;
use crate::fnmatch::fnmatch;
use crate::tree::*;

#[derive(Debug, Clone, PartialEq, Eq, Hash)]
pub enum Dest {
    Stdout,
    File(String),
}

#[derive(Debug, Clone, PartialEq, Eq, Hash)]
pub struct Out {
    pub dest: Dest,
    pub bytes: String,
    pub term: Option<char>,
    /// index (in evaluation order) of the action leaf that produced it; usize::MAX for the implicit print
    pub leaf: usize,
}

#[derive(Debug, Clone, PartialEq, Eq)]
pub struct Res {
    pub truth: bool,
    pub outs: Vec<Out>,
    /// number of outputs produced before the stop request, if one was made
    pub stop_at: Option<usize>,
}

#[derive(Debug, Clone, Copy)]
pub struct Opts {
    /// %h = dirname of the absolute path (else of the relative path); both readings are documented
    pub h_abs: bool,
}

pub fn type_letter(mode: u32) -> char {
    match mode & 0o170000 {
        0o060000 => 'b',
        0o020000 => 'c',
        0o040000 => 'd',
        0o010000 => 'p',
        0o100000 => 'f',
        0o120000 => 'l',
        0o140000 => 's',
        _ => 'U',
    }
}

pub fn dirname(p: &str) -> String {
    match p.rfind('/') {
        Some(0) => "/".to_string(),
        Some(i) => p[..i].to_string(),
        None => ".".to_string(),
    }
}

/// opaque stand-ins shared with the runtime model (what is checked is *which
/// field and selector* reaches them, not libc's rendering)
pub fn user_name(uid: u32) -> String {
    format!("user#{uid}")
}
pub fn group_name(gid: u32) -> String {
    format!("group#{gid}")
}
pub fn strftime_standin(sel: &str, t: u64) -> String {
    format!("strftime<{sel}|{t}>")
}
pub fn sparseness_standin(blocks: u64, size: u64) -> String {
    // 512*blocks/size as an exact reduced fraction (the runtime model prints ~f the same way)
    crate::interp::ratio_standin(blocks, size)
}

fn cmp<T: PartialOrd>(c: Cmp, v: T, n: T) -> bool {
    match c {
        Cmp::Eq => v == n,
        Cmp::Gt => v > n,
        Cmp::Lt => v < n,
    }
}

/// Err(reason) = the expression is not defined on this file (outside the property's domain).
pub fn render_format(fmt: &[FEl], f: &FileRec, o: Opts) -> Result<String, String> {
    let mut s = String::new();
    for el in fmt {
        match el {
            FEl::Lit(l) => s.push_str(l),
            FEl::E(e) => match e {
                Esc::Alarm => s.push('\x07'),
                Esc::Backspace => s.push('\x08'),
                Esc::Clear => return Ok(s),
                Esc::Form => s.push('\x0c'),
                Esc::Newline => s.push('\n'),
                Esc::CarriageReturn => s.push('\r'),
                Esc::Tab => s.push('\t'),
                Esc::VTab => s.push('\x0b'),
                Esc::Null => s.push('\0'),
                Esc::Backslash => s.push('\\'),
                Esc::Ascii(v) => {
                    if *v < 128 {
                        s.push(*v as u8 as char)
                    } else {
                        return Err("octal escape >= 128: byte versus character is a runtime matter".into());
                    }
                }
            },
            FEl::F(fl) => match fl {
                Fld::Percent => s.push('%'),
                Fld::Access => s.push_str(&f.atime.to_string()),
                Fld::Change => s.push_str(&f.ctime.to_string()),
                Fld::Modify => s.push_str(&f.mtime.to_string()),
                Fld::AccessFmt(k) | Fld::ChangeFmt(k) | Fld::ModifyFmt(k) => {
                    let t = match fl {
                        Fld::AccessFmt(_) => f.atime,
                        Fld::ChangeFmt(_) => f.ctime,
                        _ => f.mtime,
                    };
                    if *k == '@' {
                        s.push_str(&t.to_string())
                    } else {
                        s.push_str(&strftime_standin(&format!("%{k}"), t))
                    }
                }
                Fld::Blocks => s.push_str(&f.blocks.to_string()),
                Fld::Kilos => s.push_str(&((f.blocks as u128 + 1) / 2).to_string()),
                Fld::Bytes => s.push_str(&f.size.to_string()),
                Fld::Sparseness => {
                    if f.size == 0 {
                        return Err("%S on a file of size 0 is undefined".into());
                    }
                    s.push_str(&sparseness_standin(f.blocks, f.size))
                }
                Fld::Basename => s.push_str(f.name()),
                Fld::Parents => s.push_str(&if o.h_abs { dirname(&f.abs_path()) } else { dirname(&f.rel_path) }),
                Fld::StartingPoint => s.push_str(&f.mount),
                Fld::Name => s.push_str(&f.abs_path()),
                Fld::NameNoStart => s.push_str(&f.rel_path),
                Fld::Group => s.push_str(&group_name(f.gid)),
                Fld::GroupId => s.push_str(&f.gid.to_string()),
                Fld::User => s.push_str(&user_name(f.uid)),
                Fld::UserId => s.push_str(&f.uid.to_string()),
                Fld::Inode => s.push_str(&f.ino.to_string()),
                Fld::Hardlinks => s.push_str(&f.nlink.to_string()),
                Fld::PermOctal => s.push_str(&format!("{:o}", f.mode & 0o7777)),
                Fld::Type => s.push(type_letter(f.mode)),
                Fld::Fid => s.push_str(&f.fid),
                Fld::ProjId => s.push_str(&f.projid.to_string()),
                Fld::MirrorCount => s.push_str(&f.mirror_count.to_string()),
                Fld::StripeCount => s.push_str(&f.stripe_count.to_string()),
                Fld::StripeSize => s.push_str(&f.stripe_size.to_string()),
                Fld::XAttr(n) => s.push_str(f.xattr(n).unwrap_or("")),
                Fld::Depth | Fld::DevNum | Fld::FsType | Fld::SymTarget | Fld::PermSymbolic | Fld::TypeSymlink | Fld::SecCtx => {
                    return Err(format!("format directive {} is not supported by the target", fl.variant_name()))
                }
            },
        }
    }
    Ok(s)
}

pub fn eval_test(t: &Tst, f: &FileRec, now: u64) -> Result<bool, String> {
    Ok(match t {
        Tst::Time(w, c, n, u) => {
            let ft = match w {
                Which::A => f.atime,
                Which::C => f.ctime,
                Which::M => f.mtime,
            };
            if ft > now {
                return Err("timestamp newer than now".into());
            }
            cmp(*c, (now - ft) / u.secs(), *n)
        }
        Tst::Empty => f.empty,
        Tst::Executable => f.executable,
        Tst::Readable => f.readable,
        Tst::Writable => f.writable,
        Tst::True => true,
        Tst::False => false,
        Tst::Gid(c, n) => cmp(*c, f.gid as u64, *n as u64),
        Tst::Uid(c, n) => cmp(*c, f.uid as u64, *n as u64),
        Tst::Inum(c, n) => cmp(*c, f.ino, *n as u64),
        Tst::MirrorCount(c, n) => cmp(*c, f.mirror_count as u64, *n as u64),
        Tst::StripeCount(c, n) => cmp(*c, f.stripe_count as u64, *n as u64),
        Tst::Links(c, n) => cmp(*c, f.nlink, *n),
        Tst::Name(p) => fnmatch(p, f.name(), false),
        Tst::IName(p) => fnmatch(p, f.name(), true),
        Tst::Path(p) => fnmatch(p, &f.rel_path, false),
        Tst::IPath(p) => fnmatch(p, &f.rel_path, true),
        Tst::Pool(p) => f.pools.iter().any(|x| x == p),
        Tst::Xattr(a) => f.xattr(a).is_some(),
        Tst::XattrMatch(a, v) => {
            // lfs-find extension: attribute name and value are matched as patterns
            f.xattrs.iter().any(|(k, val)| fnmatch(a, k, false) && fnmatch(v, val, false))
        }
        Tst::Size(c, n, u) => {
            // find rounds the size up to whole units before comparing
            let units = (f.size as u128 + u.bytes() as u128 - 1) / u.bytes() as u128;
            cmp(*c, units, *n as u128)
        }
        Tst::Type(v) => v.iter().any(|t| f.mode & 0o170000 == t.bits()),
        Tst::Perm(k, m) => match k {
            PKind::Equal => f.mode & 0o7777 == *m,
            PKind::AtLeast => f.mode & m == *m,
            PKind::Any => f.mode & m != 0,
        },
        Tst::U(u) => return Err(format!("test {u:?} is not supported by the target")),
    })
}

struct Ev<'a> {
    f: &'a FileRec,
    now: u64,
    o: Opts,
    outs: Vec<Out>,
    stop_at: Option<usize>,
    leaf_no: usize,
}

impl<'a> Ev<'a> {
    fn skip(&mut self, e: &E) {
        self.leaf_no += e.leaves().len();
    }
    fn ev(&mut self, e: &E) -> Result<bool, String> {
        match e {
            E::Not(a) => Ok(!self.ev(a)?),
            E::Prec(a) => self.ev(a),
            // ',' is treated as AND by this project (target_scheme.rs, Operator::List)
            E::And(a, b) | E::List(a, b) => {
                if self.ev(a)? {
                    self.ev(b)
                } else {
                    self.skip(b);
                    Ok(false)
                }
            }
            E::Or(a, b) => {
                if self.ev(a)? {
                    self.skip(b);
                    Ok(true)
                } else {
                    self.ev(b)
                }
            }
            E::T(t) => {
                self.leaf_no += 1;
                eval_test(t, self.f, self.now)
            }
            E::A(a) => {
                let leaf = self.leaf_no;
                self.leaf_no += 1;
                let f = self.f;
                let mut push = |dest: Dest, bytes: String, term: Option<char>, outs: &mut Vec<Out>| outs.push(Out { dest, bytes, term, leaf });
                match a {
                    Act::Print | Act::DefaultPrint => push(Dest::Stdout, f.rel_path.clone(), Some('\n'), &mut self.outs),
                    Act::Print0 => push(Dest::Stdout, f.rel_path.clone(), Some('\0'), &mut self.outs),
                    Act::Printf(fmt) => {
                        let s = render_format(fmt, f, self.o)?;
                        push(Dest::Stdout, s, None, &mut self.outs)
                    }
                    Act::FPrint(n) => push(Dest::File(n.clone()), f.rel_path.clone(), Some('\n'), &mut self.outs),
                    Act::FPrint0(n) => push(Dest::File(n.clone()), f.rel_path.clone(), Some('\0'), &mut self.outs),
                    Act::FPrintf(n, fmt) => {
                        let s = render_format(fmt, f, self.o)?;
                        push(Dest::File(n.clone()), s, None, &mut self.outs)
                    }
                    Act::PrintFid => push(Dest::Stdout, f.fid.clone(), Some('\n'), &mut self.outs),
                    Act::Quit => {
                        if self.stop_at.is_none() {
                            self.stop_at = Some(self.outs.len());
                        }
                    }
                    Act::Ls | Act::Fls(_) | Act::Prune => return Err(format!("action {a:?} is not supported by the target")),
                }
                Ok(true)
            }
            E::G(_) | E::Pos => Err("option node inside an expression".into()),
        }
    }
}

/// Evaluate `e` on `f` by find's rules, including the implicit print.
pub fn eval(e: &E, f: &FileRec, now: u64, o: Opts) -> Result<Res, String> {
    let mut ev = Ev { f, now, o, outs: vec![], stop_at: None, leaf_no: 0 };
    let mut truth = ev.ev(e)?;
    if !e.has_action() {
        // as if `( e ) -a -print` had been written
        if truth {
            ev.outs.push(Out { dest: Dest::Stdout, bytes: f.rel_path.clone(), term: Some('\n'), leaf: usize::MAX });
        }
        truth = truth && true;
    }
    Ok(Res { truth, outs: ev.outs, stop_at: ev.stop_at })
}

/// Does the expression need framed (distributed) output?  (statement of C10 / C19)
pub fn needs_frames(e: &E) -> bool {
    e.leaves().iter().any(|l| match l {
        E::A(Act::Print0) | E::A(Act::FPrint(_)) | E::A(Act::FPrint0(_)) | E::A(Act::FPrintf(..)) | E::A(Act::Fls(_)) => true,
        E::A(Act::Printf(f)) => f.last().is_some_and(|l| !matches!(l, FEl::E(Esc::Newline))),
        _ => false,
    })
}
