//! Independent reader for Guile's lexical syntax (as far as the emitter can
//! produce it and a hostile string could perturb it).  Strict: anything Guile's
//! `read` would reject (unknown string escape, unterminated string, stray
//! parenthesis) is a read error.

use std::fmt;

#[derive(Clone, PartialEq, Eq, Hash)]
pub enum Sx {
    List(Vec<Sx>),
    Sym(String),
    Str(String),
    /// integer literal: value if it fits i128, and the canonical decimal digits (with sign)
    Int(Option<i128>, String),
    Char(char),
    Bool(bool),
    /// other numeric literal (decimal point, exponent, rational) kept as text
    Real(String),
}

impl fmt::Debug for Sx {
    fn fmt(&self, f: &mut fmt::Formatter) -> fmt::Result {
        match self {
            Sx::List(v) => {
                write!(f, "(")?;
                for (i, x) in v.iter().enumerate() {
                    if i > 0 {
                        write!(f, " ")?;
                    }
                    write!(f, "{x:?}")?;
                }
                write!(f, ")")
            }
            Sx::Sym(s) => write!(f, "{s}"),
            Sx::Str(s) => write!(f, "{s:?}"),
            Sx::Int(_, d) => write!(f, "{d}"),
            Sx::Char(c) => write!(f, "#\\x{:x}", *c as u32),
            Sx::Bool(b) => write!(f, "{}", if *b { "#t" } else { "#f" }),
            Sx::Real(s) => write!(f, "{s}"),
        }
    }
}

impl Sx {
    pub fn sym(&self) -> Option<&str> {
        match self {
            Sx::Sym(s) => Some(s),
            _ => None,
        }
    }
    pub fn list(&self) -> Option<&[Sx]> {
        match self {
            Sx::List(v) => Some(v),
            _ => None,
        }
    }
    pub fn is_sym(&self, name: &str) -> bool {
        matches!(self, Sx::Sym(s) if s == name)
    }
    /// head symbol of a list form
    pub fn head(&self) -> Option<&str> {
        self.list().and_then(|l| l.first()).and_then(|h| h.sym())
    }
    pub fn int(&self) -> Option<i128> {
        match self {
            Sx::Int(v, _) => *v,
            _ => None,
        }
    }
    pub fn str_(&self) -> Option<&str> {
        match self {
            Sx::Str(s) => Some(s),
            _ => None,
        }
    }
    /// number of nodes (for structural summaries)
    pub fn size(&self) -> usize {
        match self {
            Sx::List(v) => 1 + v.iter().map(|x| x.size()).sum::<usize>(),
            _ => 1,
        }
    }
    /// visit every node
    pub fn walk<'a>(&'a self, f: &mut dyn FnMut(&'a Sx)) {
        f(self);
        if let Sx::List(v) = self {
            for x in v {
                x.walk(f);
            }
        }
    }
}

pub fn int(v: i128) -> Sx {
    Sx::Int(Some(v), v.to_string())
}

struct Rd<'a> {
    c: &'a [char],
    i: usize,
}

fn is_delim(c: char) -> bool {
    c.is_whitespace() || matches!(c, '(' | ')' | '[' | ']' | '"' | ';')
}

fn canon_digits(neg: bool, digits: &str) -> String {
    let t = digits.trim_start_matches('0');
    let t = if t.is_empty() { "0" } else { t };
    if neg && t != "0" {
        format!("-{t}")
    } else {
        t.to_string()
    }
}

fn parse_radix(neg: bool, body: &str, radix: u32) -> Option<Sx> {
    if body.is_empty() || !body.chars().all(|c| c.is_digit(radix)) {
        return None;
    }
    if radix == 10 {
        let canon = canon_digits(neg, body);
        return Some(Sx::Int(canon.parse::<i128>().ok(), canon));
    }
    let mut v: i128 = 0;
    for ch in body.chars() {
        v = v.checked_mul(radix as i128)?.checked_add(ch.to_digit(radix)? as i128)?;
    }
    let v = if neg { -v } else { v };
    Some(Sx::Int(Some(v), v.to_string()))
}

impl<'a> Rd<'a> {
    fn peek(&self) -> Option<char> {
        self.c.get(self.i).copied()
    }
    fn skip_ws(&mut self) -> Result<(), String> {
        loop {
            match self.peek() {
                Some(c) if c.is_whitespace() => self.i += 1,
                Some(';') => {
                    while let Some(c) = self.peek() {
                        if c == '\n' {
                            break;
                        }
                        self.i += 1;
                    }
                }
                Some('#') if self.c.get(self.i + 1) == Some(&'|') => {
                    let mut depth = 1;
                    self.i += 2;
                    while depth > 0 {
                        match (self.peek(), self.c.get(self.i + 1).copied()) {
                            (Some('|'), Some('#')) => {
                                depth -= 1;
                                self.i += 2;
                            }
                            (Some('#'), Some('|')) => {
                                depth += 1;
                                self.i += 2;
                            }
                            (Some(_), _) => self.i += 1,
                            (None, _) => return Err("unterminated block comment".into()),
                        }
                    }
                }
                Some('#') if self.c.get(self.i + 1) == Some(&';') => {
                    self.i += 2;
                    self.datum()?; // datum comment
                }
                _ => return Ok(()),
            }
        }
    }
    fn token(&mut self) -> String {
        let st = self.i;
        while let Some(c) = self.peek() {
            if is_delim(c) {
                break;
            }
            self.i += 1;
        }
        self.c[st..self.i].iter().collect()
    }
    fn hex(&mut self, n: usize) -> Result<char, String> {
        let mut v = 0u32;
        for _ in 0..n {
            let c = self.peek().ok_or("eof in hex escape")?;
            v = v * 16 + c.to_digit(16).ok_or_else(|| format!("bad hex digit {c:?} in string escape"))?;
            self.i += 1;
        }
        char::from_u32(v).ok_or_else(|| "hex escape is not a character".to_string())
    }
    fn string(&mut self) -> Result<Sx, String> {
        // after the opening quote
        let mut out = String::new();
        loop {
            let c = self.peek().ok_or("unterminated string literal")?;
            self.i += 1;
            match c {
                '"' => return Ok(Sx::Str(out)),
                '\\' => {
                    let e = self.peek().ok_or("unterminated string literal")?;
                    self.i += 1;
                    match e {
                        '\\' => out.push('\\'),
                        '"' => out.push('"'),
                        '|' => out.push('|'),
                        '(' => out.push('('),
                        '0' => out.push('\0'),
                        'a' => out.push('\x07'),
                        'b' => out.push('\x08'),
                        'f' => out.push('\x0c'),
                        'n' => out.push('\n'),
                        'r' => out.push('\r'),
                        't' => out.push('\t'),
                        'v' => out.push('\x0b'),
                        'x' => out.push(self.hex(2)?),
                        'u' => out.push(self.hex(4)?),
                        'U' => out.push(self.hex(6)?),
                        '\n' => {
                            // line continuation: skip leading blanks of the next line
                            while matches!(self.peek(), Some(' ') | Some('\t')) {
                                self.i += 1;
                            }
                        }
                        other => return Err(format!("illegal character in escape sequence: {other:?}")),
                    }
                }
                c => out.push(c),
            }
        }
    }
    fn hash(&mut self) -> Result<Sx, String> {
        // at '#'
        self.i += 1;
        match self.peek() {
            Some('\\') => {
                self.i += 1;
                // first character is taken even if it is a delimiter
                let first = self.peek().ok_or("eof in character literal")?;
                self.i += 1;
                let mut tok = String::new();
                tok.push(first);
                if !is_delim(first) || true {
                    // the rest of the token
                    let rest = self.token();
                    tok.push_str(&rest);
                }
                if tok.chars().count() == 1 {
                    return Ok(Sx::Char(first));
                }
                let named = match tok.as_str() {
                    "nul" | "null" => Some('\0'),
                    "alarm" => Some('\x07'),
                    "backspace" => Some('\x08'),
                    "tab" => Some('\t'),
                    "newline" | "linefeed" | "nl" => Some('\n'),
                    "vtab" => Some('\x0b'),
                    "page" => Some('\x0c'),
                    "return" => Some('\r'),
                    "escape" | "esc" | "altmode" => Some('\x1b'),
                    "space" | "sp" => Some(' '),
                    "delete" | "del" | "rubout" => Some('\x7f'),
                    _ => None,
                };
                if let Some(c) = named {
                    return Ok(Sx::Char(c));
                }
                if let Some(h) = tok.strip_prefix('x') {
                    if !h.is_empty() && h.chars().all(|c| c.is_ascii_hexdigit()) {
                        let v = u32::from_str_radix(h, 16).map_err(|e| e.to_string())?;
                        return char::from_u32(v).map(Sx::Char).ok_or_else(|| format!("#\\{tok}: not a character"));
                    }
                }
                if tok.chars().all(|c| ('0'..='7').contains(&c)) {
                    let v = u32::from_str_radix(&tok, 8).map_err(|e| e.to_string())?;
                    return char::from_u32(v).map(Sx::Char).ok_or_else(|| format!("#\\{tok}: not a character"));
                }
                Err(format!("unknown character name #\\{tok}"))
            }
            Some('(') => {
                // vector literal: read as a list tagged `#vector`
                self.i += 1;
                let mut items = vec![Sx::Sym("#vector".into())];
                items.extend(self.seq(')')?);
                Ok(Sx::List(items))
            }
            Some(':') => {
                self.i += 1;
                let t = self.token();
                Ok(Sx::Sym(format!("#:{t}")))
            }
            _ => {
                let t = self.token();
                match t.as_str() {
                    "t" | "true" => return Ok(Sx::Bool(true)),
                    "f" | "false" => return Ok(Sx::Bool(false)),
                    _ => {}
                }
                let mut it = t.chars();
                let r = it.next();
                let body: String = it.collect();
                let (neg, digits) = match body.strip_prefix('-') {
                    Some(d) => (true, d.to_string()),
                    None => (false, body.strip_prefix('+').unwrap_or(&body).to_string()),
                };
                let radix = match r {
                    Some('o') | Some('O') => 8,
                    Some('x') | Some('X') => 16,
                    Some('b') | Some('B') => 2,
                    Some('d') | Some('D') => 10,
                    _ => return Err(format!("unknown # syntax: #{t}")),
                };
                parse_radix(neg, &digits, radix).ok_or_else(|| format!("bad number #{t}"))
            }
        }
    }
    fn seq(&mut self, close: char) -> Result<Vec<Sx>, String> {
        let mut items = vec![];
        loop {
            self.skip_ws()?;
            match self.peek() {
                None => return Err("unexpected end of input inside a list".into()),
                Some(c) if c == ')' || c == ']' => {
                    if c != close {
                        return Err(format!("mismatched close paren {c:?}"));
                    }
                    self.i += 1;
                    return Ok(items);
                }
                _ => items.push(self.datum()?),
            }
        }
    }
    fn datum(&mut self) -> Result<Sx, String> {
        self.skip_ws()?;
        let c = self.peek().ok_or("unexpected end of input")?;
        match c {
            '(' => {
                self.i += 1;
                Ok(Sx::List(self.seq(')')?))
            }
            '[' => {
                self.i += 1;
                Ok(Sx::List(self.seq(']')?))
            }
            ')' | ']' => Err("unexpected close paren".into()),
            '"' => {
                self.i += 1;
                self.string()
            }
            '\'' => {
                self.i += 1;
                Ok(Sx::List(vec![Sx::Sym("quote".into()), self.datum()?]))
            }
            '`' => {
                self.i += 1;
                Ok(Sx::List(vec![Sx::Sym("quasiquote".into()), self.datum()?]))
            }
            ',' => {
                self.i += 1;
                if self.peek() == Some('@') {
                    self.i += 1;
                    Ok(Sx::List(vec![Sx::Sym("unquote-splicing".into()), self.datum()?]))
                } else {
                    Ok(Sx::List(vec![Sx::Sym("unquote".into()), self.datum()?]))
                }
            }
            '#' => self.hash(),
            _ => {
                let t = self.token();
                if t.is_empty() {
                    return Err(format!("unexpected character {c:?}"));
                }
                let (neg, body) = match t.strip_prefix('-') {
                    Some(b) => (true, b),
                    None => (false, t.strip_prefix('+').unwrap_or(&t)),
                };
                if !body.is_empty() && body.chars().all(|c| c.is_ascii_digit()) {
                    return Ok(parse_radix(neg, body, 10).unwrap());
                }
                // `1+` and `1-` are symbols (Guile's increment and decrement procedures)
                if t == "1+" || t == "1-" {
                    return Ok(Sx::Sym(t));
                }
                if !body.is_empty()
                    && body.starts_with(|c: char| c.is_ascii_digit() || c == '.')
                    && body.chars().any(|c| c.is_ascii_digit())
                    && body.chars().all(|c| c.is_ascii_digit() || matches!(c, '.' | 'e' | 'E' | '/' | '+' | '-'))
                {
                    return Ok(Sx::Real(t));
                }
                Ok(Sx::Sym(t))
            }
        }
    }
}

/// Read every top-level datum of `text`.
pub fn read_all(text: &str) -> Result<Vec<Sx>, String> {
    let chars: Vec<char> = text.chars().collect();
    let mut r = Rd { c: &chars, i: 0 };
    let mut out = vec![];
    loop {
        r.skip_ws()?;
        if r.peek().is_none() {
            return Ok(out);
        }
        out.push(r.datum()?);
    }
}

/// Escape a string the way a correct emitter must (used by tests of the reader only).
pub fn write_string(s: &str) -> String {
    let mut out = String::from("\"");
    for c in s.chars() {
        match c {
            '"' => out.push_str("\\\""),
            '\\' => out.push_str("\\\\"),
            c => out.push(c),
        }
    }
    out.push('"');
    out
}
