//! Replay-file encoding of spec-side values: the derived `Debug` rendering is
//! the encoder; this module is the decoder (a small parser for Rust's Debug
//! term syntax plus per-type readers).

use crate::tree::*;

#[derive(Debug, Clone, PartialEq)]
pub enum Term {
    Ctor(String, Vec<Term>),
    Str(String),
    Chr(char),
    Num(u128),
    List(Vec<Term>),
}

struct P<'a> {
    s: &'a [char],
    i: usize,
}

impl<'a> P<'a> {
    fn ws(&mut self) {
        while self.i < self.s.len() && self.s[self.i].is_whitespace() {
            self.i += 1;
        }
    }
    fn peek(&self) -> Option<char> {
        self.s.get(self.i).copied()
    }
    fn esc(&mut self) -> Result<char, String> {
        // after the backslash
        let c = self.peek().ok_or("eof in escape")?;
        self.i += 1;
        Ok(match c {
            'n' => '\n',
            't' => '\t',
            'r' => '\r',
            '0' => '\0',
            '\\' => '\\',
            '"' => '"',
            '\'' => '\'',
            'u' => {
                if self.peek() != Some('{') {
                    return Err("bad \\u".into());
                }
                self.i += 1;
                let mut v = 0u32;
                while let Some(c) = self.peek() {
                    self.i += 1;
                    if c == '}' {
                        break;
                    }
                    v = v * 16 + c.to_digit(16).ok_or("bad hex")?;
                }
                char::from_u32(v).ok_or("bad code point")?
            }
            other => return Err(format!("unknown escape \\{other}")),
        })
    }
    fn term(&mut self) -> Result<Term, String> {
        self.ws();
        let c = self.peek().ok_or("eof")?;
        if c == '"' {
            self.i += 1;
            let mut out = String::new();
            loop {
                let c = self.peek().ok_or("eof in string")?;
                self.i += 1;
                match c {
                    '"' => break,
                    '\\' => out.push(self.esc()?),
                    c => out.push(c),
                }
            }
            Ok(Term::Str(out))
        } else if c == '\'' {
            self.i += 1;
            let c = self.peek().ok_or("eof in char")?;
            self.i += 1;
            let v = if c == '\\' { self.esc()? } else { c };
            if self.peek() != Some('\'') {
                return Err("unterminated char".into());
            }
            self.i += 1;
            Ok(Term::Chr(v))
        } else if c.is_ascii_digit() {
            let mut v: u128 = 0;
            while let Some(c) = self.peek() {
                if let Some(d) = c.to_digit(10) {
                    v = v.checked_mul(10).and_then(|v| v.checked_add(d as u128)).ok_or("number too large")?;
                    self.i += 1;
                } else {
                    break;
                }
            }
            Ok(Term::Num(v))
        } else if c == '[' {
            self.i += 1;
            let items = self.items(']')?;
            Ok(Term::List(items))
        } else if c.is_alphabetic() || c == '_' {
            let st = self.i;
            while let Some(c) = self.peek() {
                if c.is_alphanumeric() || c == '_' {
                    self.i += 1;
                } else {
                    break;
                }
            }
            let name: String = self.s[st..self.i].iter().collect();
            self.ws();
            if self.peek() == Some('(') {
                self.i += 1;
                let items = self.items(')')?;
                Ok(Term::Ctor(name, items))
            } else {
                Ok(Term::Ctor(name, vec![]))
            }
        } else {
            Err(format!("unexpected {c:?} at {}", self.i))
        }
    }
    fn items(&mut self, close: char) -> Result<Vec<Term>, String> {
        let mut items = vec![];
        loop {
            self.ws();
            match self.peek() {
                None => return Err("eof in list".into()),
                Some(c) if c == close => {
                    self.i += 1;
                    return Ok(items);
                }
                Some(',') => {
                    self.i += 1;
                }
                _ => items.push(self.term()?),
            }
        }
    }
}

pub fn parse_term(s: &str) -> Result<Term, String> {
    let chars: Vec<char> = s.chars().collect();
    let mut p = P { s: &chars, i: 0 };
    let t = p.term()?;
    p.ws();
    if p.i != chars.len() {
        return Err(format!("trailing text at {}", p.i));
    }
    Ok(t)
}

type R<T> = Result<T, String>;

fn ctor(t: &Term) -> R<(&str, &[Term])> {
    match t {
        Term::Ctor(n, a) => Ok((n.as_str(), a.as_slice())),
        other => Err(format!("expected constructor, got {other:?}")),
    }
}
fn s(t: &Term) -> R<String> {
    match t {
        Term::Str(s) => Ok(s.clone()),
        o => Err(format!("expected string, got {o:?}")),
    }
}
fn ch(t: &Term) -> R<char> {
    match t {
        Term::Chr(c) => Ok(*c),
        o => Err(format!("expected char, got {o:?}")),
    }
}
pub fn num(t: &Term) -> R<u128> {
    match t {
        Term::Num(n) => Ok(*n),
        o => Err(format!("expected number, got {o:?}")),
    }
}
fn u32_(t: &Term) -> R<u32> {
    u32::try_from(num(t)?).map_err(|e| e.to_string())
}
fn u64_(t: &Term) -> R<u64> {
    u64::try_from(num(t)?).map_err(|e| e.to_string())
}
fn arg(a: &[Term], i: usize) -> R<&Term> {
    a.get(i).ok_or_else(|| format!("missing argument {i}"))
}

fn cmp(t: &Term) -> R<Cmp> {
    Ok(match ctor(t)?.0 {
        "Gt" => Cmp::Gt,
        "Lt" => Cmp::Lt,
        "Eq" => Cmp::Eq,
        o => return Err(format!("bad Cmp {o}")),
    })
}
fn sunit(t: &Term) -> R<SUnit> {
    Ok(match ctor(t)?.0 {
        "C" => SUnit::C,
        "W" => SUnit::W,
        "B" => SUnit::B,
        "K" => SUnit::K,
        "M" => SUnit::M,
        "G" => SUnit::G,
        "T" => SUnit::T,
        o => return Err(format!("bad SUnit {o}")),
    })
}
fn tunit(t: &Term) -> R<TUnit> {
    Ok(match ctor(t)?.0 {
        "S" => TUnit::S,
        "M" => TUnit::M,
        "H" => TUnit::H,
        "D" => TUnit::D,
        o => return Err(format!("bad TUnit {o}")),
    })
}
fn which(t: &Term) -> R<Which> {
    Ok(match ctor(t)?.0 {
        "A" => Which::A,
        "C" => Which::C,
        "M" => Which::M,
        o => return Err(format!("bad Which {o}")),
    })
}
fn ft(t: &Term) -> R<FT> {
    Ok(match ctor(t)?.0 {
        "B" => FT::B,
        "C" => FT::C,
        "D" => FT::D,
        "P" => FT::P,
        "F" => FT::F,
        "L" => FT::L,
        "S" => FT::S,
        o => return Err(format!("bad FT {o}")),
    })
}
fn pkind(t: &Term) -> R<PKind> {
    Ok(match ctor(t)?.0 {
        "Equal" => PKind::Equal,
        "AtLeast" => PKind::AtLeast,
        "Any" => PKind::Any,
        o => return Err(format!("bad PKind {o}")),
    })
}
fn utest(t: &Term) -> R<UTest> {
    let (n, a) = ctor(t)?;
    Ok(match n {
        "AccessNewer" => UTest::AccessNewer(s(arg(a, 0)?)?),
        "ChangeNewer" => UTest::ChangeNewer(s(arg(a, 0)?)?),
        "ModifyNewer" => UTest::ModifyNewer(s(arg(a, 0)?)?),
        "FsType" => UTest::FsType(s(arg(a, 0)?)?),
        "Group" => UTest::Group(s(arg(a, 0)?)?),
        "User" => UTest::User(s(arg(a, 0)?)?),
        "ILName" => UTest::ILName(s(arg(a, 0)?)?),
        "LName" => UTest::LName(s(arg(a, 0)?)?),
        "IRegex" => UTest::IRegex(s(arg(a, 0)?)?),
        "Regex" => UTest::Regex(s(arg(a, 0)?)?),
        "Samefile" => UTest::Samefile(s(arg(a, 0)?)?),
        "NoGroup" => UTest::NoGroup,
        "NoUser" => UTest::NoUser,
        o => return Err(format!("bad UTest {o}")),
    })
}
pub fn tst(t: &Term) -> R<Tst> {
    let (n, a) = ctor(t)?;
    Ok(match n {
        "Time" => Tst::Time(which(arg(a, 0)?)?, cmp(arg(a, 1)?)?, u64_(arg(a, 2)?)?, tunit(arg(a, 3)?)?),
        "Empty" => Tst::Empty,
        "Executable" => Tst::Executable,
        "Readable" => Tst::Readable,
        "Writable" => Tst::Writable,
        "True" => Tst::True,
        "False" => Tst::False,
        "Gid" => Tst::Gid(cmp(arg(a, 0)?)?, u32_(arg(a, 1)?)?),
        "Uid" => Tst::Uid(cmp(arg(a, 0)?)?, u32_(arg(a, 1)?)?),
        "Inum" => Tst::Inum(cmp(arg(a, 0)?)?, u32_(arg(a, 1)?)?),
        "MirrorCount" => Tst::MirrorCount(cmp(arg(a, 0)?)?, u32_(arg(a, 1)?)?),
        "StripeCount" => Tst::StripeCount(cmp(arg(a, 0)?)?, u32_(arg(a, 1)?)?),
        "Links" => Tst::Links(cmp(arg(a, 0)?)?, u64_(arg(a, 1)?)?),
        "Name" => Tst::Name(s(arg(a, 0)?)?),
        "IName" => Tst::IName(s(arg(a, 0)?)?),
        "Path" => Tst::Path(s(arg(a, 0)?)?),
        "IPath" => Tst::IPath(s(arg(a, 0)?)?),
        "Pool" => Tst::Pool(s(arg(a, 0)?)?),
        "Xattr" => Tst::Xattr(s(arg(a, 0)?)?),
        "XattrMatch" => Tst::XattrMatch(s(arg(a, 0)?)?, s(arg(a, 1)?)?),
        "Size" => Tst::Size(cmp(arg(a, 0)?)?, u64_(arg(a, 1)?)?, sunit(arg(a, 2)?)?),
        "Type" => match arg(a, 0)? {
            Term::List(v) => Tst::Type(v.iter().map(ft).collect::<R<Vec<_>>>()?),
            o => return Err(format!("bad type list {o:?}")),
        },
        "Perm" => Tst::Perm(pkind(arg(a, 0)?)?, u32_(arg(a, 1)?)?),
        "U" => Tst::U(utest(arg(a, 0)?)?),
        o => return Err(format!("bad Tst {o}")),
    })
}
fn esc(t: &Term) -> R<Esc> {
    let (n, a) = ctor(t)?;
    Ok(match n {
        "Alarm" => Esc::Alarm,
        "Backspace" => Esc::Backspace,
        "Clear" => Esc::Clear,
        "Form" => Esc::Form,
        "Newline" => Esc::Newline,
        "CarriageReturn" => Esc::CarriageReturn,
        "Tab" => Esc::Tab,
        "VTab" => Esc::VTab,
        "Null" => Esc::Null,
        "Backslash" => Esc::Backslash,
        "Ascii" => Esc::Ascii(u16::try_from(num(arg(a, 0)?)?).map_err(|e| e.to_string())?),
        o => return Err(format!("bad Esc {o}")),
    })
}
fn fld(t: &Term) -> R<Fld> {
    let (n, a) = ctor(t)?;
    Ok(match n {
        "Percent" => Fld::Percent,
        "Access" => Fld::Access,
        "AccessFmt" => Fld::AccessFmt(ch(arg(a, 0)?)?),
        "Blocks" => Fld::Blocks,
        "Change" => Fld::Change,
        "ChangeFmt" => Fld::ChangeFmt(ch(arg(a, 0)?)?),
        "Depth" => Fld::Depth,
        "DevNum" => Fld::DevNum,
        "Basename" => Fld::Basename,
        "FsType" => Fld::FsType,
        "Group" => Fld::Group,
        "GroupId" => Fld::GroupId,
        "Parents" => Fld::Parents,
        "StartingPoint" => Fld::StartingPoint,
        "Inode" => Fld::Inode,
        "Kilos" => Fld::Kilos,
        "SymTarget" => Fld::SymTarget,
        "PermOctal" => Fld::PermOctal,
        "PermSymbolic" => Fld::PermSymbolic,
        "Hardlinks" => Fld::Hardlinks,
        "Name" => Fld::Name,
        "NameNoStart" => Fld::NameNoStart,
        "Bytes" => Fld::Bytes,
        "Sparseness" => Fld::Sparseness,
        "Modify" => Fld::Modify,
        "ModifyFmt" => Fld::ModifyFmt(ch(arg(a, 0)?)?),
        "User" => Fld::User,
        "UserId" => Fld::UserId,
        "Type" => Fld::Type,
        "TypeSymlink" => Fld::TypeSymlink,
        "SecCtx" => Fld::SecCtx,
        "Fid" => Fld::Fid,
        "ProjId" => Fld::ProjId,
        "MirrorCount" => Fld::MirrorCount,
        "StripeCount" => Fld::StripeCount,
        "StripeSize" => Fld::StripeSize,
        "XAttr" => Fld::XAttr(s(arg(a, 0)?)?),
        o => return Err(format!("bad Fld {o}")),
    })
}
pub fn fmt(t: &Term) -> R<Vec<FEl>> {
    match t {
        Term::List(v) => v
            .iter()
            .map(|e| {
                let (n, a) = ctor(e)?;
                Ok(match n {
                    "Lit" => FEl::Lit(s(arg(a, 0)?)?),
                    "F" => FEl::F(fld(arg(a, 0)?)?),
                    "E" => FEl::E(esc(arg(a, 0)?)?),
                    o => return Err(format!("bad FEl {o}")),
                })
            })
            .collect(),
        o => Err(format!("expected format list, got {o:?}")),
    }
}
pub fn act(t: &Term) -> R<Act> {
    let (n, a) = ctor(t)?;
    Ok(match n {
        "Print" => Act::Print,
        "Print0" => Act::Print0,
        "Printf" => Act::Printf(fmt(arg(a, 0)?)?),
        "FPrint" => Act::FPrint(s(arg(a, 0)?)?),
        "FPrint0" => Act::FPrint0(s(arg(a, 0)?)?),
        "FPrintf" => Act::FPrintf(s(arg(a, 0)?)?, fmt(arg(a, 1)?)?),
        "PrintFid" => Act::PrintFid,
        "Quit" => Act::Quit,
        "Ls" => Act::Ls,
        "Fls" => Act::Fls(s(arg(a, 0)?)?),
        "Prune" => Act::Prune,
        "DefaultPrint" => Act::DefaultPrint,
        o => return Err(format!("bad Act {o}")),
    })
}
fn glob(t: &Term) -> R<Glob> {
    let (n, a) = ctor(t)?;
    Ok(match n {
        "Depth" => Glob::Depth,
        "MaxDepth" => Glob::MaxDepth(u32_(arg(a, 0)?)?),
        "MinDepth" => Glob::MinDepth(u32_(arg(a, 0)?)?),
        "Threads" => Glob::Threads(u32_(arg(a, 0)?)?),
        o => return Err(format!("bad Glob {o}")),
    })
}
pub fn expr(t: &Term) -> R<E> {
    let (n, a) = ctor(t)?;
    Ok(match n {
        "Not" => E::not(expr(arg(a, 0)?)?),
        "Prec" => E::prec(expr(arg(a, 0)?)?),
        "And" => E::and(expr(arg(a, 0)?)?, expr(arg(a, 1)?)?),
        "Or" => E::or(expr(arg(a, 0)?)?, expr(arg(a, 1)?)?),
        "List" => E::list(expr(arg(a, 0)?)?, expr(arg(a, 1)?)?),
        "T" => E::T(tst(arg(a, 0)?)?),
        "A" => E::A(act(arg(a, 0)?)?),
        "G" => E::G(glob(arg(a, 0)?)?),
        "Pos" => E::Pos,
        o => return Err(format!("bad E {o}")),
    })
}

pub fn decode_expr(text: &str) -> R<E> {
    expr(&parse_term(text)?)
}
pub fn encode_expr(e: &E) -> String {
    format!("{e:?}")
}
