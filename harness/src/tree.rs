//! Specification-side expression tree (independent of the crate's `ast` types),
//! conversion to/from `ast::Expression`, and a textual encoding used in replay
//! files.  Written from find(1) and the doc comments in `ast.rs`.

use lipe_find_parser::ast;
use lipe_find_parser::Mode;
use std::rc::Rc;

#[derive(Debug, Clone, Copy, PartialEq, Eq, Hash, PartialOrd, Ord)]
pub enum Cmp {
    Gt,
    Lt,
    Eq,
}

#[derive(Debug, Clone, Copy, PartialEq, Eq, Hash, PartialOrd, Ord)]
pub enum SUnit {
    C,
    W,
    B,
    K,
    M,
    G,
    T,
}
impl SUnit {
    pub const ALL: [SUnit; 7] = [SUnit::C, SUnit::W, SUnit::B, SUnit::K, SUnit::M, SUnit::G, SUnit::T];
    pub fn bytes(self) -> u64 {
        match self {
            SUnit::C => 1,
            SUnit::W => 2,
            SUnit::B => 512,
            SUnit::K => 1 << 10,
            SUnit::M => 1 << 20,
            SUnit::G => 1 << 30,
            SUnit::T => 1 << 40,
        }
    }
    pub fn letter(self) -> char {
        match self {
            SUnit::C => 'c',
            SUnit::W => 'w',
            SUnit::B => 'b',
            SUnit::K => 'k',
            SUnit::M => 'M',
            SUnit::G => 'G',
            SUnit::T => 'T',
        }
    }
}

#[derive(Debug, Clone, Copy, PartialEq, Eq, Hash, PartialOrd, Ord)]
pub enum TUnit {
    S,
    M,
    H,
    D,
}
impl TUnit {
    pub const ALL: [TUnit; 4] = [TUnit::S, TUnit::M, TUnit::H, TUnit::D];
    pub fn secs(self) -> u64 {
        match self {
            TUnit::S => 1,
            TUnit::M => 60,
            TUnit::H => 3600,
            TUnit::D => 86400,
        }
    }
    pub fn letter(self) -> char {
        match self {
            TUnit::S => 's',
            TUnit::M => 'm',
            TUnit::H => 'h',
            TUnit::D => 'd',
        }
    }
}

#[derive(Debug, Clone, Copy, PartialEq, Eq, Hash, PartialOrd, Ord)]
pub enum Which {
    A,
    C,
    M,
}

#[derive(Debug, Clone, Copy, PartialEq, Eq, Hash, PartialOrd, Ord)]
pub enum FT {
    B,
    C,
    D,
    P,
    F,
    L,
    S,
}
impl FT {
    pub const ALL: [FT; 7] = [FT::B, FT::C, FT::D, FT::P, FT::F, FT::L, FT::S];
    pub fn letter(self) -> char {
        match self {
            FT::B => 'b',
            FT::C => 'c',
            FT::D => 'd',
            FT::P => 'p',
            FT::F => 'f',
            FT::L => 'l',
            FT::S => 's',
        }
    }
    /// S_IF* constant from <sys/stat.h>
    pub fn bits(self) -> u32 {
        match self {
            FT::B => 0o060000,
            FT::C => 0o020000,
            FT::D => 0o040000,
            FT::P => 0o010000,
            FT::F => 0o100000,
            FT::L => 0o120000,
            FT::S => 0o140000,
        }
    }
}

#[derive(Debug, Clone, Copy, PartialEq, Eq, Hash, PartialOrd, Ord)]
pub enum PKind {
    Equal,
    AtLeast,
    Any,
}

/// Tests the target cannot express (ast.rs: "not supported in the final scheme output")
#[derive(Debug, Clone, PartialEq, Eq, Hash, PartialOrd, Ord)]
pub enum UTest {
    AccessNewer(String),
    ChangeNewer(String),
    ModifyNewer(String),
    FsType(String),
    Group(String),
    User(String),
    ILName(String),
    LName(String),
    IRegex(String),
    Regex(String),
    Samefile(String),
    NoGroup,
    NoUser,
}

#[derive(Debug, Clone, PartialEq, Eq, Hash, PartialOrd, Ord)]
pub enum Tst {
    Time(Which, Cmp, u64, TUnit),
    Empty,
    Executable,
    Readable,
    Writable,
    True,
    False,
    Gid(Cmp, u32),
    Uid(Cmp, u32),
    Inum(Cmp, u32),
    MirrorCount(Cmp, u32),
    StripeCount(Cmp, u32),
    Links(Cmp, u64),
    Name(String),
    IName(String),
    Path(String),
    IPath(String),
    Pool(String),
    Xattr(String),
    XattrMatch(String, String),
    Size(Cmp, u64, SUnit),
    Type(Vec<FT>),
    Perm(PKind, u32),
    U(UTest),
}

/// Escapes of the printf mini-language
#[derive(Debug, Clone, Copy, PartialEq, Eq, Hash, PartialOrd, Ord)]
pub enum Esc {
    Alarm,
    Backspace,
    Clear,
    Form,
    Newline,
    CarriageReturn,
    Tab,
    VTab,
    Null,
    Backslash,
    Ascii(u16),
}

/// Directives of the printf mini-language
#[derive(Debug, Clone, PartialEq, Eq, Hash, PartialOrd, Ord)]
pub enum Fld {
    Percent,
    Access,
    AccessFmt(char),
    Blocks,
    Change,
    ChangeFmt(char),
    Depth,
    DevNum,
    Basename,
    FsType,
    Group,
    GroupId,
    Parents,
    StartingPoint,
    Inode,
    Kilos,
    SymTarget,
    PermOctal,
    PermSymbolic,
    Hardlinks,
    Name,
    NameNoStart,
    Bytes,
    Sparseness,
    Modify,
    ModifyFmt(char),
    User,
    UserId,
    Type,
    TypeSymlink,
    SecCtx,
    Fid,
    ProjId,
    MirrorCount,
    StripeCount,
    StripeSize,
    XAttr(String),
}

impl Fld {
    /// Appendix C of DESIGN.md / comment list in target_scheme.rs error arms.
    pub fn supported(&self) -> bool {
        !matches!(
            self,
            Fld::Depth | Fld::DevNum | Fld::FsType | Fld::SymTarget | Fld::PermSymbolic | Fld::TypeSymlink | Fld::SecCtx
        )
    }
    /// Variant name as spelled in `ast::FormatField` (used in error-message checks).
    pub fn variant_name(&self) -> &'static str {
        match self {
            Fld::Percent => "Percent",
            Fld::Access => "Access",
            Fld::AccessFmt(_) => "AccessFormatted",
            Fld::Blocks => "DiskSizeBlocks",
            Fld::Change => "Change",
            Fld::ChangeFmt(_) => "ChangeFormatted",
            Fld::Depth => "Depth",
            Fld::DevNum => "DeviceNumber",
            Fld::Basename => "Basename",
            Fld::FsType => "FsType",
            Fld::Group => "Group",
            Fld::GroupId => "GroupId",
            Fld::Parents => "Parents",
            Fld::StartingPoint => "StartingPoint",
            Fld::Inode => "InodeDecimal",
            Fld::Kilos => "DiskSizeKilos",
            Fld::SymTarget => "SymbolicTarget",
            Fld::PermOctal => "PermissionsOctal",
            Fld::PermSymbolic => "PermissionsSymbolic",
            Fld::Hardlinks => "Hardlinks",
            Fld::Name => "Name",
            Fld::NameNoStart => "NameWithoutStartingPoint",
            Fld::Bytes => "DiskSizeBytes",
            Fld::Sparseness => "Sparseness",
            Fld::Modify => "Modify",
            Fld::ModifyFmt(_) => "ModifyFormatted",
            Fld::User => "User",
            Fld::UserId => "UserId",
            Fld::Type => "Type",
            Fld::TypeSymlink => "TypeSymlink",
            Fld::SecCtx => "SecurityContext",
            Fld::Fid => "FileId",
            Fld::ProjId => "ProjectId",
            Fld::MirrorCount => "MirrorCount",
            Fld::StripeCount => "StripeCount",
            Fld::StripeSize => "StripeSize",
            Fld::XAttr(_) => "XAttr",
        }
    }
}

#[derive(Debug, Clone, PartialEq, Eq, Hash, PartialOrd, Ord)]
pub enum FEl {
    Lit(String),
    F(Fld),
    E(Esc),
}

#[derive(Debug, Clone, PartialEq, Eq, Hash, PartialOrd, Ord)]
pub enum Act {
    Print,
    Print0,
    Printf(Vec<FEl>),
    FPrint(String),
    FPrint0(String),
    FPrintf(String, Vec<FEl>),
    PrintFid,
    Quit,
    // unsupported by the target
    Ls,
    Fls(String),
    Prune,
    /// `Action::DefaultPrint` (deprecated variant; only reachable by direct construction)
    DefaultPrint,
}

#[derive(Debug, Clone, PartialEq, Eq, Hash, PartialOrd, Ord)]
pub enum Glob {
    Depth,
    MaxDepth(u32),
    MinDepth(u32),
    Threads(u32),
}

#[derive(Debug, Clone, PartialEq, Eq, Hash, PartialOrd, Ord)]
pub enum E {
    Not(Box<E>),
    And(Box<E>, Box<E>),
    Or(Box<E>, Box<E>),
    List(Box<E>, Box<E>),
    Prec(Box<E>),
    T(Tst),
    A(Act),
    G(Glob),
    Pos,
}

impl E {
    pub fn not(e: E) -> E {
        E::Not(Box::new(e))
    }
    pub fn and(a: E, b: E) -> E {
        E::And(Box::new(a), Box::new(b))
    }
    pub fn or(a: E, b: E) -> E {
        E::Or(Box::new(a), Box::new(b))
    }
    pub fn list(a: E, b: E) -> E {
        E::List(Box::new(a), Box::new(b))
    }
    pub fn prec(a: E) -> E {
        E::Prec(Box::new(a))
    }
    pub fn node_count(&self) -> usize {
        match self {
            E::Not(a) | E::Prec(a) => 1 + a.node_count(),
            E::And(a, b) | E::Or(a, b) | E::List(a, b) => 1 + a.node_count() + b.node_count(),
            _ => 1,
        }
    }
    pub fn depth(&self) -> usize {
        match self {
            E::Not(a) | E::Prec(a) => 1 + a.depth(),
            E::And(a, b) | E::Or(a, b) | E::List(a, b) => 1 + a.depth().max(b.depth()),
            _ => 1,
        }
    }
    /// Leaves in evaluation (left-to-right) order, collected iteratively.
    pub fn leaves(&self) -> Vec<&E> {
        let mut out = vec![];
        let mut stack = vec![self];
        while let Some(e) = stack.pop() {
            match e {
                E::Not(a) | E::Prec(a) => stack.push(a),
                E::And(a, b) | E::Or(a, b) | E::List(a, b) => {
                    stack.push(b);
                    stack.push(a);
                }
                leaf => out.push(leaf),
            }
        }
        out
    }
    /// every user-supplied string of the tree (patterns, names, file names, literal text), in order
    pub fn user_strings(&self) -> Vec<String> {
        let mut out = vec![];
        let fmt = |f: &Vec<FEl>, out: &mut Vec<String>| {
            for el in f {
                match el {
                    FEl::Lit(s) => out.push(s.clone()),
                    FEl::F(Fld::XAttr(s)) => out.push(s.clone()),
                    _ => {}
                }
            }
        };
        for l in self.leaves() {
            match l {
                E::T(Tst::Name(s) | Tst::IName(s) | Tst::Path(s) | Tst::IPath(s) | Tst::Pool(s) | Tst::Xattr(s)) => out.push(s.clone()),
                E::T(Tst::XattrMatch(a, b)) => {
                    out.push(a.clone());
                    out.push(b.clone());
                }
                E::A(Act::FPrint(s) | Act::FPrint0(s) | Act::Fls(s)) => out.push(s.clone()),
                E::A(Act::Printf(f)) => fmt(f, &mut out),
                E::A(Act::FPrintf(s, f)) => {
                    out.push(s.clone());
                    fmt(f, &mut out);
                }
                _ => {}
            }
        }
        out
    }
    /// the same tree with every user-supplied string replaced by `f(string)`
    pub fn map_strings(&self, f: &mut dyn FnMut(&str) -> String) -> E {
        fn fmt(v: &[FEl], f: &mut dyn FnMut(&str) -> String) -> Vec<FEl> {
            v.iter()
                .map(|el| match el {
                    FEl::Lit(s) => FEl::Lit(f(s)),
                    FEl::F(Fld::XAttr(s)) => FEl::F(Fld::XAttr(f(s))),
                    o => o.clone(),
                })
                .collect()
        }
        match self {
            E::Not(a) => E::not(a.map_strings(f)),
            E::Prec(a) => E::prec(a.map_strings(f)),
            E::And(a, b) => {
                let x = a.map_strings(f);
                E::and(x, b.map_strings(f))
            }
            E::Or(a, b) => {
                let x = a.map_strings(f);
                E::or(x, b.map_strings(f))
            }
            E::List(a, b) => {
                let x = a.map_strings(f);
                E::list(x, b.map_strings(f))
            }
            E::T(Tst::Name(s)) => E::T(Tst::Name(f(s))),
            E::T(Tst::IName(s)) => E::T(Tst::IName(f(s))),
            E::T(Tst::Path(s)) => E::T(Tst::Path(f(s))),
            E::T(Tst::IPath(s)) => E::T(Tst::IPath(f(s))),
            E::T(Tst::Pool(s)) => E::T(Tst::Pool(f(s))),
            E::T(Tst::Xattr(s)) => E::T(Tst::Xattr(f(s))),
            E::T(Tst::XattrMatch(a, b)) => {
                let x = f(a);
                E::T(Tst::XattrMatch(x, f(b)))
            }
            E::A(Act::FPrint(s)) => E::A(Act::FPrint(f(s))),
            E::A(Act::FPrint0(s)) => E::A(Act::FPrint0(f(s))),
            E::A(Act::Fls(s)) => E::A(Act::Fls(f(s))),
            E::A(Act::Printf(v)) => E::A(Act::Printf(fmt(v, f))),
            E::A(Act::FPrintf(s, v)) => {
                let x = f(s);
                E::A(Act::FPrintf(x, fmt(v, f)))
            }
            o => o.clone(),
        }
    }
    pub fn has_action(&self) -> bool {
        self.leaves().iter().any(|l| matches!(l, E::A(_)))
    }
    pub fn n_operators(&self) -> usize {
        match self {
            E::Not(a) | E::Prec(a) => 1 + a.n_operators(),
            E::And(a, b) | E::Or(a, b) | E::List(a, b) => 1 + a.n_operators() + b.n_operators(),
            _ => 0,
        }
    }
}

// ---------------------------------------------------------------------------
// conversion to the crate's public types

fn cmp_to<T>(c: Cmp, v: T) -> ast::Comparison<T> {
    match c {
        Cmp::Gt => ast::Comparison::GreaterThan(v),
        Cmp::Lt => ast::Comparison::LesserThan(v),
        Cmp::Eq => ast::Comparison::Equal(v),
    }
}
fn cmp_from<T: Clone>(c: &ast::Comparison<T>) -> (Cmp, T) {
    match c {
        ast::Comparison::GreaterThan(v) => (Cmp::Gt, v.clone()),
        ast::Comparison::LesserThan(v) => (Cmp::Lt, v.clone()),
        ast::Comparison::Equal(v) => (Cmp::Eq, v.clone()),
    }
}

pub fn size_to(n: u64, u: SUnit) -> ast::Size {
    match u {
        SUnit::C => ast::Size::Byte(n),
        SUnit::W => ast::Size::Word(n),
        SUnit::B => ast::Size::Block(n),
        SUnit::K => ast::Size::KiloByte(n),
        SUnit::M => ast::Size::MegaByte(n),
        SUnit::G => ast::Size::GigaByte(n),
        SUnit::T => ast::Size::TeraByte(n),
    }
}
fn size_from(s: &ast::Size) -> (u64, SUnit) {
    match s {
        ast::Size::Byte(n) => (*n, SUnit::C),
        ast::Size::Word(n) => (*n, SUnit::W),
        ast::Size::Block(n) => (*n, SUnit::B),
        ast::Size::KiloByte(n) => (*n, SUnit::K),
        ast::Size::MegaByte(n) => (*n, SUnit::M),
        ast::Size::GigaByte(n) => (*n, SUnit::G),
        ast::Size::TeraByte(n) => (*n, SUnit::T),
    }
}
pub fn time_to(n: u64, u: TUnit) -> ast::TimeSpec {
    match u {
        TUnit::S => ast::TimeSpec::Second(n),
        TUnit::M => ast::TimeSpec::Minute(n),
        TUnit::H => ast::TimeSpec::Hour(n),
        TUnit::D => ast::TimeSpec::Day(n),
    }
}
fn time_from(s: &ast::TimeSpec) -> (u64, TUnit) {
    match s {
        ast::TimeSpec::Second(n) => (*n, TUnit::S),
        ast::TimeSpec::Minute(n) => (*n, TUnit::M),
        ast::TimeSpec::Hour(n) => (*n, TUnit::H),
        ast::TimeSpec::Day(n) => (*n, TUnit::D),
    }
}
pub fn ft_to(t: FT) -> ast::FileType {
    match t {
        FT::B => ast::FileType::Block,
        FT::C => ast::FileType::Character,
        FT::D => ast::FileType::Directory,
        FT::P => ast::FileType::Pipe,
        FT::F => ast::FileType::File,
        FT::L => ast::FileType::Link,
        FT::S => ast::FileType::Socket,
    }
}
fn ft_from(t: &ast::FileType) -> FT {
    match t {
        ast::FileType::Block => FT::B,
        ast::FileType::Character => FT::C,
        ast::FileType::Directory => FT::D,
        ast::FileType::Pipe => FT::P,
        ast::FileType::File => FT::F,
        ast::FileType::Link => FT::L,
        ast::FileType::Socket => FT::S,
    }
}

pub fn esc_to(e: Esc) -> ast::FormatSpecial {
    use ast::FormatSpecial as S;
    match e {
        Esc::Alarm => S::Alarm,
        Esc::Backspace => S::Backspace,
        Esc::Clear => S::Clear,
        Esc::Form => S::Form,
        Esc::Newline => S::Newline,
        Esc::CarriageReturn => S::CarriageReturn,
        Esc::Tab => S::TabHorizontal,
        Esc::VTab => S::TabVertical,
        Esc::Null => S::Null,
        Esc::Backslash => S::Backslash,
        Esc::Ascii(v) => S::Ascii(v),
    }
}
fn esc_from(e: &ast::FormatSpecial) -> Esc {
    use ast::FormatSpecial as S;
    match e {
        S::Alarm => Esc::Alarm,
        S::Backspace => Esc::Backspace,
        S::Clear => Esc::Clear,
        S::Form => Esc::Form,
        S::Newline => Esc::Newline,
        S::CarriageReturn => Esc::CarriageReturn,
        S::TabHorizontal => Esc::Tab,
        S::TabVertical => Esc::VTab,
        S::Null => Esc::Null,
        S::Backslash => Esc::Backslash,
        S::Ascii(v) => Esc::Ascii(*v),
    }
}
pub fn fld_to(f: &Fld) -> ast::FormatField {
    use ast::FormatField as F;
    match f {
        Fld::Percent => F::Percent,
        Fld::Access => F::Access,
        Fld::AccessFmt(c) => F::AccessFormatted(*c),
        Fld::Blocks => F::DiskSizeBlocks,
        Fld::Change => F::Change,
        Fld::ChangeFmt(c) => F::ChangeFormatted(*c),
        Fld::Depth => F::Depth,
        Fld::DevNum => F::DeviceNumber,
        Fld::Basename => F::Basename,
        Fld::FsType => F::FsType,
        Fld::Group => F::Group,
        Fld::GroupId => F::GroupId,
        Fld::Parents => F::Parents,
        Fld::StartingPoint => F::StartingPoint,
        Fld::Inode => F::InodeDecimal,
        Fld::Kilos => F::DiskSizeKilos,
        Fld::SymTarget => F::SymbolicTarget,
        Fld::PermOctal => F::PermissionsOctal,
        Fld::PermSymbolic => F::PermissionsSymbolic,
        Fld::Hardlinks => F::Hardlinks,
        Fld::Name => F::Name,
        Fld::NameNoStart => F::NameWithoutStartingPoint,
        Fld::Bytes => F::DiskSizeBytes,
        Fld::Sparseness => F::Sparseness,
        Fld::Modify => F::Modify,
        Fld::ModifyFmt(c) => F::ModifyFormatted(*c),
        Fld::User => F::User,
        Fld::UserId => F::UserId,
        Fld::Type => F::Type,
        Fld::TypeSymlink => F::TypeSymlink,
        Fld::SecCtx => F::SecurityContext,
        Fld::Fid => F::FileId,
        Fld::ProjId => F::ProjectId,
        Fld::MirrorCount => F::MirrorCount,
        Fld::StripeCount => F::StripeCount,
        Fld::StripeSize => F::StripeSize,
        Fld::XAttr(s) => F::XAttr(s.clone()),
    }
}
fn fld_from(f: &ast::FormatField) -> Fld {
    use ast::FormatField as F;
    match f {
        F::Percent => Fld::Percent,
        F::Access => Fld::Access,
        F::AccessFormatted(c) => Fld::AccessFmt(*c),
        F::DiskSizeBlocks => Fld::Blocks,
        F::Change => Fld::Change,
        F::ChangeFormatted(c) => Fld::ChangeFmt(*c),
        F::Depth => Fld::Depth,
        F::DeviceNumber => Fld::DevNum,
        F::Basename => Fld::Basename,
        F::FsType => Fld::FsType,
        F::Group => Fld::Group,
        F::GroupId => Fld::GroupId,
        F::Parents => Fld::Parents,
        F::StartingPoint => Fld::StartingPoint,
        F::InodeDecimal => Fld::Inode,
        F::DiskSizeKilos => Fld::Kilos,
        F::SymbolicTarget => Fld::SymTarget,
        F::PermissionsOctal => Fld::PermOctal,
        F::PermissionsSymbolic => Fld::PermSymbolic,
        F::Hardlinks => Fld::Hardlinks,
        F::Name => Fld::Name,
        F::NameWithoutStartingPoint => Fld::NameNoStart,
        F::DiskSizeBytes => Fld::Bytes,
        F::Sparseness => Fld::Sparseness,
        F::Modify => Fld::Modify,
        F::ModifyFormatted(c) => Fld::ModifyFmt(*c),
        F::User => Fld::User,
        F::UserId => Fld::UserId,
        F::Type => Fld::Type,
        F::TypeSymlink => Fld::TypeSymlink,
        F::SecurityContext => Fld::SecCtx,
        F::FileId => Fld::Fid,
        F::ProjectId => Fld::ProjId,
        F::MirrorCount => Fld::MirrorCount,
        F::StripeCount => Fld::StripeCount,
        F::StripeSize => Fld::StripeSize,
        F::XAttr(s) => Fld::XAttr(s.clone()),
    }
}
pub fn fmt_to(v: &[FEl]) -> Vec<ast::FormatElement> {
    v.iter()
        .map(|e| match e {
            FEl::Lit(s) => ast::FormatElement::Literal(s.clone()),
            FEl::F(f) => ast::FormatElement::Field(fld_to(f)),
            FEl::E(e) => ast::FormatElement::Special(esc_to(*e)),
        })
        .collect()
}
pub fn fmt_from(v: &[ast::FormatElement]) -> Vec<FEl> {
    v.iter()
        .map(|e| match e {
            ast::FormatElement::Literal(s) => FEl::Lit(s.clone()),
            ast::FormatElement::Field(f) => FEl::F(fld_from(f)),
            ast::FormatElement::Special(e) => FEl::E(esc_from(e)),
        })
        .collect()
}

pub fn tst_to(t: &Tst) -> ast::Test {
    use ast::Test as T;
    match t {
        Tst::Time(w, c, n, u) => {
            let v = cmp_to(*c, time_to(*n, *u));
            match w {
                Which::A => T::AccessTime(v),
                Which::C => T::ChangeTime(v),
                Which::M => T::ModifyTime(v),
            }
        }
        Tst::Empty => T::Empty,
        Tst::Executable => T::Executable,
        Tst::Readable => T::Readable,
        Tst::Writable => T::Writable,
        Tst::True => T::True,
        Tst::False => T::False,
        Tst::Gid(c, n) => T::GroupId(cmp_to(*c, *n)),
        Tst::Uid(c, n) => T::UserId(cmp_to(*c, *n)),
        Tst::Inum(c, n) => T::InodeNumber(cmp_to(*c, *n)),
        Tst::MirrorCount(c, n) => T::MirrorCount(cmp_to(*c, *n)),
        Tst::StripeCount(c, n) => T::StripeCount(cmp_to(*c, *n)),
        Tst::Links(c, n) => T::Links(cmp_to(*c, *n)),
        Tst::Name(s) => T::Name(s.clone()),
        Tst::IName(s) => T::InsensitiveName(s.clone()),
        Tst::Path(s) => T::Path(s.clone()),
        Tst::IPath(s) => T::InsensitivePath(s.clone()),
        Tst::Pool(s) => T::Pool(s.clone()),
        Tst::Xattr(s) => T::Xattr(s.clone()),
        Tst::XattrMatch(a, b) => T::XattrMatch(a.clone(), b.clone()),
        Tst::Size(c, n, u) => T::Size(cmp_to(*c, size_to(*n, *u))),
        Tst::Type(v) => T::Type(v.iter().map(|t| ft_to(*t)).collect()),
        Tst::Perm(k, m) => {
            let p = ast::Permission(Mode::from_bits_retain(*m));
            T::Perm(match k {
                PKind::Equal => ast::PermCheck::Equal(p),
                PKind::AtLeast => ast::PermCheck::AtLeast(p),
                PKind::Any => ast::PermCheck::Any(p),
            })
        }
        Tst::U(u) => match u {
            UTest::AccessNewer(s) => T::AccessNewer(s.clone()),
            UTest::ChangeNewer(s) => T::ChangeNewer(s.clone()),
            UTest::ModifyNewer(s) => T::ModifyNewer(s.clone()),
            UTest::FsType(s) => T::FsType(s.clone()),
            UTest::Group(s) => T::Group(s.clone()),
            UTest::User(s) => T::User(s.clone()),
            UTest::ILName(s) => T::InsensitiveLinkName(s.clone()),
            UTest::LName(s) => T::LinkName(s.clone()),
            UTest::IRegex(s) => T::InsensitiveRegex(s.clone()),
            UTest::Regex(s) => T::Regex(s.clone()),
            UTest::Samefile(s) => T::Samefile(s.clone()),
            UTest::NoGroup => T::NoGroup,
            UTest::NoUser => T::NoUser,
        },
    }
}

pub fn tst_from(t: &ast::Test) -> Tst {
    use ast::Test as T;
    let tm = |w: Which, c: &ast::Comparison<ast::TimeSpec>| {
        let (c, ts) = cmp_from(c);
        let (n, u) = time_from(&ts);
        Tst::Time(w, c, n, u)
    };
    match t {
        T::AccessTime(c) => tm(Which::A, c),
        T::ChangeTime(c) => tm(Which::C, c),
        T::ModifyTime(c) => tm(Which::M, c),
        T::Empty => Tst::Empty,
        T::Executable => Tst::Executable,
        T::Readable => Tst::Readable,
        T::Writable => Tst::Writable,
        T::True => Tst::True,
        T::False => Tst::False,
        T::GroupId(c) => {
            let (c, n) = cmp_from(c);
            Tst::Gid(c, n)
        }
        T::UserId(c) => {
            let (c, n) = cmp_from(c);
            Tst::Uid(c, n)
        }
        T::InodeNumber(c) => {
            let (c, n) = cmp_from(c);
            Tst::Inum(c, n)
        }
        T::MirrorCount(c) => {
            let (c, n) = cmp_from(c);
            Tst::MirrorCount(c, n)
        }
        T::StripeCount(c) => {
            let (c, n) = cmp_from(c);
            Tst::StripeCount(c, n)
        }
        T::Links(c) => {
            let (c, n) = cmp_from(c);
            Tst::Links(c, n)
        }
        T::Name(s) => Tst::Name(s.clone()),
        T::InsensitiveName(s) => Tst::IName(s.clone()),
        T::Path(s) => Tst::Path(s.clone()),
        T::InsensitivePath(s) => Tst::IPath(s.clone()),
        T::Pool(s) => Tst::Pool(s.clone()),
        T::Xattr(s) => Tst::Xattr(s.clone()),
        T::XattrMatch(a, b) => Tst::XattrMatch(a.clone(), b.clone()),
        T::Size(c) => {
            let (c, s) = cmp_from(c);
            let (n, u) = size_from(&s);
            Tst::Size(c, n, u)
        }
        T::Type(v) => Tst::Type(v.iter().map(ft_from).collect()),
        T::Perm(pc) => match pc {
            ast::PermCheck::Equal(p) => Tst::Perm(PKind::Equal, p.0.bits()),
            ast::PermCheck::AtLeast(p) => Tst::Perm(PKind::AtLeast, p.0.bits()),
            ast::PermCheck::Any(p) => Tst::Perm(PKind::Any, p.0.bits()),
        },
        T::AccessNewer(s) => Tst::U(UTest::AccessNewer(s.clone())),
        T::ChangeNewer(s) => Tst::U(UTest::ChangeNewer(s.clone())),
        T::ModifyNewer(s) => Tst::U(UTest::ModifyNewer(s.clone())),
        T::FsType(s) => Tst::U(UTest::FsType(s.clone())),
        T::Group(s) => Tst::U(UTest::Group(s.clone())),
        T::User(s) => Tst::U(UTest::User(s.clone())),
        T::InsensitiveLinkName(s) => Tst::U(UTest::ILName(s.clone())),
        T::LinkName(s) => Tst::U(UTest::LName(s.clone())),
        T::InsensitiveRegex(s) => Tst::U(UTest::IRegex(s.clone())),
        T::Regex(s) => Tst::U(UTest::Regex(s.clone())),
        T::Samefile(s) => Tst::U(UTest::Samefile(s.clone())),
        T::NoGroup => Tst::U(UTest::NoGroup),
        T::NoUser => Tst::U(UTest::NoUser),
    }
}

#[allow(deprecated)]
pub fn act_to(a: &Act) -> ast::Action {
    use ast::Action as A;
    match a {
        Act::Print => A::Print,
        Act::Print0 => A::PrintNull,
        Act::Printf(f) => A::PrintFormatted(fmt_to(f)),
        Act::FPrint(s) => A::FilePrint(s.clone()),
        Act::FPrint0(s) => A::FilePrintNull(s.clone()),
        Act::FPrintf(s, f) => A::FilePrintFormatted(s.clone(), fmt_to(f)),
        Act::PrintFid => A::PrintFid,
        Act::Quit => A::Quit,
        Act::Ls => A::List,
        Act::Fls(s) => A::FileList(s.clone()),
        Act::Prune => A::Prune,
        Act::DefaultPrint => A::DefaultPrint,
    }
}
#[allow(deprecated)]
pub fn act_from(a: &ast::Action) -> Act {
    use ast::Action as A;
    match a {
        A::Print => Act::Print,
        A::PrintNull => Act::Print0,
        A::PrintFormatted(f) => Act::Printf(fmt_from(f)),
        A::FilePrint(s) => Act::FPrint(s.clone()),
        A::FilePrintNull(s) => Act::FPrint0(s.clone()),
        A::FilePrintFormatted(s, f) => Act::FPrintf(s.clone(), fmt_from(f)),
        A::PrintFid => Act::PrintFid,
        A::Quit => Act::Quit,
        A::List => Act::Ls,
        A::FileList(s) => Act::Fls(s.clone()),
        A::Prune => Act::Prune,
        A::DefaultPrint => Act::DefaultPrint,
    }
}

pub fn glob_to(g: &Glob) -> ast::GlobalOption {
    match g {
        Glob::Depth => ast::GlobalOption::Depth,
        Glob::MaxDepth(n) => ast::GlobalOption::MaxDepth(*n),
        Glob::MinDepth(n) => ast::GlobalOption::MinDepth(*n),
        Glob::Threads(n) => ast::GlobalOption::Threads(*n),
    }
}
fn glob_from(g: &ast::GlobalOption) -> Glob {
    match g {
        ast::GlobalOption::Depth => Glob::Depth,
        ast::GlobalOption::MaxDepth(n) => Glob::MaxDepth(*n),
        ast::GlobalOption::MinDepth(n) => Glob::MinDepth(*n),
        ast::GlobalOption::Threads(n) => Glob::Threads(*n),
    }
}

/// Build the crate's tree. Iterative post-order so that deep trees do not
/// depend on the verifier's stack.
pub fn to_ast(e: &E) -> ast::Expression {
    use ast::Expression as X;
    use ast::Operator as O;
    enum Job<'a> {
        Visit(&'a E),
        Build(&'a E),
    }
    let mut jobs = vec![Job::Visit(e)];
    let mut out: Vec<X> = vec![];
    while let Some(j) = jobs.pop() {
        match j {
            Job::Visit(e) => match e {
                E::Not(a) | E::Prec(a) => {
                    jobs.push(Job::Build(e));
                    jobs.push(Job::Visit(a));
                }
                E::And(a, b) | E::Or(a, b) | E::List(a, b) => {
                    jobs.push(Job::Build(e));
                    jobs.push(Job::Visit(b));
                    jobs.push(Job::Visit(a));
                }
                E::T(t) => out.push(X::Test(tst_to(t))),
                E::A(a) => out.push(X::Action(act_to(a))),
                E::G(g) => out.push(X::Global(glob_to(g))),
                E::Pos => out.push(X::Positional(ast::PositionalOption::XDev)),
            },
            Job::Build(e) => match e {
                E::Not(_) => {
                    let a = out.pop().unwrap();
                    out.push(X::Operator(Rc::new(O::Not(a))));
                }
                E::Prec(_) => {
                    let a = out.pop().unwrap();
                    out.push(X::Operator(Rc::new(O::Precedence(a))));
                }
                E::And(..) => {
                    let b = out.pop().unwrap();
                    let a = out.pop().unwrap();
                    out.push(X::Operator(Rc::new(O::And(a, b))));
                }
                E::Or(..) => {
                    let b = out.pop().unwrap();
                    let a = out.pop().unwrap();
                    out.push(X::Operator(Rc::new(O::Or(a, b))));
                }
                E::List(..) => {
                    let b = out.pop().unwrap();
                    let a = out.pop().unwrap();
                    out.push(X::Operator(Rc::new(O::List(a, b))));
                }
                _ => unreachable!(),
            },
        }
    }
    out.pop().unwrap()
}

/// Like `to_ast`, but structurally equal operator subtrees are built once and the `Rc<Operator>`
/// is shared between all the places they occur in (a DAG, which the public types allow: it
/// compares equal to the tree built from separate copies and must behave like it).
pub fn to_ast_shared(e: &E) -> ast::Expression {
    use ast::Expression as X;
    use ast::Operator as O;
    fn go(e: &E, memo: &mut std::collections::HashMap<u64, ast::Expression>, depth: usize) -> ast::Expression {
        if depth > 400 {
            return to_ast(e);
        }
        match e {
            E::T(_) | E::A(_) | E::G(_) | E::Pos => to_ast(e),
            _ => {
                let k = crate::util::stable_hash(e);
                if let Some(x) = memo.get(&k) {
                    return x.clone();
                }
                let x = match e {
                    E::Not(a) => X::Operator(Rc::new(O::Not(go(a, memo, depth + 1)))),
                    E::Prec(a) => X::Operator(Rc::new(O::Precedence(go(a, memo, depth + 1)))),
                    E::And(a, b) => {
                        let (xa, xb) = (go(a, memo, depth + 1), go(b, memo, depth + 1));
                        X::Operator(Rc::new(O::And(xa, xb)))
                    }
                    E::Or(a, b) => {
                        let (xa, xb) = (go(a, memo, depth + 1), go(b, memo, depth + 1));
                        X::Operator(Rc::new(O::Or(xa, xb)))
                    }
                    E::List(a, b) => {
                        let (xa, xb) = (go(a, memo, depth + 1), go(b, memo, depth + 1));
                        X::Operator(Rc::new(O::List(xa, xb)))
                    }
                    _ => unreachable!(),
                };
                memo.insert(k, x.clone());
                x
            }
        }
    }
    go(e, &mut std::collections::HashMap::new(), 0)
}

/// operator subtrees that occur more than once (candidates for sharing)
pub fn has_repeated_subtree(e: &E) -> bool {
    fn go(e: &E, seen: &mut std::collections::HashSet<u64>, depth: usize) -> bool {
        if depth > 400 {
            return false;
        }
        match e {
            E::T(_) | E::A(_) | E::G(_) | E::Pos => false,
            E::Not(a) | E::Prec(a) => !seen.insert(crate::util::stable_hash(e)) || go(a, seen, depth + 1),
            E::And(a, b) | E::Or(a, b) | E::List(a, b) => !seen.insert(crate::util::stable_hash(e)) || go(a, seen, depth + 1) || go(b, seen, depth + 1),
        }
    }
    go(e, &mut std::collections::HashSet::new(), 0)
}

/// Total conversion from the crate's tree.
pub fn from_ast(x: &ast::Expression) -> E {
    use ast::Expression as X;
    use ast::Operator as O;
    match x {
        X::Test(t) => E::T(tst_from(t)),
        X::Action(a) => E::A(act_from(a)),
        X::Global(g) => E::G(glob_from(g)),
        X::Positional(_) => E::Pos,
        X::Operator(o) => match o.as_ref() {
            O::Not(a) => E::not(from_ast(a)),
            O::Precedence(a) => E::prec(from_ast(a)),
            O::And(a, b) => E::and(from_ast(a), from_ast(b)),
            O::Or(a, b) => E::or(from_ast(a), from_ast(b)),
            O::List(a, b) => E::list(from_ast(a), from_ast(b)),
        },
    }
}
