//! Shared machinery: context, verdicts, statistics, proptest driver, sharding,
//! evidence and replay files, known findings.

use proptest::strategy::{Strategy, ValueTree};
use proptest::test_runner::{Config, RngAlgorithm, TestCaseError, TestError, TestRng, TestRunner};
use serde_json::{json, Value};
use std::collections::{BTreeMap, HashMap, HashSet};
use std::hash::{Hash, Hasher};
use std::sync::Mutex;

/// root of the verification tree: $FFV_VERIF_DIR (set by ./check to its own directory) or /verif
pub fn verif_dir() -> String {
    std::env::var("FFV_VERIF_DIR").unwrap_or_else(|_| "/verif".to_string())
}

#[derive(Debug, Clone, Copy, PartialEq, Eq)]
pub enum Tier {
    Quick,
    Thorough,
}
impl Tier {
    pub fn name(self) -> &'static str {
        match self {
            Tier::Quick => "quick",
            Tier::Thorough => "thorough",
        }
    }
    /// pick by tier
    pub fn pick<T>(self, q: T, t: T) -> T {
        match self {
            Tier::Quick => q,
            Tier::Thorough => t,
        }
    }
}

pub fn profile() -> &'static str {
    if cfg!(debug_assertions) {
        "dev"
    } else {
        "release"
    }
}

#[derive(Debug, Clone)]
pub struct Ctx {
    pub id: String,
    pub tier: Tier,
    pub seed: u64,
    /// set when running as the second-profile child of a two-profile check
    pub part: Option<String>,
}

/// Outcome of judging one case.
#[derive(Debug, Clone)]
pub enum Verdict {
    /// property held; `nt` = non-trivial by the check's stated rule; `class` = generator/outcome class
    Pass { nt: bool, class: &'static str },
    /// failure matched by the signature of a recorded finding (id, what)
    Known(&'static str, String),
    /// property violated
    Fail(String),
    /// case outside the property's domain (counted, not judged)
    Skip(&'static str),
    /// oracle self-check failed (infrastructure error, exit 2)
    OracleBug(String),
}

pub fn stable_hash<T: Hash + ?Sized>(t: &T) -> u64 {
    #[allow(deprecated)]
    let mut h = std::hash::SipHasher::new_with_keys(0x5eed, 0xf1dd);
    t.hash(&mut h);
    h.finish()
}

#[derive(Debug, Clone)]
pub struct Failure {
    pub case: Value,
    pub msg: String,
}

#[derive(Debug, Default)]
pub struct Stats {
    pub evaluations: u64,
    /// hashes of distinct non-trivial cases (random generation)
    pub nt_set: HashSet<u64>,
    /// non-trivial cases counted during exhaustive enumeration (distinct by construction)
    pub nt_enum: u64,
    pub classes: BTreeMap<String, u64>,
    pub skipped: BTreeMap<String, u64>,
    pub known: BTreeMap<String, (u64, String)>,
    pub samples: Vec<Value>,
    pub failures: Vec<Failure>,
    pub oracle_bugs: Vec<String>,
    pub notes: Vec<String>,
    pub exhaustive_parts: Vec<String>,
    pub extra: BTreeMap<String, Value>,
}

pub const MAX_SAMPLES: usize = 12;
pub const MAX_FAILURES: usize = 5;

impl Stats {
    pub fn new() -> Self {
        Stats::default()
    }
    pub fn bump(&mut self, class: &str) {
        *self.classes.entry(class.to_string()).or_insert(0) += 1;
    }
    pub fn bump_by(&mut self, class: &str, n: u64) {
        *self.classes.entry(class.to_string()).or_insert(0) += n;
    }
    /// Record the verdict for a case. `key` is a canonical hash of the case
    /// (used for distinctness); `sample` renders it for the evidence file.
    /// Returns true if the verdict is a (non-known) failure.
    pub fn record(&mut self, v: &Verdict, key: u64, enumerated: bool, sample: impl FnOnce() -> Value) -> bool {
        self.evaluations += 1;
        match v {
            Verdict::Pass { nt, class } => {
                self.bump(class);
                if *nt {
                    if enumerated {
                        self.nt_enum += 1;
                    } else {
                        self.nt_set.insert(key);
                    }
                    // keep a deterministic spread of samples: low hashes win
                    if self.samples.len() < MAX_SAMPLES && key % 97 == 0 {
                        self.samples.push(sample());
                    }
                }
                false
            }
            Verdict::Known(id, what) => {
                let e = self.known.entry(id.to_string()).or_insert((0, what.clone()));
                e.0 += 1;
                false
            }
            Verdict::Skip(why) => {
                *self.skipped.entry(why.to_string()).or_insert(0) += 1;
                false
            }
            Verdict::Fail(msg) => {
                if self.failures.len() < MAX_FAILURES {
                    self.failures.push(Failure { case: sample(), msg: msg.clone() });
                }
                true
            }
            Verdict::OracleBug(msg) => {
                if self.oracle_bugs.len() < 5 {
                    self.oracle_bugs.push(msg.clone());
                }
                false
            }
        }
    }
    pub fn force_sample(&mut self, v: Value) {
        if self.samples.len() < MAX_SAMPLES + 4 {
            self.samples.push(v);
        }
    }
    pub fn merge(&mut self, o: Stats) {
        self.evaluations += o.evaluations;
        self.nt_set.extend(o.nt_set);
        self.nt_enum += o.nt_enum;
        for (k, v) in o.classes {
            *self.classes.entry(k).or_insert(0) += v;
        }
        for (k, v) in o.skipped {
            *self.skipped.entry(k).or_insert(0) += v;
        }
        for (k, v) in o.known {
            let e = self.known.entry(k).or_insert((0, v.1.clone()));
            e.0 += v.0;
        }
        for s in o.samples {
            if self.samples.len() < MAX_SAMPLES {
                self.samples.push(s);
            }
        }
        self.failures.extend(o.failures);
        // keep the smallest failing cases (enumerations do not shrink)
        self.failures.sort_by_key(|f| serde_json::to_string(&f.case).map(|s| (s.len(), s)).unwrap_or((0, String::new())));
        self.failures.dedup_by_key(|f| serde_json::to_string(&f.case).unwrap_or_default());
        self.failures.truncate(MAX_FAILURES);
        self.oracle_bugs.extend(o.oracle_bugs);
        self.notes.extend(o.notes);
        for p in o.exhaustive_parts {
            if !self.exhaustive_parts.contains(&p) {
                self.exhaustive_parts.push(p);
            }
        }
        for (k, v) in o.extra {
            self.extra.entry(k).or_insert(v);
        }
    }
    pub fn distinct_nontrivial(&self) -> u64 {
        self.nt_set.len() as u64 + self.nt_enum
    }
}

/// Run `n_shards` independent pieces of work on a pool of 16 threads and merge
/// their statistics in shard order (so the result does not depend on timing).
pub fn run_shards<F>(n_shards: usize, f: F) -> Stats
where
    F: Fn(usize) -> Stats + Sync,
{
    let next = std::sync::atomic::AtomicUsize::new(0);
    let results: Mutex<Vec<Option<Stats>>> = Mutex::new((0..n_shards).map(|_| None).collect());
    let workers = std::env::var("FFV_THREADS").ok().and_then(|s| s.parse().ok()).unwrap_or(16usize).min(n_shards.max(1));
    std::thread::scope(|sc| {
        for _ in 0..workers {
            std::thread::Builder::new()
                .stack_size(256 << 20)
                .spawn_scoped(sc, || loop {
                    let i = next.fetch_add(1, std::sync::atomic::Ordering::SeqCst);
                    if i >= n_shards {
                        break;
                    }
                    let st = f(i);
                    results.lock().unwrap()[i] = Some(st);
                })
                .unwrap();
        }
    });
    let mut total = Stats::new();
    for r in results.into_inner().unwrap() {
        total.merge(r.expect("shard did not finish"));
    }
    total
}

pub fn seed_bytes(seed: u64, id: &str, shard: u64) -> [u8; 32] {
    let mut out = [0u8; 32];
    let a = stable_hash(&(seed, id, shard, 1u8));
    let b = stable_hash(&(seed, id, shard, 2u8));
    let c = stable_hash(&(seed, id, shard, 3u8));
    let d = stable_hash(&(seed, id, shard, 4u8));
    out[0..8].copy_from_slice(&a.to_le_bytes());
    out[8..16].copy_from_slice(&b.to_le_bytes());
    out[16..24].copy_from_slice(&c.to_le_bytes());
    out[24..32].copy_from_slice(&d.to_le_bytes());
    out
}

pub fn mk_runner(seed: u64, id: &str, shard: u64, cases: u32) -> TestRunner {
    let cfg = Config {
        cases,
        failure_persistence: None,
        max_shrink_iters: 20000,
        max_global_rejects: 1 << 20,
        ..Config::default()
    };
    TestRunner::new_with_rng(cfg, TestRng::from_seed(RngAlgorithm::ChaCha, &seed_bytes(seed, id, shard)))
}

/// Drive a proptest strategy from the binary. Statistics are collected until
/// the first failure; the shrunk failing value is stored as the failure.
pub fn run_prop<S, J, K>(stats: &mut Stats, seed: u64, id: &str, shard: u64, cases: u32, strat: &S, judge: J, to_json: K)
where
    S: Strategy,
    S::Value: Hash + Clone,
    J: Fn(&S::Value) -> Verdict,
    K: Fn(&S::Value) -> Value,
{
    let cases = scaled(cases);
    let mut runner = mk_runner(seed, id, shard, cases);
    let failed = std::cell::Cell::new(false);
    let stats_cell = std::cell::RefCell::new(std::mem::take(stats));
    let res = runner.run(strat, |v| {
        let verdict = judge(&v);
        if failed.get() {
            // shrinking phase: only the verdict matters
            return match verdict {
                Verdict::Fail(m) => Err(TestCaseError::fail(m)),
                _ => Ok(()),
            };
        }
        match verdict {
            Verdict::Fail(m) => {
                failed.set(true);
                stats_cell.borrow_mut().evaluations += 1;
                Err(TestCaseError::fail(m))
            }
            other => {
                let key = stable_hash(&v);
                stats_cell.borrow_mut().record(&other, key, false, || to_json(&v));
                Ok(())
            }
        }
    });
    *stats = stats_cell.into_inner();
    match res {
        Ok(()) => {}
        Err(TestError::Fail(reason, value)) => {
            // re-judge the minimal value to get its message
            let msg = match judge(&value) {
                Verdict::Fail(m) => m,
                other => format!("{reason} (on re-run: {other:?})"),
            };
            if stats.failures.len() < MAX_FAILURES {
                stats.failures.push(Failure { case: to_json(&value), msg });
            }
        }
        Err(TestError::Abort(reason)) => {
            stats.oracle_bugs.push(format!("proptest aborted: {reason}"));
        }
    }
}

/// Generate one value from a strategy (no shrinking): used by dump/corpus builders.
pub fn sample_values<S: Strategy>(seed: u64, id: &str, shard: u64, n: usize, strat: &S) -> Vec<S::Value> {
    let mut runner = mk_runner(seed, id, shard, n as u32);
    (0..n).map(|_| strat.new_tree(&mut runner).expect("generation failed").current()).collect()
}

// ---------------------------------------------------------------------------
// known findings

#[derive(Debug, Clone, Default)]
pub struct Findings {
    /// (property, finding id, rest of line)
    pub active: Vec<(String, String, String)>,
    pub fixed: Vec<String>,
}

impl Findings {
    pub fn load() -> Findings {
        let path = format!("{}/KNOWN_FINDINGS.txt", verif_dir());
        let mut f = Findings::default();
        let Ok(text) = std::fs::read_to_string(&path) else { return f };
        for line in text.lines() {
            let line = line.trim();
            if let Some(rest) = line.strip_prefix("finding:") {
                let mut prop = String::new();
                let mut id = String::new();
                for w in rest.split_whitespace() {
                    if let Some(p) = w.strip_prefix("property=") {
                        prop = p.to_string();
                    }
                    if let Some(p) = w.strip_prefix("id=") {
                        id = p.to_string();
                    }
                }
                f.active.push((prop, id, rest.trim().to_string()));
            } else if line.starts_with("fixed:") {
                f.fixed.push(line.to_string());
            }
        }
        f
    }
    pub fn load_cached() -> &'static Findings {
        static CELL: std::sync::OnceLock<Findings> = std::sync::OnceLock::new();
        CELL.get_or_init(Findings::load)
    }
    pub fn is_active(&self, prop: &str, id: &str) -> bool {
        self.active.iter().any(|(p, i, _)| p == prop && i == id)
    }
}

// ---------------------------------------------------------------------------
// panic containment helpers

pub fn install_quiet_panic_hook() {
    std::panic::set_hook(Box::new(|_| {}));
    // let every log statement of the crate under test evaluate its arguments (no logger is
    // installed, so nothing is formatted or printed): behaviour must not depend on logging
    log::set_max_level(log::LevelFilter::Trace);
}

/// Inputs that are rejected at different stages (lexer, argument parsers, grammar, inside open
/// parentheses) and accepted inputs with misplaced options: parsed before batches of cases so that
/// state leaking out of earlier calls on the same thread becomes visible.
pub const POISON_INPUTS: [&str; 18] = [
        "( -true", "( ( -true -o )", "( )", "( -name a ( -uid 1", "-true -name b -bogu", "-uid 5x", "-size 10k%", "-type f5", "-perm u+x,", "-printf 'a'b",
        "-name core -threads 4", "-true -depth", "-name éééééé )", "( -name 日本語", "-true -o", "-fprint", "-name x -o ( -bogus", "-threads 4x",
];

/// Sources of the crate under test (dictionary, snapshots). `/repo/src` unless a development
/// run points the harness at another checkout.
pub fn repo_src() -> String {
    std::env::var("FFV_REPO_SRC").unwrap_or_else(|_| "/repo/src".to_string())
}

pub fn poison_parses(rounds: usize) {
    for _ in 0..rounds {
        for i in POISON_INPUTS {
            let _ = catch(|| lipe_find_parser::parse(i).map(|_| ()).map_err(|e| e.to_string()));
        }
    }
}

/// Run `f`, converting a panic into `Err(message)`.
pub fn catch<T>(f: impl FnOnce() -> T) -> Result<T, String> {
    match std::panic::catch_unwind(std::panic::AssertUnwindSafe(f)) {
        Ok(v) => Ok(v),
        Err(p) => {
            let msg = if let Some(s) = p.downcast_ref::<&str>() {
                s.to_string()
            } else if let Some(s) = p.downcast_ref::<String>() {
                s.clone()
            } else {
                "<non-string panic payload>".to_string()
            };
            Err(msg)
        }
    }
}

// ---------------------------------------------------------------------------
// report / evidence

pub struct Report {
    pub stats: Stats,
    pub rule: String,
    pub assumptions: Vec<String>,
    pub exhaustive: bool,
}

/// CPU time (user + system, all threads) this process has used so far, in seconds
/// (/proc/self/stat, fields 14 and 15, in clock ticks of 1/100 s)
pub fn process_cpu_secs() -> Option<f64> {
    let t = std::fs::read_to_string("/proc/self/stat").ok()?;
    let rest = &t[t.rfind(')')? + 1..];
    let f: Vec<&str> = rest.split_whitespace().collect();
    let utime: f64 = f.get(11)?.parse().ok()?;
    let stime: f64 = f.get(12)?.parse().ok()?;
    Some((utime + stime) / 100.0)
}

pub fn now_secs() -> u64 {
    std::time::SystemTime::now().duration_since(std::time::UNIX_EPOCH).unwrap().as_secs()
}

pub fn write_replay(id: &str, f: &Failure) -> String {
    let dir = format!("{}/replays", verif_dir());
    let _ = std::fs::create_dir_all(&dir);
    let mut body = json!({"property": id, "case": f.case, "message": f.msg, "profile": profile()});
    if let Some(e) = current_environment() {
        body["environment"] = e;
        body["failed_at_second"] = json!(now_secs());
    }
    let text = serde_json::to_string_pretty(&body).unwrap();
    let path = format!("{dir}/{id}-{:016x}.json", stable_hash(&serde_json::to_string(&f.case).unwrap()));
    let _ = std::fs::write(&path, text);
    path
}

/// Serialise the statistics of one run (one profile) to JSON, for merging by the parent.
pub fn stats_to_json(st: &Stats) -> Value {
    json!({
        "evaluations": st.evaluations,
        "distinct_nontrivial": st.distinct_nontrivial(),
        "classes": st.classes,
        "skipped": st.skipped,
        "known": st.known.iter().map(|(k,(n,w))| (k.clone(), json!({"excluded": n, "what": w}))).collect::<BTreeMap<_,_>>(),
        "samples": st.samples,
        "failures": st.failures.iter().map(|f| json!({"case": f.case, "msg": f.msg})).collect::<Vec<_>>(),
        "oracle_bugs": st.oracle_bugs,
        "notes": st.notes,
        "exhaustive_parts": st.exhaustive_parts,
        "extra": st.extra,
    })
}

/// Finish a check: print findings / violations, write evidence, return exit code.
pub fn finish(ctx: &Ctx, rep: Report, wall_s: f64, other: Option<(i32, Option<Value>)>, envs: Vec<(String, i32, Option<Value>)>) -> i32 {
    let st = &rep.stats;
    let findings = Findings::load();
    let mut exit = 0;

    for b in &st.oracle_bugs {
        println!("ORACLE-ERROR property={} {}", ctx.id, b);
        exit = 2;
    }
    let mut known_lines = vec![];
    for (fid, (n, what)) in &st.known {
        // A `Known` verdict is only ever produced when the finding is active, but re-check.
        if findings.is_active(&ctx.id, fid) {
            known_lines.push(format!("KNOWN-FINDING: property={} id={} {} (excluded {} matching cases)", ctx.id, fid, what, n));
        } else {
            println!("VIOLATION property={} replay=- (finding {} matched but is not listed)", ctx.id, fid);
            exit = 1;
        }
    }
    for l in &known_lines {
        println!("{l}");
    }
    let mut replay_paths = vec![];
    for f in &st.failures {
        let path = write_replay(&ctx.id, f);
        println!("VIOLATION property={} replay={}", ctx.id, path);
        println!("  message: {}", f.msg.lines().next().unwrap_or(""));
        println!("  case: {}", truncate(&serde_json::to_string(&f.case).unwrap(), 600));
        replay_paths.push(path);
        if exit == 0 {
            exit = 1;
        }
    }

    let mut coverage = serde_json::Map::new();
    coverage.insert("evaluations".into(), json!(st.evaluations));
    coverage.insert("distinct_nontrivial".into(), json!(st.distinct_nontrivial()));
    coverage.insert("rule".into(), json!(rep.rule));
    coverage.insert("samples".into(), json!(st.samples));
    coverage.insert("exhaustive".into(), json!(rep.exhaustive));
    coverage.insert("exhaustive_parts".into(), json!(st.exhaustive_parts));
    coverage.insert("classes".into(), json!(st.classes));
    coverage.insert("skipped_outside_domain".into(), json!(st.skipped));
    coverage.insert(
        "known_findings_excluded".into(),
        json!(st.known.iter().map(|(k, (n, w))| (k.clone(), json!({"excluded": n, "what": w}))).collect::<BTreeMap<_, _>>()),
    );
    coverage.insert("notes".into(), json!(st.notes));
    coverage.insert("profile".into(), json!(profile()));
    coverage.insert("replays".into(), json!(replay_paths));
    for (k, v) in &st.extra {
        coverage.insert(k.clone(), v.clone());
    }
    let mut evaluations_total = st.evaluations;
    let mut violations_total = st.failures.len() as u64;
    if let Some((code, part)) = &other {
        // second build profile of the same check (run as a child process)
        match part {
            Some(p) => {
                evaluations_total += p["coverage"]["evaluations"].as_u64().unwrap_or(0);
                violations_total += p["violations"].as_u64().unwrap_or(0);
                coverage.insert("other_profile".into(), json!({
                    "profile": p["coverage"]["profile"], "exit": code,
                    "evaluations": p["coverage"]["evaluations"], "distinct_nontrivial": p["coverage"]["distinct_nontrivial"],
                    "classes": p["coverage"]["classes"], "known_findings_excluded": p["coverage"]["known_findings_excluded"],
                    "violations": p["violations"], "wall_s": p["wall_s"],
                }));
            }
            None => {
                coverage.insert("other_profile".into(), json!({"exit": code, "error": "no result file"}));
            }
        }
        match *code {
            0 => {}
            1 => {
                if exit == 0 {
                    exit = 1
                }
            }
            _ => {
                println!("INFRA property={} the other-profile run exited with status {}", ctx.id, code);
                if exit == 0 {
                    exit = 2
                }
            }
        }
        coverage.insert("evaluations".into(), json!(evaluations_total));
        coverage.insert("evaluations_this_profile".into(), json!(st.evaluations));
    }
    if !envs.is_empty() {
        // the same check in perturbed environments (child processes)
        let mut list = vec![];
        for (name, code, part) in &envs {
            match part {
                Some(p) => {
                    evaluations_total += p["coverage"]["evaluations"].as_u64().unwrap_or(0);
                    violations_total += p["violations"].as_u64().unwrap_or(0);
                    list.push(json!({"environment": name, "exit": code, "seed": p["seed"], "evaluations": p["coverage"]["evaluations"], "distinct_nontrivial": p["coverage"]["distinct_nontrivial"],
                        "violations": p["violations"], "known_findings_excluded": p["coverage"]["known_findings_excluded"], "wall_s": p["wall_s"]}));
                }
                None => list.push(json!({"environment": name, "exit": code, "result": "no result file"})),
            }
            match *code {
                0 => {}
                1 => {
                    if exit == 0 {
                        exit = 1
                    }
                }
                _ => {
                    println!("INFRA property={} the environment run [{}] exited with status {}", ctx.id, name, code);
                    if exit == 0 {
                        exit = 2
                    }
                }
            }
        }
        coverage.insert("environment_runs".into(), json!(list));
        coverage.insert("evaluations".into(), json!(evaluations_total));
        coverage.insert("evaluations_normal_environment".into(), json!(st.evaluations));
    }
    let ev = json!({
        "property_id": ctx.id,
        "tier": ctx.tier.name(),
        "seed": ctx.seed,
        "level": "exploration",
        "coverage": Value::Object(coverage),
        "assumptions": rep.assumptions,
        "wall_s": wall_s,
        "violations": violations_total,
    });
    if ctx.part.is_none() {
        let dir = format!("{}/evidence", verif_dir());
        let _ = std::fs::create_dir_all(&dir);
        let path = format!("{dir}/{}.json", ctx.id);
        if let Err(e) = std::fs::write(&path, serde_json::to_string_pretty(&ev).unwrap()) {
            println!("ERROR cannot write evidence {path}: {e}");
            exit = 2;
        }
    } else if let Some(p) = &ctx.part {
        let _ = std::fs::write(p, serde_json::to_string(&ev).unwrap());
    }
    println!(
        "property={} tier={} seed={} profile={} evaluations={} distinct_nontrivial={} violations={} known={} wall_s={:.1}",
        ctx.id,
        ctx.tier.name(),
        ctx.seed,
        profile(),
        st.evaluations,
        st.distinct_nontrivial(),
        st.failures.len(),
        st.known.len(),
        wall_s
    );
    exit
}

pub fn truncate(s: &str, n: usize) -> String {
    if s.chars().count() <= n {
        s.to_string()
    } else {
        let t: String = s.chars().take(n).collect();
        format!("{t}…")
    }
}

/// Non-ASCII characters whose code point has the same low byte as the ASCII character `c`
/// (code that truncates a char to a byte would take them for `c`).
pub fn lookalikes(c: char) -> Vec<char> {
    let b = c as u32;
    if b >= 0x80 {
        return vec![];
    }
    [0x0100u32, 0x0400, 0x2200, 0x3000, 0x5c00, 0x1f600].iter().filter_map(|base| char::from_u32(base + b)).filter(|x| !x.is_whitespace() && !x.is_control()).collect()
}

/// `s` with every character replaced by one of its look-alikes (variant `k`)
pub fn lookalike_string(s: &str, k: usize) -> String {
    s.chars().map(|c| lookalikes(c).get(k).copied().unwrap_or(c)).collect()
}

/// Different strings of equal length that a *truncated fingerprint* cannot tell apart: pairs whose
/// std `DefaultHasher` (fixed keys) values agree in the low 32 bits, for each usual way of feeding
/// a string (and a flag) to a hasher, found by a birthday search over `stem` + 7 digits + `tail`;
/// plus pairs that weak hand-made fingerprints confuse (same length and byte sum / xor, same ends).
/// A memo or registry keyed on such a fingerprint instead of on the string itself confuses them.
pub fn fingerprint_twins(stem: &str, tail: &str) -> Vec<(String, String)> {
    let mut out: Vec<(String, String)> = vec![];
    let n = 700_000u32;
    for conv in 0..6u8 {
        let mut seen: HashMap<u32, u32> = HashMap::with_capacity(n as usize);
        let mut found = 0;
        for i in 0..n {
            let s = format!("{stem}{i:07}{tail}");
            #[allow(deprecated)]
            let mut h = std::collections::hash_map::DefaultHasher::new();
            match conv {
                0 => h.write(s.as_bytes()),
                1 => s.hash(&mut h),
                2 => (s.as_str(), false).hash(&mut h),
                3 => (s.as_str(), true).hash(&mut h),
                4 => (false, s.as_str()).hash(&mut h),
                _ => (true, s.as_str()).hash(&mut h),
            }
            let k = h.finish() as u32;
            if let Some(j) = seen.insert(k, i) {
                out.push((format!("{stem}{j:07}{tail}"), s));
                found += 1;
                if found >= 6 {
                    break;
                }
            }
        }
    }
    // weak fingerprints: permutations (same length, sum, xor, multiset), same first and last characters
    out.push((format!("{stem}0000012{tail}"), format!("{stem}0000021{tail}")));
    out.push((format!("{stem}0001000{tail}"), format!("{stem}0000100{tail}")));
    out.push((format!("{stem}ab{tail}"), format!("{stem}ba{tail}")));
    out.push((format!("{stem}0000013{tail}"), format!("{stem}0000022{tail}")));
    out
}

/// Monotone index mapping for shrinking-friendly choices.
pub fn pick(i: u16, len: usize) -> usize {
    if len == 0 {
        return 0;
    }
    ((i as usize) * len) >> 16
}

// ---------------------------------------------------------------------------
// environment runs: the same check again, in a child process whose environment is perturbed
// (moved and fast-running wall clock, time zone, locale, every variable the sources name)

/// Case counts of generated parts are multiplied by FFV_SCALE in environment runs.
pub fn scale_factor() -> f64 {
    std::env::var("FFV_SCALE").ok().and_then(|v| v.parse::<f64>().ok()).filter(|f| *f > 0.0 && *f <= 1.0).unwrap_or(1.0)
}
pub fn scaled(n: u32) -> u32 {
    ((n as f64 * scale_factor()) as u32).max(1)
}
pub fn scaled_usize(n: usize) -> usize {
    ((n as f64 * scale_factor()) as usize).max(1)
}

#[derive(Debug, Clone)]
pub struct EnvSpec {
    pub name: String,
    pub vars: Vec<(String, String)>,
    /// wall clock: (start second, nanoseconds added per reading); needs the preload shim
    pub clock: Option<(u64, u64)>,
    pub scale: f64,
}

/// Names in the sources under test that look like environment variables.
pub fn env_like_names() -> Vec<String> {
    let mut v: Vec<String> = crate::dict::tokens()
        .into_iter()
        .filter(|t| t.len() >= 3 && t.len() <= 40 && t.chars().next().map(|c| c.is_ascii_uppercase()).unwrap_or(false) && t.chars().all(|c| c.is_ascii_uppercase() || c.is_ascii_digit() || c == '_'))
        .filter(|t| !t.starts_with("FFV_") && !t.starts_with("CARGO") && t != "PATH" && t != "LD_PRELOAD" && t != "LD_LIBRARY_PATH")
        .collect();
    v.sort();
    v.dedup();
    v
}

pub fn environments(tier: Tier) -> Vec<EnvSpec> {
    let named = |val: &str| -> Vec<(String, String)> { env_like_names().into_iter().map(|n| (n, val.to_string())).collect() };
    let common = |tz: &str, loc: &str| -> Vec<(String, String)> {
        vec![
            ("TZ".into(), tz.into()),
            ("LANG".into(), loc.into()),
            ("LC_ALL".into(), loc.into()),
            ("LANGUAGE".into(), loc.into()),
            ("RUST_LOG".into(), "trace".into()),
            ("COLUMNS".into(), "1".into()),
            ("NO_COLOR".into(), "1".into()),
            // the session: another home, user, terminal, temporary directory (none of them exists)
            ("HOME".into(), "/nonexistent/home".into()),
            ("PWD".into(), "/nonexistent/cwd".into()),
            ("USER".into(), "nobody".into()),
            ("LOGNAME".into(), "nobody".into()),
            ("TERM".into(), "dumb".into()),
            ("TMPDIR".into(), "/nonexistent/tmp".into()),
            ("SHELL".into(), "/bin/false".into()),
            ("HOSTNAME".into(), "elsewhere".into()),
        ]
    };
    let mut e1 = common("Pacific/Kiritimati", "tr_TR.UTF-8");
    e1.extend(named("1"));
    // 90 s before 2100-01-01T00:00:00Z: the run crosses minute, hour, day, month and year ends, beyond 2^31 s
    let mut all = vec![EnvSpec { name: "year-end-2099 clock (2 ms per reading), UTC+14, tr_TR, named variables = 1".into(), vars: e1, clock: Some((4_102_444_800 - 90, 2_000_000)), scale: 0.25 }];
    if tier == Tier::Thorough {
        let mut e2 = common("America/St_Johns", "C");
        e2.extend(named(""));
        // 60 s before 2^32 s (year 2106)
        all.push(EnvSpec { name: "clock crossing 2^32 s (5 ms per reading), UTC-3:30, C locale, named variables empty".into(), vars: e2, clock: Some(((1u64 << 32) - 60, 5_000_000)), scale: 0.25 });
        let mut e3 = common("UTC", "ja_JP.UTF-8");
        e3.extend(named("0"));
        // a Sunday midnight UTC that is also a multiple of 86400*7: 1970-01-04 was a Sunday -> 3 days + k weeks
        let week = 7 * 86_400u64;
        let start = 3 * 86_400 + 2_900 * week; // some Sunday in 2025
        e3.push(("HOME".into(), String::new()));
        all.push(EnvSpec { name: "clock 30 s before a week boundary (50 ms per reading), UTC, ja_JP, named variables = 0, no home".into(), vars: e3, clock: Some((start - 30, 50_000_000)), scale: 0.25 });
        let mut e4 = common("Asia/Kathmandu", "en_US.UTF-8");
        e4.extend(named("yes"));
        all.push(EnvSpec { name: "real clock, UTC+5:45, named variables = yes".into(), vars: e4, clock: None, scale: 0.25 });
    }
    all
}

/// The environment this process was started in by `run_environments` (None for a normal run).
pub fn current_environment() -> Option<Value> {
    std::env::var("FFV_ENV_JSON").ok().and_then(|t| serde_json::from_str(&t).ok())
}

fn apply_env(cmd: &mut std::process::Command, name: &str, vars: &[(String, String)], clock: Option<(u64, u64)>, scale: f64) -> Result<(), String> {
    for (k, v) in vars {
        cmd.env(k, v);
    }
    if let Some((base, step)) = clock {
        let shim = std::env::var("FFV_FAKECLOCK").map_err(|_| "no clock shim (FFV_FAKECLOCK unset)".to_string())?;
        if !std::path::Path::new(&shim).exists() {
            return Err(format!("clock shim {shim} missing"));
        }
        cmd.env("LD_PRELOAD", shim).env("FFV_CLOCK_BASE", base.to_string()).env("FFV_CLOCK_STEP_NS", step.to_string());
    }
    // another working directory and a restrictive file-creation mask
    cmd.current_dir("/");
    {
        use std::os::unix::process::CommandExt;
        unsafe {
            cmd.pre_exec(|| {
                extern "C" {
                    fn umask(mask: u32) -> u32;
                }
                umask(0o077);
                Ok(())
            });
        }
    }
    cmd.env("FFV_SCALE", scale.to_string());
    cmd.env("FFV_ENV_JSON", json!({"name": name, "vars": vars, "clock": clock.map(|(b, s)| json!({"base": b, "step_ns": s})), "scale": scale}).to_string());
    Ok(())
}

/// Run this very check again under each perturbed environment (children write a part file and
/// print their own VIOLATION lines). Returns (environment name, exit code, part).
pub fn run_environments(ctx: &Ctx) -> Vec<(String, i32, Option<Value>)> {
    if ctx.part.is_some() || current_environment().is_some() || std::env::var("FFV_NO_ENV_RUNS").is_ok() {
        return vec![];
    }
    let exe = match std::env::current_exe() {
        Ok(e) => e,
        Err(_) => return vec![],
    };
    let scratch = std::env::var("FFV_SCRATCH").unwrap_or_else(|_| format!("{}/harness/target/scratch", verif_dir()));
    let _ = std::fs::create_dir_all(&scratch);
    let mut out = vec![];
    for (k, e) in environments(ctx.tier).into_iter().enumerate() {
        let part = format!("{scratch}/env-{}-{}-{k}.json", ctx.id, std::process::id());
        let _ = std::fs::remove_file(&part);
        let seed = ctx.seed ^ stable_hash(&(e.name.as_str(), 0xE17u64));
        let mut cmd = std::process::Command::new(&exe);
        cmd.args(["check", &ctx.id, "--tier", ctx.tier.name(), "--seed", &seed.to_string(), "--part", &part]);
        if let Err(why) = apply_env(&mut cmd, &e.name, &e.vars, e.clock, e.scale) {
            out.push((format!("{} (not run: {why})", e.name), 0, None));
            continue;
        }
        let code = match cmd.status() {
            Ok(s) => s.code().unwrap_or(2),
            Err(err) => {
                println!("INFRA cannot start the environment run: {err}");
                2
            }
        };
        let v = std::fs::read_to_string(&part).ok().and_then(|t| serde_json::from_str(&t).ok());
        let _ = std::fs::remove_file(&part);
        out.push((e.name, code, v));
    }
    out
}

/// A replay file written by an environment run is replayed in that environment: re-executes
/// this process with it unless already there. Returns the child's exit code when it did.
pub fn replay_in_recorded_environment(file: &str) -> Option<i32> {
    if current_environment().is_some() {
        return None;
    }
    let v: Value = serde_json::from_str(&std::fs::read_to_string(file).ok()?).ok()?;
    let env = v.get("environment")?;
    if env.is_null() {
        return None;
    }
    let vars: Vec<(String, String)> = env["vars"].as_array().map(|a| a.iter().filter_map(|p| Some((p[0].as_str()?.to_string(), p[1].as_str()?.to_string()))).collect()).unwrap_or_default();
    // the clock restarts at the second the failure was seen in
    let clock = match (v["failed_at_second"].as_u64(), env["clock"]["step_ns"].as_u64(), env["clock"]["base"].as_u64()) {
        (Some(t), Some(s), _) => Some((t.saturating_sub(1), s)),
        (None, Some(s), Some(b)) => Some((b, s)),
        _ => None,
    };
    let mut cmd = std::process::Command::new(std::env::current_exe().ok()?);
    cmd.args(std::env::args().skip(1));
    if let Err(why) = apply_env(&mut cmd, env["name"].as_str().unwrap_or("recorded"), &vars, clock, 1.0) {
        println!("INFRA cannot re-create the recorded environment: {why}");
        return Some(2);
    }
    Some(cmd.status().ok().and_then(|s| s.code()).unwrap_or(2))
}

/// Checks that quantify over build configurations run in both profiles: the
/// release binary runs its own part and then the dev binary as a child.
pub fn run_other_profile(ctx: &Ctx) -> Option<(i32, Option<Value>)> {
    if ctx.part.is_some() {
        return None;
    }
    let bin = if cfg!(debug_assertions) { std::env::var("FFV_REL_BIN") } else { std::env::var("FFV_DEV_BIN") };
    let bin = bin.unwrap_or_else(|_| if cfg!(debug_assertions) { format!("{}/harness/target/release/ffv", verif_dir()) } else { format!("{}/harness/target/debug/ffv", verif_dir()) });
    let scratch = std::env::var("FFV_SCRATCH").unwrap_or_else(|_| format!("{}/harness/target/scratch", verif_dir()));
    let _ = std::fs::create_dir_all(&scratch);
    let part = format!("{scratch}/part-{}-{}.json", ctx.id, std::process::id());
    let _ = std::fs::remove_file(&part);
    let status = std::process::Command::new(&bin)
        .args(["check", &ctx.id, "--tier", ctx.tier.name(), "--seed", &ctx.seed.to_string(), "--part", &part])
        .status();
    let code = match status {
        Ok(s) => s.code().unwrap_or(2),
        Err(e) => {
            println!("INFRA cannot run {bin}: {e}");
            return Some((2, None));
        }
    };
    let v = std::fs::read_to_string(&part).ok().and_then(|t| serde_json::from_str(&t).ok());
    let _ = std::fs::remove_file(&part);
    Some((code, v))
}

/// inverse of `stats_to_json` (as far as merging needs it)
pub fn stats_from_json(v: &Value) -> Stats {
    let mut st = Stats::new();
    st.evaluations = v["evaluations"].as_u64().unwrap_or(0);
    st.nt_enum = v["distinct_nontrivial"].as_u64().unwrap_or(0);
    if let Some(m) = v["classes"].as_object() {
        for (k, n) in m {
            st.classes.insert(k.clone(), n.as_u64().unwrap_or(0));
        }
    }
    if let Some(m) = v["skipped"].as_object() {
        for (k, n) in m {
            st.skipped.insert(k.clone(), n.as_u64().unwrap_or(0));
        }
    }
    if let Some(m) = v["known"].as_object() {
        for (k, n) in m {
            st.known.insert(k.clone(), (n["excluded"].as_u64().unwrap_or(0), n["what"].as_str().unwrap_or("").to_string()));
        }
    }
    if let Some(a) = v["samples"].as_array() {
        st.samples = a.clone();
    }
    if let Some(a) = v["failures"].as_array() {
        for f in a {
            st.failures.push(Failure { case: f["case"].clone(), msg: f["msg"].as_str().unwrap_or("").to_string() });
        }
    }
    if let Some(a) = v["oracle_bugs"].as_array() {
        st.oracle_bugs = a.iter().filter_map(|x| x.as_str().map(|s| s.to_string())).collect();
    }
    if let Some(a) = v["notes"].as_array() {
        st.notes = a.iter().filter_map(|x| x.as_str().map(|s| s.to_string())).collect();
    }
    if let Some(m) = v["extra"].as_object() {
        for (k, x) in m {
            st.extra.insert(k.clone(), x.clone());
        }
    }
    st
}
