#!/bin/bash
# offline build of the harness in both profiles (and the fuzz targets when present)
set -e
cd "$(dirname "$0")/harness"
export CARGO_NET_OFFLINE=true
cargo build --release 2>&1 | tail -n 3
cargo build 2>&1 | tail -n 3
# libFuzzer targets (used by the thorough tier of C01, C03, C14)
(cd ../fuzz && cargo +nightly fuzz build --fuzz-dir . 2>&1 | tail -n 2) || echo "note: fuzz targets not built (thorough tiers will rebuild them)"
