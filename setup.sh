#!/bin/bash
# offline build of the harness in both profiles (and the fuzz targets when present)
set -e
cd "$(dirname "$0")/harness"
export CARGO_NET_OFFLINE=true
cargo build --release 2>&1 | tail -n 3
cargo build 2>&1 | tail -n 3
