#!/bin/bash
# tools/dev_run.sh <repo-dir> <ID> [extra harness args]   (development aid, not a registered command)
# Builds the harness of /verif against another checkout of the repository (a clean or a
# changed scratch worktree) in a target directory of its own and runs one check from it;
# evidence and replays go to /root/vdev, nothing under /verif is touched.
set -u
REPO="$(readlink -f "$1")"; ID="$2"; shift 2
NAME=$(basename "$REPO")
export CARGO_TARGET_DIR=/root/devtarget-$NAME CARGO_NET_OFFLINE=true
mkdir -p /root/vdev; rsync -a --exclude target --exclude .git --exclude replays --exclude seeded /verif/ /root/vdev/
cd /verif/harness || exit 2
cargo build --release --config "paths=[\"$REPO\"]" 2>&1 | grep -E "^error|warning: unused" -A6 | head -40
cargo build --config "paths=[\"$REPO\"]" 2>&1 | grep -E "^error" -A6 | head -20
export FFV_VERIF_DIR=/root/vdev FFV_REPO_SRC="$REPO/src"
export FFV_DEV_BIN=$CARGO_TARGET_DIR/debug/ffv FFV_REL_BIN=$CARGO_TARGET_DIR/release/ffv FFV_SCRATCH=$CARGO_TARGET_DIR/scratch
mkdir -p "$FFV_SCRATCH"
cc -shared -fPIC -O1 -o $CARGO_TARGET_DIR/fakeclock.so /verif/harness/shim/fakeclock.c -ldl && export FFV_FAKECLOCK=$CARGO_TARGET_DIR/fakeclock.so
"$FFV_REL_BIN" check "$ID" --tier "${TIER:-quick}" --seed "${VERIF_SEED:-0}" "$@"
echo "rc=$?"
