#!/bin/bash
# tools/intake_benign.sh [J]      (development aid, not a registered command)
# Takes in BEHAVIOUR-PRESERVING changes that sub-agents left in /tmp/w9-<RID>/out/{patch,meta}<N>.*
# (worktrees marked with out/DONE): confirms that each applies and that the 45 repository tests pass
# with it (debug and release), then runs all 20 checks (quick tier, seed 0) against it, J changes at a
# time, each worker in a scratch worktree of /repo HEAD (/root/ib-repo-<k>) with a copy of /verif
# (/root/ib-verif-<k>); files the change under /verif/benign/<RID>-<N>/ with the outcome. A check
# that reports a violation here is either a false alarm of the machinery or a change that is not
# behaviour-preserving after all: to be looked at by hand.
J=${1:-4}; WTP=/tmp/w9-
export CARGO_NET_OFFLINE=true
res1() { grep -E '^test result' | head -1; }
: > /root/ib-list.txt
for d in ${WTP}R*; do
  [ -f $d/out/DONE ] || continue
  RID=${d#$WTP}
  for N in 1 2 3; do
    [ -f $d/out/patch$N.diff ] || continue
    [ -d /verif/benign/$RID-$N ] && continue
    ( cd $d && git checkout -q -- . && git apply out/patch$N.diff 2>/dev/null && D=$(cargo test --offline --lib 2>&1 | res1) && R=$(cargo test --offline --release --lib 2>&1 | res1); git checkout -q -- .; echo "$D | $R" > out/tests$N.txt )
    if grep -q "45 passed; 0 failed.*|.*45 passed; 0 failed" $d/out/tests$N.txt 2>/dev/null; then echo "$RID $N" >> /root/ib-list.txt; else echo "REJECTED $RID $N: $(cat $d/out/tests$N.txt 2>/dev/null)"; fi
  done
done
echo "to run: $(wc -l < /root/ib-list.txt) changes"
[ -s /root/ib-list.txt ] || exit 0
for k in $(seq 1 $J); do
  git -C /repo worktree remove --force /root/ib-repo-$k 2>/dev/null
  git -C /repo worktree add -q --detach /root/ib-repo-$k HEAD || exit 2
  rm -rf /root/ib-verif-$k; rsync -a --exclude target --exclude .git --exclude replays --exclude seeded --exclude benign /verif/ /root/ib-verif-$k/
  sed -i "s#path = \"/repo\"#path = \"/root/ib-repo-$k\"#" /root/ib-verif-$k/harness/Cargo.toml
done
worker() {
  k=$1
  awk -v k=$k -v j=$J 'NR % j == k % j' /root/ib-list.txt | while read RID N; do
    O=$WTP$RID/out
    cd /root/ib-repo-$k && git checkout -q -- . && git apply $O/patch$N.diff || { echo "APPLY-FAILED" > $O/alarms$N.txt; continue; }
    ALARMS=""; : > $O/alarmtext$N.txt
    for id in C01 C02 C03 C04 C05 C06 C07 C08 C09 C10 C11 C12 C13 C14 C15 C16 C17 C18 C19 C20; do
      out=$(cd /root/ib-verif-$k && VERIF_SEED=0 FFV_THREADS=8 FFV_REPO_SRC=/root/ib-repo-$k/src ./check $id 2>&1); rc=$?
      if [ $rc -ne 0 ]; then ALARMS="$ALARMS $id(rc=$rc)"; echo "== $id rc=$rc" >> $O/alarmtext$N.txt; echo "$out" | grep -E 'VIOLATION|INFRA|WATCHDOG|BUILD' -A2 | head -8 | cut -c1-900 >> $O/alarmtext$N.txt; fi
    done
    echo "$ALARMS" > $O/alarms$N.txt
    cd /root/ib-repo-$k && git checkout -q -- .
    echo "done $RID $N: alarms:$ALARMS"
  done
}
for k in $(seq 1 $J); do worker $k & done
wait
mkdir -p /verif/benign
while read RID N; do
  O=$WTP$RID/out; D=/verif/benign/$RID-$N
  [ -f $O/alarms$N.txt ] || continue
  mkdir -p $D; cp $O/patch$N.diff $D/patch.diff
  python3 - "$O/meta$N.json" "$D/meta.json" "$(cat $O/tests$N.txt)" "$(cat $O/alarms$N.txt)" "$(cat $O/alarmtext$N.txt 2>/dev/null)" <<'PY'
import json,sys
src,dst,tests,alarms,text=sys.argv[1:6]
try: m=json.load(open(src))
except Exception as e: m={"note":"sub-agent meta unreadable: %s"%e}
m["kind"]="behaviour-preserving change (written to test the checks for false alarms)"
m["repo_tests_with_change"]=tests
m["checks_run"]="tools/intake_benign.sh: all 20 checks, quick tier, VERIF_SEED=0, scratch worktree of /repo HEAD with the patch applied"
m["checks_not_silent"]=alarms.split()
if text: m["what_they_said"]=text[:4000]
json.dump(m,open(dst,"w"),indent=1)
PY
  echo "filed $D: not silent:$(cat $O/alarms$N.txt)"
done < /root/ib-list.txt
for k in $(seq 1 $J); do git -C /repo worktree remove --force /root/ib-repo-$k; rm -rf /root/ib-verif-$k; done
git -C /repo worktree prune
echo INTAKE-DONE
