#!/bin/bash
# tools/intake_mutant.sh <CID> <N> : confirm a sub-agent's seeded change in its scratch worktree
# (/tmp/wt-<CID>/out/patch<N>.diff + demo<N>.rs), then run our checks against it, then file it
# under /verif/seeded/<CID>-<N>/.   Development aid.
set -u
CID="$1"; N="$2"; WT=${WTPREFIX:-/tmp/wt-}$CID; OUT=$WT/out; FILE_AS=$((N + ${NUM_OFFSET:-0}))
[ -f "$OUT/patch$N.diff" ] || { echo "no patch $OUT/patch$N.diff"; exit 2; }
cd "$WT" || exit 2
git checkout -q -- . ; rm -rf tests; mkdir -p tests; cp "$OUT/demo$N.rs" tests/demo$N.rs
BASE=$(cargo test --offline --test demo$N 2>&1 | grep -E '^test result' | head -1)
echo "demo on unchanged tree: $BASE"
git apply "$OUT/patch$N.diff" || { echo "PATCH-DOES-NOT-APPLY"; exit 3; }
MUT=$(cargo test --offline --test demo$N 2>&1 | grep -E '^test result' | head -1)
echo "demo with the change:   $MUT"
LIB=$(cargo test --offline --lib 2>&1 | grep -E '^test result' | head -1)
echo "repo tests with change: $LIB"
git checkout -q -- . ; rm -rf tests
case "$BASE" in *"0 failed"*) ;; *) echo "REJECT: demo does not pass on the unchanged tree"; exit 4;; esac
case "$MUT" in *"0 failed"*)
  # maybe the change only shows in a release build
  cd "$WT"; rm -rf tests; mkdir -p tests; cp "$OUT/demo$N.rs" tests/demo$N.rs
  BASER=$(cargo test --offline --release --test demo$N 2>&1 | grep -E '^test result' | head -1)
  git apply "$OUT/patch$N.diff"
  MUTR=$(cargo test --offline --release --test demo$N 2>&1 | grep -E '^test result' | head -1)
  git checkout -q -- . ; rm -rf tests
  echo "release: unchanged: $BASER / with the change: $MUTR"
  case "$BASER" in *"0 failed"*) ;; *) echo "REJECT: demo does not pass on the unchanged tree (release)"; exit 4;; esac
  case "$MUTR" in *"0 failed"*) echo "REJECT: demo does not fail with the change (debug or release)"; exit 4;; esac
  MUT="debug: $MUT; release: $MUTR";;
esac
case "$LIB" in *"45 passed; 0 failed"*) ;; *) echo "REJECT: repository tests fail with the change"; exit 4;; esac
shift 2
RES=$(/verif/tools/try_mutant.sh "$OUT/patch$N.diff" "$@" 2>&1)
echo "$RES" | tail -40
D=/verif/seeded/$CID-$FILE_AS; mkdir -p "$D"
cp "$OUT/patch$N.diff" "$D/patch.diff"; cp "$OUT/demo$N.rs" "$D/demo.rs"
CAUGHT=$(echo "$RES" | grep '^CAUGHT-BY:' | sed 's/CAUGHT-BY://')
python3 - "$OUT/meta$N.json" "$D/meta.json" "$CID" "$BASE" "$MUT" "$LIB" "$CAUGHT" <<'PY'
import json,sys
src,dst,cid,base,mut,lib,caught=sys.argv[1:8]
try: m=json.load(open(src))
except Exception as e: m={"note":"sub-agent meta unreadable: %s"%e}
m["breaks_property"]=cid
m["confirmed"]={"demo_on_unchanged_tree":base,"demo_with_change":mut,"repo_tests_with_change":lib,
  "how":"tools/intake_mutant.sh: demo copied to tests/ of a scratch worktree of /repo HEAD, run without and with the patch; cargo test --offline --lib with the patch"}
m["checks_run"]="tools/try_mutant.sh patch.diff (quick tier, VERIF_SEED=0): git -C /repo apply, ./check <ID>, git -C /repo checkout -- ."
m["caught_by"]=caught.split()
json.dump(m,open(dst,"w"),indent=1)
PY
echo "filed under $D (caught by:$CAUGHT)"
