#!/bin/bash
# tools/intake_round.sh <NUM_OFFSET> [J]      (development aid, not a registered command)
# Takes in the seeded changes that sub-agents left in $WTPREFIX<CID>/out/ (default prefix /tmp/wt-), i.e. /tmp/wt-<CID>/out/{patch,demo,meta}<N>.* and
# that are not filed yet under /verif/seeded/<CID>-<N+NUM_OFFSET>/:
#   1. confirms each in the sub-agent's own scratch worktree: the demo passes on the unchanged tree,
#      fails with the change (debug, else release), the 45 repository tests pass with the change;
#   2. runs all 20 checks (quick tier, seed 0) against it, J changes at a time, each worker in a
#      scratch worktree of /repo HEAD (/root/ir-repo-<k>) with a copy of /verif (/root/ir-verif-<k>)
#      whose harness depends on that worktree - /repo itself is not touched;
#   3. files it with meta.json (confirmed, caught_by, caught_by_own_check).
# IDS="C02 C04 C05" shortens the list of checks run against each change (the own check always runs, first);
# round 10 was taken in that way and its meta.json files say so.
# Only worktrees marked with out/DONE (the sub-agent has reported back) are looked at.
# Scratch copies are removed at the end.
OFFSET=${1:?offset}; J=${2:-4}; WTP=${WTPREFIX:-/tmp/wt-}
export CARGO_NET_OFFLINE=true
res1() { grep -E '^test result' | head -1; }
confirm_wt() {
  CID=$1; WT=$WTP$CID
  for N in 1 2 3; do
    [ -f $WT/out/patch$N.diff ] && [ -f $WT/out/demo$N.rs ] || continue
    [ -d /verif/seeded/$CID-$((N+OFFSET)) ] && continue
    [ -f $WT/out/confirm$N.json ] && continue
    ( cd $WT || exit
      git checkout -q -- . ; rm -rf tests; mkdir -p tests; cp out/demo$N.rs tests/demo$N.rs
      BASE=$(cargo test --offline --test demo$N 2>&1 | res1)
      if git apply out/patch$N.diff 2>/dev/null; then
        MUT=$(cargo test --offline --test demo$N 2>&1 | res1)
        LIB=$(cargo test --offline --lib 2>&1 | res1)
        git checkout -q -- .
        case "$MUT" in *"0 failed"*|"")
          BASER=$(cargo test --offline --release --test demo$N 2>&1 | res1)
          git apply out/patch$N.diff
          MUTR=$(cargo test --offline --release --test demo$N 2>&1 | res1)
          git checkout -q -- .
          case "$BASER" in *"0 failed"*) ;; *) BASE="release: $BASER";; esac
          MUT="debug: $MUT; release: $MUTR";;
        esac
      else MUT="PATCH-DOES-NOT-APPLY"; LIB=""; fi
      rm -rf tests
      python3 - "$BASE" "$MUT" "$LIB" > out/confirm$N.json <<'PY'
import json,sys
base,mut,lib=sys.argv[1:4]
ok = "0 failed" in base and "ok." in base and "FAILED" in mut and "45 passed; 0 failed" in lib
print(json.dumps({"ok":ok,"demo_on_unchanged_tree":base,"demo_with_change":mut,"repo_tests_with_change":lib}))
PY
    )
  done
}
for d in ${WTP}C*; do [ -f $d/out/DONE ] && confirm_wt ${d#$WTP} & done
wait
: > /root/ir-list.txt
for d in ${WTP}C*; do CID=${d#$WTP}; for N in 1 2 3; do
  [ -f $d/out/confirm$N.json ] || continue
  [ -d /verif/seeded/$CID-$((N+OFFSET)) ] && continue
  if grep -q '"ok": true' $d/out/confirm$N.json; then echo "$CID $N" >> /root/ir-list.txt; else echo "REJECTED $CID $N: $(cat $d/out/confirm$N.json)"; fi
done; done
echo "to run: $(wc -l < /root/ir-list.txt) changes"
[ -s /root/ir-list.txt ] || exit 0
for k in $(seq 1 $J); do
  git -C /repo worktree remove --force /root/ir-repo-$k 2>/dev/null
  git -C /repo worktree add -q --detach /root/ir-repo-$k HEAD || exit 2
  rm -rf /root/ir-verif-$k; rsync -a --exclude target --exclude .git --exclude replays --exclude seeded /verif/ /root/ir-verif-$k/
  sed -i "s#path = \"/repo\"#path = \"/root/ir-repo-$k\"#" /root/ir-verif-$k/harness/Cargo.toml
done
worker() {
  k=$1
  awk -v k=$k -v j=$J 'NR % j == k % j' /root/ir-list.txt | while read CID N; do
    P=$WTP$CID/out/patch$N.diff
    cd /root/ir-repo-$k && git checkout -q -- . && git apply $P || { echo "$CID $N APPLY-FAILED" > $WTP$CID/out/caught$N.txt; continue; }
    CAUGHT=""
    for id in $(echo $CID ${IDS:-C01 C02 C03 C04 C05 C06 C07 C08 C09 C10 C11 C12 C13 C14 C15 C16 C17 C18 C19 C20} | tr " " "\n" | awk '!s[$0]++'); do
      out=$(cd /root/ir-verif-$k && VERIF_SEED=0 FFV_THREADS=8 FFV_REPO_SRC=/root/ir-repo-$k/src ./check $id 2>&1); rc=$?
      if [ $rc -eq 1 ]; then CAUGHT="$CAUGHT $id"; echo "$out" | grep -A1 '^VIOLATION' | head -2 | cut -c1-400 > $WTP$CID/out/viol$N-$id.txt
      elif [ $rc -ne 0 ]; then echo "$id exit $rc: $(echo "$out" | tail -2 | cut -c1-300)" >> $WTP$CID/out/trouble$N.txt; fi
    done
    echo "$CAUGHT" > $WTP$CID/out/caught$N.txt
    cd /root/ir-repo-$k && git checkout -q -- .
    echo "done $CID $N:$CAUGHT"
  done
}
for k in $(seq 1 $J); do worker $k & done
wait
while read CID N; do
  D=/verif/seeded/$CID-$((N+OFFSET)); O=$WTP$CID/out
  [ -f $O/caught$N.txt ] || continue
  mkdir -p $D; cp $O/patch$N.diff $D/patch.diff; cp $O/demo$N.rs $D/demo.rs
  python3 - "$O/meta$N.json" "$D/meta.json" "$CID" "$O/confirm$N.json" "$(cat $O/caught$N.txt)" "$(cat $O/trouble$N.txt 2>/dev/null)" <<'PY'
import json,sys
src,dst,cid,conf,caught,trouble=sys.argv[1:7]
try: m=json.load(open(src))
except Exception as e: m={"note":"sub-agent meta unreadable: %s"%e}
c=json.load(open(conf)); c.pop("ok",None)
c["how"]="tools/intake_round.sh: demo copied to tests/ of the sub-agent's scratch worktree of /repo HEAD, run without and with the patch; cargo test --offline --lib with the patch"
m["breaks_property"]=cid; m["confirmed"]=c
m["checks_run"]="tools/intake_round.sh: all 20 checks, quick tier, VERIF_SEED=0, in a scratch worktree of /repo HEAD with the patch applied and a copy of /verif whose harness depends on that worktree"
m["caught_by"]=caught.split(); m["caught_by_own_check"]=cid in caught.split()
if trouble: m["check_trouble"]=trouble
json.dump(m,open(dst,"w"),indent=1)
PY
  echo "filed $D: caught by:$(cat $O/caught$N.txt)"
done < /root/ir-list.txt
for k in $(seq 1 $J); do git -C /repo worktree remove --force /root/ir-repo-$k; rm -rf /root/ir-verif-$k; done
git -C /repo worktree prune
echo INTAKE-DONE
