#!/usr/bin/env python3
"""Regenerates /verif/MANIFEST.json from the table below (kept in one place so the
manifest stays valid while checks are added)."""
import json, sys

CHECKS = {
 "C01": dict(
   text="Exhaustive differential of the public parse entry point against an independent recursive-descent reference grammar on every word sequence up to length 6 (quick) / 7 (thorough) over the 11-word operator alphabet, plus random near-sentences, print/parse round trips of trees up to depth 8, nesting of every depth 1..64, operator chains of 10..2500 operands, operator words glued to what follows (must be rejected), replay of a fuzz corpus; thorough adds a libFuzzer campaign with the same oracle. Exhaustive within the bound, sampled beyond; generated search never proves absence.",
   ref="DESIGN.md section 4, C01",
   note="Trusted: the hand-written reference grammar (self-checked against the tree printer on every run); three primaries stand for all primaries.",
   technique="exhaustive enumeration + proptest random generation, differential against a reference grammar, round trip"),
 "C02": dict(
   text="Translation validation by differential execution: random expression trees over every supported test/action are compiled, the emitted Scheme is read and run by an independent evaluator with a LiPE runtime model on file sets directed at every constant of the tree, and truth value, ordered outputs and stop request are compared with an evaluator of find's rules. Sampled, boundary-directed exploration.",
   ref="DESIGN.md section 4, C02 and 3.4",
   note="Trusted: the harness's Scheme reader/evaluator and LiPE runtime model (assumptions listed in the evidence file), the find-semantics evaluator, fnmatch implementation.",
   technique="proptest-generated programs, differential execution against a reference evaluator (translation validation)"),
 "C03": dict(
   text="Totality search over ~1.5 M (quick) structured inputs per build profile (incl. long words with multi-byte characters at power-of-two byte offsets, expressions with > 127 distinct matchers, five further renderings after a hostile one): grammar-aware texts, all prefixes and single-character mutations, exhaustive short argument strings after every keyword, numeric boundaries, groups with an operator at every nesting level up to the bound, every code point of the basic plane as an argument, bracket arrangements; every stage (parse, error Display/Debug, compile, scheme, io_map) must return; run in child processes of the dev and the release harness so aborts are contained. Thorough adds libFuzzer campaigns.",
   ref="DESIGN.md section 4, C03 and 3.7",
   note="An input that has no answer after 20 s of CPU time of its process (inputs of the corpus take at most ~0.2 s) is reported as a failure to terminate, after confirmation in a process of its own; expiry of the watchdog of the whole run is inconclusive (exit 2). Nesting beyond 64 and inputs beyond 4 KiB are outside the property.",
   technique="structured generation + mutation + exhaustive short strings, crash oracle in child processes, both build profiles"),
 "C04": dict(
   text="Every string-carrying construct (39 carriers: tests and actions, plain and framed mode, short and > 1000-byte policy bodies, format literals, octal-escaped characters, strftime selectors, the device path) x every string of length <= 3 (quick) / 4 (thorough) over an 18-symbol hostile alphabet, plus long strings with multi-byte characters at power-of-two offsets, a dictionary of tokens extracted from the code generator's own sources, all 512 octal escapes and random strings, and whole trees (interaction triples, requests a concatenated key would confuse, random trees with dictionary strings) against their neutral twin: the emitted program must read as exactly two forms, have the same structure as the program for the neutralised string, carry the string as a literal decoding to exactly it, and print literal format text verbatim when executed.",
   ref="DESIGN.md section 4, C04",
   note="Trusted: the harness's reader for Guile string/char syntax (strict on unknown escapes). No Guile in the sandbox to cross-check.",
   technique="exhaustive short strings + random strings, non-interference (metamorphic) oracle through an independent reader, behavioural check"),
 "C05": dict(
   text="Every keyword with generated members of its documented argument language (alone and embedded) must yield exactly the specification-side node; systematically corrupted non-members (junk words per language, keyword+suffix, missing argument, glued primaries, bad directive, unknown words) must be rejected as a whole.",
   ref="DESIGN.md section 4, C05 and appendix A",
   note="The vocabulary table keyword -> node is written from find(1) and ast.rs doc comments; glued punctuation is not asserted.",
   technique="table-driven generation of members and corrupted non-members, oracle = specification-side vocabulary table"),
 "C06": dict(
   text="Metamorphic check: random expressions over the whole vocabulary are printed canonically and through a variant grammar (blank kinds, AND/OR spellings, redundant parentheses, quoting styles); every variant must give the same options and tree; blank inputs mean -true. Interaction triples (three leaf kinds x operator skeletons) in layout variants; replay of the corpus of the structure-aware libFuzzer target `spell` (quick) and a campaign of it (thorough) with the same oracle inside the target.",
   ref="DESIGN.md section 4, C06",
   note="Quoting is varied only on word-or-quoted-string arguments.",
   technique="proptest generation of spelling variants + coverage-guided fuzzing (structure-aware target), metamorphic relation"),
 "C07": dict(
   text="Every numeric carrier x boundary-directed and random decimal strings (leading zeros, signs, up to 40 digits): in range -> exact value in the tree and in the emitted constant (after unit multiplication), out of range -> rejected with an error value; pairs of numeric primaries of one attribute side by side (ranges in mixed units, empty or crossing) keep both exact constants in order; both build profiles.",
   ref="DESIGN.md section 4, C07",
   note="Oracle is big-integer arithmetic on the text (u128 / digit strings).",
   technique="boundary-value + random generation, arithmetic oracle on the text, independent reader for emitted constants, both build profiles"),
 "C08": dict(
   text="All 4096 octal values, all 315 clauses and all 99,225 ordered clause pairs (exhaustive), random longer lists and lists of up to 1000 clauses, under the three prefixes: the tree must carry the mode of a chmod model and the executed policy must implement equal / all-bits / any-bit on directed mode sets.",
   ref="DESIGN.md section 4, C08",
   note="Known finding F12 ('-' clauses) is excluded by a signature predicate and reported as KNOWN-FINDING.",
   technique="exhaustive enumeration + random lists, reference model (chmod), differential execution of the emitted policy"),
 "C09": dict(
   text="Every tree with at most 6 (quick) / 7 (thorough) nodes over six leaves and four operators, plus random larger ones, compiled and executed on two files: outputs must be those of '( E ) -a -print' when no action occurs anywhere and exactly the written actions otherwise; structural cross-check of the policy body.",
   ref="DESIGN.md section 4, C09",
   note="Uses the runtime model of C02.",
   technique="exhaustive small-tree enumeration, behavioural oracle from find's rules"),
 "C10": dict(
   text="Random multisets of output actions in operator trees, chains of up to 300 destinations, every number 0..72 of matchers before the printers and tens of thousands of them (printer numbers around 0xD800): mode choice against the specification-side rule, destination table = bijection with the requested (destination, terminator) pairs, every byte of the executed policy inside a frame whose tag maps to the producing action's pair.",
   ref="DESIGN.md section 4, C10",
   note="Known finding F13 (-print-file-fid bypasses frames) is excluded by signature and reported as KNOWN-FINDING.",
   technique="proptest-generated programs, frame decoder + reference evaluator, invariant over the destination table"),
 "C11": dict(
   text="Expressions with up to 300 matcher/printer requests in random first-occurrence order: scope analysis of the read program (bound once, before use), every body reference resolved to the resource of the corresponding leaf, sharing exactly for identical requests; plus behavioural runs.",
   ref="DESIGN.md section 4, C11",
   note="Trusted: reader and scope analyser in the harness.",
   technique="proptest-generated programs, static scope analysis + reference-resolution oracle, behavioural sample"),
 "C12": dict(
   text="Random trees over the full vocabulary with unsupported constructs at random positions and every unsupported construct in fixed dead/negated/nested positions: compile fails iff one is present and names it; compiled bodies are structurally faithful and use only runtime vocabulary.",
   ref="DESIGN.md section 4, C12 and appendix C",
   note="Support partition written from ast.rs.",
   technique="proptest-generated trees, oracle = specification-side support partition + structural invariant"),
 "C13": dict(
   text="Random expressions with options in a leading run and at random positions inside: options model (any -depth, last -threads), expected tree with options as -true, no option node, thread count in the emitted scan call; -maxdepth/-mindepth rejected or reflected. Interaction triples with options among the leaf kinds; corpus replay (quick) and campaign (thorough) of the structure-aware libFuzzer target `spell` with the same oracle inside the target.",
   ref="DESIGN.md section 4, C13",
   note="An expression starting with an option word is part of the leading run by definition.",
   technique="proptest generation + coverage-guided fuzzing (structure-aware target), reference model of option handling"),
 "C14": dict(
   text="Every string up to length 5 (quick) / 6 (thorough) over a 17-symbol alphabet, every documented directive/escape alone, embedded and pairwise, random strings to length 60: the returned element list must equal the segmentation of an independent scanner, or be an error for an undocumented directive.",
   ref="DESIGN.md section 4, C14 and appendix B",
   note="One/two-digit octal escapes: both documented readings accepted; %{xattr:NAME} asserted for letter names only.",
   technique="exhaustive enumeration + random generation, differential against an independent scanner"),
 "C15": dict(
   text="Resource-rich random expressions: parse twice, compile e1/e2/e1 in one process (programs byte-identical after normalising the embedded second, equal tables), the same texts plus near-duplicates in three fresh processes that visit them in different orders, embedded second within clock readings around the call, also in histories where earlier compilations fail and the wall clock advances in between.",
   ref="DESIGN.md section 4, C15",
   note="The only check that reads the wall clock, and only to bracket the compile call.",
   technique="proptest generation, repeat/differential across calls and processes, invariant on the embedded time"),
 "C16": dict(
   text="For generated programs with 1..3 printers and 2..3 threads running 1..2 policy invocations, the printer procedures are executed into atomic lock/write/unlock steps and ALL interleavings are explored (BFS over program counters with blocking mutexes): no torn or mixed record, no deadlock.",
   ref="DESIGN.md section 4, C16 and section 6",
   note="The harness owns the schedule; not covered: fairness of the real scheduler and write atomicity inside the real runtime. Known finding F13 excluded by signature.",
   technique="owned-schedule exhaustive interleaving exploration of generated programs (stateful PBT)"),
 "C17": dict(
   text="A fixed-by-seed corpus of ~500 k (quick) valid, invalid and boundary inputs is evaluated by the dev and the release build of the same harness; canonical records (parse result, program with clock normalised, table or error) must be equal input by input.",
   ref="DESIGN.md section 4, C17",
   note="Records compared through a 64-bit hash; full records fetched on mismatch.",
   technique="differential between two build configurations over a generated corpus"),
 "C18": dict(
   text="Every argument-taking keyword with a missing argument or a word invalid from its first character, at varied positions, and unknown words: the error text must name the keyword, quote the offending word (empty when missing) and quote nothing that is not in the input.",
   ref="DESIGN.md section 4, C18",
   note="String-valued arguments only have the 'missing' case.",
   technique="systematic + random generation of rejected inputs, oracle on the error text"),
 "C19": dict(
   text="Random trees from the public constructors (depth <= 12, incl. precedence/option nodes, deprecated default print, empty formats) and counts around 2^64/unit: action(), complex_frames(), mult(), secs(), byte_size() against an independent explicit-stack flattening and u128 arithmetic.",
   ref="DESIGN.md section 4, C19",
   note="byte_size() is not called when the product does not fit.",
   technique="proptest generation, reference implementation oracle"),
 "C20": dict(
   text="Random compiled expressions x histories of 2..6 scheme(path)/io_map() calls with benign and hostile paths: same path -> identical text, different paths -> programs differing in exactly the device string of the scan call (decoding to the path), table unchanged.",
   ref="DESIGN.md section 4, C20",
   note="Trusted: the harness's reader.",
   technique="stateful history generation (vec(op) + interpreter), S-expression diff through an independent reader"),
}

PENDING = {}

def main():
    ids = ["C%02d" % i for i in range(1, 21)]
    checks = []
    for i in ids:
        if i not in CHECKS:
            continue
        c = CHECKS[i]
        checks.append({
            "property_id": i,
            "quick_cmd": f"./check {i} --tier quick",
            "thorough_cmd": f"./check {i} --tier thorough",
            "evidence_file": f"/verif/evidence/{i}.json",
            "replay_cmd_template": f"./check {i} --replay {{path}}",
            "engine": "ffv",
            "level_claimed": {"category": "exploration", "text": c["text"], "design_ref": c["ref"]},
            "level_note": c["note"],
            "technique": c["technique"],
        })
    na = [{"property_id": i, "reason": PENDING.get(i, "check not built yet in this revision of /verif (planned, see DESIGN.md section 4)")} for i in ids if i not in CHECKS]
    m = {
        "version": 1,
        "setup_cmd": "./setup.sh",
        "hooks": {
            "guard": "ffv_verif",
            "enable": "no source hooks are needed: every property is observable through the public API (parse, compile, scheme, io_map, ast helpers); the harness has a path dependency on /repo",
            "baseline_off_cmd": "cd /repo && cargo test --workspace --no-fail-fast --offline",
            "source_commits": [],
            "add_only": True,
        },
        "engines": [
            {"name": "ffv", "path": "/verif/harness", "serves_properties": [c["property_id"] for c in checks],
             "kind_free_text": "Rust harness binary (path dependency on /repo, built in dev and release): exhaustive enumerators + proptest-driven random generation, reference models (grammar, vocabulary, chmod, printf scanner, find evaluator), independent Scheme reader/evaluator with a LiPE runtime model"},
        ],
        "checks": checks,
        "notes": "Technique family: property-based testing and fuzzing. Known findings are listed in /verif/KNOWN_FINDINGS.txt; fix: commits in /repo are recorded there as fixed: lines. Every check also re-runs itself in child processes under perturbed environments (moved fast-running wall clock through an LD_PRELOAD shim built by ./check, time zone, locale, variables named in the sources): DESIGN.md 10.6; their counts are under coverage.environment_runs of the evidence files.",
        "not_applicable": na,
    }
    json.dump(m, open("/verif/MANIFEST.json", "w"), indent=1)
    print("wrote MANIFEST.json with", len(checks), "checks")

if __name__ == "__main__":
    main()
