#!/usr/bin/env python3
"""Regenerates /verif/MANIFEST.json from the table below (kept in one place so the
manifest stays valid while checks are added)."""
import json, sys

CHECKS = {
 "C01": dict(
   text="Exhaustive differential of the public parse entry point against an independent recursive-descent reference grammar on every word sequence up to length 6 (quick) / 7 (thorough) over the 11-word operator alphabet, plus random near-sentences and print/parse round trips of trees up to depth 8. Exhaustive within the bound, sampled beyond; generated search never proves absence.",
   ref="DESIGN.md section 4, C01",
   note="Trusted: the hand-written reference grammar (self-checked against the tree printer on every run); three primaries stand for all primaries.",
   technique="exhaustive enumeration + proptest random generation, differential against a reference grammar, round trip"),
}

PENDING = {}

def main():
    ids = ["C%02d" % i for i in range(1, 21)]
    checks = []
    for i in ids:
        if i not in CHECKS:
            continue
        c = CHECKS[i]
        checks.append({
            "property_id": i,
            "quick_cmd": f"./check {i} --tier quick",
            "thorough_cmd": f"./check {i} --tier thorough",
            "evidence_file": f"/verif/evidence/{i}.json",
            "replay_cmd_template": f"./check {i} --replay {{path}}",
            "engine": "ffv",
            "level_claimed": {"category": "exploration", "text": c["text"], "design_ref": c["ref"]},
            "level_note": c["note"],
            "technique": c["technique"],
        })
    na = [{"property_id": i, "reason": PENDING.get(i, "check not built yet in this revision of /verif (planned, see DESIGN.md section 4)")} for i in ids if i not in CHECKS]
    m = {
        "version": 1,
        "setup_cmd": "./setup.sh",
        "hooks": {
            "guard": "ffv_verif",
            "enable": "no source hooks are needed: every property is observable through the public API (parse, compile, scheme, io_map, ast helpers); the harness has a path dependency on /repo",
            "baseline_off_cmd": "cd /repo && cargo test --workspace --no-fail-fast --offline",
            "source_commits": [],
            "add_only": True,
        },
        "engines": [
            {"name": "ffv", "path": "/verif/harness", "serves_properties": [c["property_id"] for c in checks],
             "kind_free_text": "Rust harness binary (path dependency on /repo, built in dev and release): exhaustive enumerators + proptest-driven random generation, reference models (grammar, vocabulary, chmod, printf scanner, find evaluator), independent Scheme reader/evaluator with a LiPE runtime model"},
        ],
        "checks": checks,
        "notes": "Technique family: property-based testing and fuzzing. Known findings are listed in /verif/KNOWN_FINDINGS.txt; fix: commits in /repo are recorded there as fixed: lines.",
        "not_applicable": na,
    }
    json.dump(m, open("/verif/MANIFEST.json", "w"), indent=1)
    print("wrote MANIFEST.json with", len(checks), "checks")

if __name__ == "__main__":
    main()
