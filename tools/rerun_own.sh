#!/bin/bash
# tools/rerun_own.sh : re-run, for every seeded change, the check of the property it was written
# against (quick tier, seed 0) and record the result in meta.json ("caught_by_own_check").
cd /verif/seeded || exit 2
for d in */; do
  m=${d%/}; id=${m%-*}
  res=$(/verif/tools/try_mutant.sh /verif/seeded/$m/patch.diff $id 2>&1 | grep '^CAUGHT-BY:' | sed 's/CAUGHT-BY://')
  echo "$m own=$id caught:$res"
  python3 - "$m" "$id" "$res" <<'PY'
import json,sys
m,cid,res=sys.argv[1:4]
p=f"/verif/seeded/{m}/meta.json"
j=json.load(open(p))
j["caught_by_own_check"]=(cid in res.split())
j["own_check_rerun"]="tools/rerun_own.sh (final machinery, quick tier, VERIF_SEED=0)"
if cid in res.split() and cid not in j.get("caught_by",[]): j.setdefault("caught_by_after_strengthening",[]).append(cid)
json.dump(j,open(p,"w"),indent=1)
PY
done
echo RERUN-DONE
