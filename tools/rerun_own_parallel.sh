#!/bin/bash
# tools/rerun_own_parallel.sh [J] [REGEX]   (development aid, not a registered command)
# REGEX (egrep, on the directory names under seeded/) restricts the pass, e.g. 'C(07|09|12)-' or '-1[12]$'.
# Re-runs, for every seeded change, the check of the property it was written against (quick tier,
# seed 0) with the machinery as it stands, J at a time: each worker has a scratch worktree of /repo
# HEAD under /root/rr-repo-<k> and a copy of /verif under /root/rr-verif-<k> whose harness depends on
# that worktree. (Every change was confirmed against /repo itself when it was taken in; this pass
# only refreshes "caught_by_own_check" in the meta.json files.) Scratch copies are removed at the end.
J=${1:-4}; RE=${2:-.}
cd /verif/seeded || exit 2
ls -d */ | sed 's#/##' | grep -E "$RE" > /root/rr-list.txt
for k in $(seq 1 $J); do
  git -C /repo worktree remove --force /root/rr-repo-$k 2>/dev/null
  git -C /repo worktree add -q --detach /root/rr-repo-$k HEAD || exit 2
  rm -rf /root/rr-verif-$k; rsync -a --exclude target --exclude .git --exclude replays --exclude seeded /verif/ /root/rr-verif-$k/
  sed -i "s#path = \"/repo\"#path = \"/root/rr-repo-$k\"#" /root/rr-verif-$k/harness/Cargo.toml
done
worker() {
  k=$1; : > /root/rr-results-$k.txt
  awk -v k=$k -v j=$J 'NR % j == k % j' /root/rr-list.txt | while read m; do
    id=${m%-*}
    cd /root/rr-repo-$k && git checkout -q -- . && git apply /verif/seeded/$m/patch.diff || { echo "$m $id APPLY-FAILED" >> /root/rr-results-$k.txt; continue; }
    out=$(cd /root/rr-verif-$k && VERIF_SEED=0 FFV_THREADS=8 FFV_REPO_SRC=/root/rr-repo-$k/src ./check $id 2>&1); rc=$?
    echo "$m $id rc=$rc" >> /root/rr-results-$k.txt
    cd /root/rr-repo-$k && git checkout -q -- .
  done
}
for k in $(seq 1 $J); do worker $k & done
wait
cat /root/rr-results-*.txt | sort > /root/rr-results.txt
python3 - <<'PY'
import json
n=0; caught=0; missed=[]
for line in open('/root/rr-results.txt'):
    m,cid,rc=line.split()
    p=f"/verif/seeded/{m}/meta.json"; j=json.load(open(p))
    ok = rc=="rc=1"
    j["caught_by_own_check"]=ok
    j["own_check_rerun"]="tools/rerun_own_parallel.sh (final machinery, quick tier, VERIF_SEED=0, scratch worktree of /repo HEAD with the patch applied); "+rc
    if ok and cid not in j.get("caught_by",[]) and cid not in j.get("caught_by_after_strengthening",[]): j.setdefault("caught_by_after_strengthening",[]).append(cid)
    json.dump(j,open(p,"w"),indent=1); n+=1; caught+=ok
    if not ok: missed.append((m,rc))
print(f"{caught} of {n} caught by the check of their own property; not caught: {missed}")
PY
for k in $(seq 1 $J); do git -C /repo worktree remove --force /root/rr-repo-$k; rm -rf /root/rr-verif-$k /root/rr-results-$k.txt; done
git -C /repo worktree prune
echo RERUN-DONE
