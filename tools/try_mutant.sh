#!/bin/bash
# tools/try_mutant.sh <patch.diff> [ID ...]   (development aid, not a registered command)
# Applies the patch to /repo, confirms the repository's own tests still pass, runs the
# given checks (default: all 20, quick tier), reports which raise a VIOLATION, reverts.
set -u
PATCH="$(readlink -f "$1")"; shift
IDS="${*:-C01 C02 C03 C04 C05 C06 C07 C08 C09 C10 C11 C12 C13 C14 C15 C16 C17 C18 C19 C20}"
cd /repo || exit 2
if [ -n "$(git status --porcelain --untracked-files=no)" ]; then echo "/repo is dirty"; exit 2; fi
if ! git apply --check "$PATCH" 2>/dev/null; then echo "PATCH-DOES-NOT-APPLY $PATCH"; exit 3; fi
git apply "$PATCH"
trap 'git -C /repo checkout -- . ' EXIT
T=$(cargo test --offline 2>&1 | grep -E '^test result' | head -1)
echo "repo tests: $T"
case "$T" in *"45 passed; 0 failed"*) ;; *) echo "MUTANT-FAILS-REPO-TESTS"; exit 4;; esac
cd "${VROOT:-/verif}"
CAUGHT=""
for id in $IDS; do
  OUT=$(VERIF_SEED=${VERIF_SEED:-0} ./check "$id" --tier "${TIER:-quick}" 2>&1); rc=$?
  if [ $rc -eq 1 ]; then CAUGHT="$CAUGHT $id"; echo "--- $id: VIOLATION"; echo "$OUT" | grep -A1 '^VIOLATION' | head -4 | cut -c1-300
  elif [ $rc -ne 0 ]; then echo "--- $id: exit $rc"; echo "$OUT" | tail -3 | cut -c1-300; fi
done
echo "CAUGHT-BY:$CAUGHT"
